#!/bin/bash
# sweep_quick.sh <first seed> <last seed> - for `vp run --with-repo`: build in the snapshot, then every quick check for each seed against the /repo snapshot.
export KOALA_REPO=${VP_RUN_REPO:-/repo}
/venv/bin/python harness/setup.py > setup.log 2>&1 || { echo "setup failed"; tail -20 setup.log; exit 2; }
for seed in $(seq $1 $2); do
  for id in C01 C02 C03 C04 C05 C06 C07 C08 C09 C10 C11 C12 C13 C14 C15 C16 C17 C18 C19 C20; do
    out=$(VERIF_SEED=$seed timeout 3000 /venv/bin/python harness/check.py $id --tier quick 2>&1); r=$?
    echo "seed=$seed $id exit=$r $(echo "$out" | grep -E "^\[$id\]" | cut -c1-160)"
    if [ $r -ne 0 ]; then bad=1; echo "$out" | grep -E "VIOLATION|Traceback|Error" | cut -c1-300 | head -5; fi
  done
done
exit ${bad:-0}
