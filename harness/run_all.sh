#!/bin/bash
# run_all.sh [tier] [seed] [ids...] - run the registered checks one after another on /repo as it is; one summary line per check.
tier=${1:-quick}; seed=${2:-0}; shift 2 2>/dev/null
ids=${@:-C01 C02 C03 C04 C05 C06 C07 C08 C09 C10 C11 C12 C13 C14 C15 C16 C17 C18 C19 C20}
cd "$(dirname "$0")/.."
exec 9>/tmp/koala-repo.lock; flock 9     # serialised with try_seed.sh, which patches /repo temporarily
rc=0
for id in $ids; do
  out=$(VERIF_SEED=$seed /venv/bin/python harness/check.py $id --tier $tier 2>&1); r=$?
  echo "$out" | grep -E "^\[$id\]|VIOLATION|KNOWN-FINDING|Traceback|Error" | head -8
  echo "   exit=$r"
  [ $r -ne 0 ] && rc=1
done
exit $rc
