#!/bin/bash
# thorough_all.sh [seed] - for `vp run --with-repo`: build in the snapshot, then run every thorough check against the /repo snapshot.
seed=${1:-0}
export KOALA_REPO=${VP_RUN_REPO:-/repo}
/venv/bin/python harness/setup.py > setup.log 2>&1 || { echo "setup failed"; tail -20 setup.log; exit 2; }
for id in C01 C02 C03 C04 C05 C06 C07 C08 C09 C10 C11 C12 C13 C14 C15 C16 C17 C18 C19 C20; do
  s=$(date +%s)
  out=$(VERIF_SEED=$seed timeout 7200 /venv/bin/python harness/check.py $id --tier thorough 2>&1); r=$?
  echo "$out" | grep -E "^\[$id\]|VIOLATION|KNOWN-FINDING|Traceback|Error" | cut -c1-300 | head -8
  echo "   exit=$r wall=$(( $(date +%s) - s ))s"
done
