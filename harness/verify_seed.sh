#!/bin/bash
# usage: verify_seed.sh <dir with patch.diff + demo.py>
# confirms a candidate seeded change myself, in a scratch worktree outside /repo and /verif (removed afterwards):
# the patch applies, the unedited test suite passes as at baseline, the demo exits 1 with the patch and 0 without.
d=$(readlink -f "$1"); wt=/tmp/koala-verif-seedcheck-$$
git -C /repo worktree add -q $wt HEAD || exit 2
trap 'git -C /repo worktree remove --force '$wt EXIT
cd $wt
(cd /tmp && MPLBACKEND=Agg PYTHONPATH=$wt/src timeout 600 /venv/bin/python "$d/demo.py" >/dev/null 2>&1; echo "demo clean exit=$?")
git apply "$d/patch.diff" || { echo "patch does not apply"; exit 2; }
echo "files: $(git diff --stat | tail -1)"
(cd /tmp && MPLBACKEND=Agg PYTHONPATH=$wt/src timeout 600 /venv/bin/python "$d/demo.py" >/dev/null 2>&1; echo "demo patched exit=$?")
MPLBACKEND=Agg PYTHONPATH=$wt/src timeout 1500 /venv/bin/python -m pytest -q -p no:cacheprovider --timeout=900 2>&1 | grep -E "^FAILED|^ERROR|passed|failed" | tail -4
