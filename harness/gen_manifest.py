#!/usr/bin/env python3
"""Writes /verif/MANIFEST.json from the table below (kept next to the code so it cannot drift)."""
import json
from pathlib import Path

VERIF = Path(__file__).resolve().parent.parent
PY = "/venv/bin/python"

CLAIMS = {
    "C01": dict(
        technique="Lean 4 proof (orbits of the face permutation; sweep partition) + exact model/implementation correspondence",
        text="Kernel-checked theorems about the executable model of Lattice.plaquettes for every loop-free lattice (rotation system "
             "well-formed, tracer never stuck, closed consistent walks, vectors sum to net crossing, sweep returns every face once, "
             "no dart in two plaquettes, plaquettes = legitimate faces); the model is run against koala on the lattice zoo with exact "
             "(dyadic) transport of coordinates, and an independent exact face tracer evaluates the property on the implementation.",
        note="Trusted: Lean kernel, Mathlib, axioms propext/Classical.choice/Quot.sound; the correspondence harness; float arctan2/winding "
             "replaced by exact predicates with non-generic inputs excluded; Hopf's Umlaufsatz is an explicit hypothesis (monitored exactly).",
        ref="§7 C01"),
    "C05": dict(
        technique="Lean 4 proof (gauge invariance via closed-walk rotation, single-flip locality, global product) + translated kernel + correspondence",
        text="Kernel-checked theorems about the executable flux model for every loop-free lattice and every bond configuration: flux definition, "
             "±1, complex = real·i^n, fluxes_to_labels (definition regenerated from the source) maps +1→0/−1→1, gauge invariance of every "
             "plaquette flux, single-bond locality on edge-simple boundaries, product of all fluxes = (−1)^E when plaquettes cover all darts. "
             "Model run against fluxes_from_ujk (real/complex) on the zoo × exhaustive/random u; consequences re-checked on the implementation.",
        note="Trusted: Lean kernel/Mathlib/standard axioms; translator (Python int subset → Int.fdiv/fmod normal form); harness; numpy's exact ±1 products. "
             "'flipping one bond flips exactly the adjacent plaquettes' uses C02's adjacency table on the implementation side.",
        ref="§7 C05"),
    "C02": dict(
        technique="Lean 4 proof (table fill loops = unique traversing plaquette; cache state-machine invariant by induction) + exact correspondence",
        text="Kernel-checked theorems about the executable table model: the edge→plaquette cell of dart d holds the unique plaquette traversing d "
             "(uses C01's disjointness), INVALID iff none; vertex rows list exactly the containing plaquettes once, in order; plaquette neighbours "
             "are the plaquettes across its edges in edge order; one coordination number per vertex = row length; edge neighbours; adjacency "
             "symmetric/true at joined pairs; helper edge sets = table rows; and history independence of the lazily computed attributes for every "
             "sequence of accesses and pickle round trips, on one lattice and (interleaving_independent) for every interleaving over any number of lattice objects alive at once - what was computed for one is never observed on another. Every table and helper of koala is compared exactly with the model on the zoo; all 24 "
             "first-access orders × {fresh, unpickled, pickled midway} are executed on the implementation. vertex_row_fits: a vertex lies on at most as many plaquettes as it has incident edges, so the first-free-slot filling of the vertex rows never overflows.",
        note="Trusted: Lean kernel/Mathlib/standard axioms; harness; CPython pickle and cached_property semantics (modelled by the Cache state machine); "
             "the mirror-order relation between clockwise_about and the table is decided by correspondence, not proved; the 'row never overflows' bound "
             "is exercised by correspondence (degree 0..12), not yet proved.",
        ref="§7 C02"),
    "C04": dict(
        technique="Lean 4 proof (CNF semantics: models of the encoded formula = one-hot encodings of valid assignments; decode; bijection) + correspondence on the recorded CNF",
        text="Kernel-checked theorems about the executable encoders for every number of items, colours, conflict pairs and fixed colours: pysat's pairwise "
             "exactly-one semantics; a satisfying assignment is exactly 'one colour per item, conflicting items differ, fixed honoured'; argmax-decoding of any "
             "model is a valid assignment with colours in range (soundness); every valid assignment is the decoding of a model (completeness: unsolvable only "
             "if none exists); models and valid assignments are in bijection on the reserved variables (each assignment enumerated exactly once); the conflict "
             "list of edge_color is 'distinct edges sharing a vertex'; a dimer model selects exactly one incident edge per vertex; color_lattice's j-th helper "
             "edge gets colour j. The CNF koala hands to the solver is recorded and compared clause-for-clause with the encoder; all returned models are "
             "evaluated/decoded by the model; verdicts, counts and enumerations are judged against an independent exhaustive search.",
        note="Trusted: Lean kernel/Mathlib/standard axioms; the Glucose SAT solver for UNSAT verdicts and for enumerating all models (cross-checked by exhaustive "
             "backtracking up to a node budget, else by a second solver); pysat's CardEnc output is recorded rather than modelled; harness.",
        ref="§7 C04"),
    "C14": dict(
        technique="Lean 4 proof (Prim loop invariant for every candidate order; tree grown by leaf attachment; last-differing-bit argument for sector injectivity) + strict correspondence with recorded argsort",
        text="Kernel-checked theorems about the executable model of plaquette_spanning_tree / n_to_ujk_flipped for every plaquette system satisfying the "
             "C01/C02 table properties (proved for the model's plaquettes), every candidate order (both values of shortest_edges_only), every F and every base "
             "bond configuration: chosen edges and plaquettes form a tree grown from plaquette 0 (each edge two-sided, joins a new plaquette to an included one; "
             "edges and plaquettes pairwise different; all linked to plaquette 0); boundary array = edges with exactly one included side; on a connected plaquette "
             "graph no iteration fails, so F-1 edges and all F plaquettes; digits of n injective below 2^(F-1); bonds off the tree untouched; different n give "
             "different flux sectors; the image is precisely the parity class of the base configuration (sectors_parity, sectors_reach, enumeration_precisely: phi is produced by some n < 2^(F-1) iff prod phi = prod of base fluxes). Model run with the implementation's recorded argsort results must reproduce edges_in exactly; every flipped configuration and "
             "its fluxes are compared; the statement (incl. parity class coverage on closed lattices by counting) is evaluated on the implementation.",
        note="Trusted: Lean kernel/Mathlib/standard axioms; harness; numpy argsort/unique (recorded resp. modelled by an insertion sort). 'Image = parity class' is proved (enumeration_precisely) and also counted on the implementation "
             "(2^(F-1) distinct sectors, each with the parity of C05.global_product). 'Does not modify its input' is checked dynamically here and statically under C15.",
        ref="§7 C14"),
    "C06": dict(
        technique="Lean 4 proof (solver invariant flux·toFlip = target; two-ends law for chains; parity/residual contract; translated ansatz) + model replay with recorded paths",
        text="Kernel-checked theorems about the executable solver model, for every plaquette system with the C01/C02 table properties, every target, every guess "
             "and both flux conventions (single-bond locality proved for Π(−u·d) and for sign_real[n%4]·Π(u·d)): flipping a chain of plaquettes toggles exactly its "
             "two ends; the adjacent-pair pass and every path step keep flux(bonds)·to_flip = target; each step removes exactly two plaquettes from the to-do list; "
             "hence the result equals the target everywhere when the number of plaquettes to change is even and everywhere but exactly one when odd. "
             "ground_state_ansatz and sign_real are regenerated from the source: ansatz(n) = −sign_real[n%4] for all n≥3, and on a closed trivalent lattice (E=3F, "
             "global product law) the ansatz needs an even number of changes. The model is run with the implementation's own recorded paths as oracle, checks "
             "them to be chains and the pairing to be complete, and must reproduce the bonds bit for bit; the contract, int8/±1, no exception, untouched arguments, "
             "make_amorphous (seeded reproducibility, proper colouring, ansatz exact/up to one) and make_honeycomb are evaluated on the implementation.",
        note="Trusted: Lean kernel/Mathlib/standard axioms; translator; harness. The path finder is a parameter of the model (C11 decides it); 'never raises' is therefore "
             "partial: proved given paths that are chains, and exercised on every generated input (maxits = n_edges budget not proved). Euler's formula E=3F is a "
             "monitored hypothesis. Python set iteration order in the greedy pairing is not modelled (any complete pairing satisfies the theorem).",
        ref="§7 C06"),
    "C12": dict(
        technique="Lean 4 proof (translated cut mask; cumulative-sum renumbering = order-preserving bijection; trailing-edge loop = greatest sub-list without degree-one vertices; permutation bookkeeping; angular order is a strict weak order ⇒ re-sorting the surviving edges = thinning out the old cyclic order ⇒ untouched faces survive) + exact correspondence",
        text="Kernel-checked theorems: rotAt_thinned — the angular comparison of the model (quadrant + cross product, exact) is asymmetric and negatively transitive on non-zero vectors (angLt_asymm, angLt_negTrans), so the insertion sort of the surviving incident edges of a vertex equals the old sorted list with the deleted edges dropped (foldl_insertDesc_filter), for every vertex and every set of deleted edges; with face_survives this gives 'a plaquette none of whose edges was removed is a plaquette of the output' for the recomputed adjacency (edge labels kept); rotAt_thin / rotAt_cut: with the renumbering included — row e of the input arrays is row rank(e) of the masked arrays (filterIdx_getD), the kept indices renumber to 0,1,2,… (kept_map_rank) — the incident-edge row of the lattice returned by cut_boundaries (any edge deletion) is the old row with the deleted edges dropped and the survivors renamed to their new indices; face_in_thinned: tracing in the thinned, renumbered lattice from the renamed dart of a face none of whose edges is deleted returns that face, edge for edge under the new numbering and with the same directions (the step commutes with the renaming, the renaming is injective on kept edges, so the periods agree) — 'every plaquette of the input none of whose edges was removed is a plaquette of the output' for every deletion of edges, cut_boundaries included; face_in_removeVertices: the same for remove_vertices (hence remove_trailing_edges, which the model expresses as one removal of every vertex that dangles in some round) — the model's removeVertices is the thinned lattice with its vertices renumbered by newIndex, newIndex is the rank among kept vertices (newIndex_eq_rank), positions move with their vertices, and any injective renumbering of the vertices that carries the positions along leaves every incident-edge row, every tracer step and every face walk unchanged (renumber_rotAt, renumber_nextD, renumber_walkFrom). The boundary mask regenerated from the source is non-zero iff the edge crosses no selected boundary; masks keep row order and keep "
             "edges aligned with their crossings; vertices untouched by cutting; new_index[v] is the position of v among the kept vertices (order-preserving bijection "
             "onto 0..k-1, strictly monotone, positions follow), an edge survives iff both ends are kept and the reported set is its complement; the trailing-edge "
             "loop yields a sub-list without degree-one vertices that contains every such sub-list (multigraphs included) and is idempotent; for a permutation, "
             "ordering[inverse[a]] = a, new position i = old position ordering[i], edge order and every edge vector unchanged. Output lattices of all five operations "
             "are compared exactly with the model on the zoo (all four boundary selections, subsets of every size incl. none/all/isolating, permutations); plaquette "
             "survival with equal geometry, no new plaquettes after cut/trailing removal, idempotence and plaquette invariance under relabelling are evaluated on "
             "the implementation. face_survives: tracing from a dart of a face none of whose edges is removed returns the very same face in the thinned-out rotation system (cyclic successor survives filtering); permute_rotAt / permute_nextD / permute_allWalks: relabelling the vertices keeps every clockwise list and every face walk.",
        note="Trusted: Lean kernel/Mathlib/standard axioms; translator; harness. Known finding K1 (open): remove_trailing_edges creates a plaquette when a dangling tree sits "
             "inside a bounded face; any new plaquette that is not an input face with removed twice-used edges spliced out is still a VIOLATION. The Lean theorem "
             "'faces avoiding removed edges survive' (rotation lists only lose entries the face never steps to) is not yet proved; that clause rests on the "
             "implementation-side oracle together with C01's model.",
        ref="§7 C12"),
    "C09": dict(
        technique="Lean 4 proof (narrow/widen round trip for every width of the ladder read from the source; equality reflexive/symmetric/detecting) + exact state correspondence incl. IEEE float32 rounding",
        text="Kernel-checked theorems about the executable model of __getstate__/__setstate__/__eq__: the dtype ladder regenerated from the source picks, for every "
             "n_vertices < 2^64, a width that holds every index (thresholds 255/256, 65535/65536 as instances); narrowing indices below n_vertices and int8-fitting "
             "crossings is lossless, so the restored lattice has identical edges, crossings and vertex count and single-precision positions; getstate succeeds iff "
             "the crossings fit; pickling drops every cache slot (C02's state machine); equality is reflexive, symmetric, false on any changed edge list, crossing "
             "list or size and on any coordinate displaced beyond 1/(100·√n), true after a round trip whenever rounding stays within the tolerance (2^-24 < tolerance "
             "for n ≤ 70000 proved). The implementation's pickled state (dtype widths, narrowed arrays, float32 positions via the model's exact round-to-nearest-even) "
             "and == verdicts are compared with the model; every protocol 2..5 × pickling point × threshold size, a panel of 22 public operations on original vs "
             "restored, legacy dict states and files, an all-pairs equality panel incl. non-lattices and ±10% perturbations are evaluated on the implementation.",
        note="Trusted: Lean kernel/Mathlib/standard axioms; translator (literal tables); CPython pickle; harness. float32 rounding is modelled exactly for normal-range values "
             "(compared bit for bit) but its error bound is a hypothesis of latEq_roundtrip, not proved from the rounding model. Operations on 70000-vertex lattices are "
             "limited to the state-level checks (dense adjacency would need 4.9 GB). Fix D11 (edgeless lattices could not be pickled) is recorded in known_findings.json.",
        ref="§7 C09"),
    "C10": dict(
        technique="Lean 4 proof about kernels translated from the source (crossing/next-cell bookkeeping for every grid size) + exact index-level correspondence over the whole quantifier",
        text="Kernel-checked theorems about _next_cell_number, _crossing and the two nested next_direction functions as regenerated from example_graphs.py on every run: for all "
             "n_x,n_y ≥ 1, every cell and every shift in {-1,0,1}²: x+s = x'+n_x·c_x and y+s = y'+n_y·c_y (target column/row and crossing flag account exactly for the shift), "
             "the target cell is in range, translation by a fixed shift is a bijection of the cells (so each tiled cell receives each edge type exactly once), both nested "
             "next_direction's are the same kernel; tile_unit_cell has n_x·n_y·|E| edges, each of the stated shape and inside n_x·n_y·k vertices. Edges, crossings and colourings "
             "of honeycomb (n=2..16), hex-square-oct (2..8), tri-non (all (n_x,n_y) in 2..6 and scalar), square (2..8²), tile_unit_cell (regular and random Voronoi cells, "
             "all 1..4²), single_plaquette / wheel (3..40), ladder (3..30, both wobble settings) are compared exactly with the index-level model; closedness, polygon census, "
             "coordination, V−E+F=0, areas summing to 1, proper colourings, translated-copy property and make_honeycomb's flux sector are evaluated on the implementation. nc_perm: translation by a fixed shift permutes the cells; honeycomb_trivalent and hso_trivalent: every vertex of honeycomb_lattice / hex_square_oct_lattice has exactly three edge ends, for every size; tile_degree: every site of every copy made by tile_unit_cell keeps the coordination it has in the unit cell, for every unit cell and tiling; trinon_trivalent: tri_non_lattice is trivalent for every (n_x, n_y) with the tables read from the source on this run; honeycomb_colouring_proper: the supplied honeycomb colouring puts exactly one end of each colour at every vertex, for every size; square_tetravalent: every vertex of square_lattice(n_x, n_y) has four edge ends.",
        note="Trusted: Lean kernel/Mathlib/standard axioms; translator; harness. Positions (irrational scale factors) are not modelled; the polygon census and areas are decided on "
             "the implementation's plaquettes (C01 ties those to the model). honeycomb trivalence / colouring properness for *all* n is decided by correspondence for n ≤ 16 plus the "
             "bijection theorem, not yet by a closed Lean proof of the degree count. n_vertical = round(n/√3) is computed exactly in the model (integer inequality).",
        ref="§7 C10"),
    "C07": dict(
        technique="Lean 4 proof (Mathlib matrices: entry law, antisymmetry/Hermiticity, det symmetry, charpoly invariance under gauge conjugation and reindexing, explicit similarity H_f = S(2H)S⁻¹) + exact entrywise correspondence",
        text="Kernel-checked theorems about the executable integer model A (H = (i/4)·A), for every finite vertex type, edge list (parallel edges included) and weights: "
             "single-bond entries, additivity over the edge list, zero off the edge set, A[k,j] = −A[j,k]; H antisymmetric, purely imaginary and Hermitian; "
             "det(x−H) = (−1)^n det(−x−H) for all x (spectrum symmetric with multiplicities); a gauge move at a vertex conjugates A by a diagonal sign matrix (no self-loops) "
             "and every bijective relabelling reindexes it, so the characteristic polynomial is unchanged; the fermionic form satisfies H_f·S = S·(2H) with an explicit invertible S, "
             "hence charpoly(H_f) = charpoly(2H), and H_f is Hermitian (BdG blocks by definition). Every entry of majorana_hamiltonian (dyadic couplings, exact floats) is compared "
             "with the model, also after single-vertex gauge moves; the entry law, symmetries, spectra under all gauge moves / random permutations / bisection along each colour, "
             "bisection halves for perfect-matching colours, BdG structure and the doubled fermionic spectrum are evaluated on the implementation. bisect_halves: for every permutation argsort may return for the 0/1 sublattice labels, zero-labelled vertices land before one-labelled ones with the boundary at the number of zeros, so every dimer of the chosen colour joins the two halves.",
        note="Trusted: Lean kernel/Mathlib/standard axioms; harness; LAPACK eigvalsh for the numerical spectrum comparisons (1e-9). bisect_lattice's 'opposite halves' clause is "
             "decided on the implementation, not proved (numpy argsort of the labels is not modelled); the link between the abstract blocks F,D,M of the fermion theorem and "
             "majorana_to_fermion_ham's slicing is by the numerical check.",
        ref="§7 C07"),
    "C18": dict(
        technique="Lean 4 proof (Mathlib matrices: conjugate-transpose and trace identities, reindexing, diagonal conjugation) + exact rational correspondence",
        text="Kernel-checked theorems for every finite index type, every Hermitian P and real diagonal a, b, with markerMat = P·diag(a)·P·diag(b)·P and marker = c·Im diag(markerMat): "
             "exchanging a and b gives the Hermitian conjugate, so the marker changes sign under x↔y; for Hermitian idempotent P the markers sum to zero over all sites; the marker "
             "follows the sites under any relabelling; it is unchanged when P is conjugated by any diagonal ±1 matrix; the crosshair step function is strict (0 at equality). "
             "Projectors with Gaussian-rational entries of every rank 0..V (rational Gram–Schmidt) on dyadic positions are evaluated exactly (integer arithmetic) by the model for the "
             "Chern marker and for crosshairs inside, outside and exactly on vertex coordinates, and compared with koala to 1e-10; formula, realness, zero sum, x↔y antisymmetry, "
             "relabelling and gauge invariance are evaluated on the implementation for V up to 60 incl. spectral projectors of Majorana Hamiltonians.",
        note="Trusted: Lean kernel/Mathlib/standard axioms; harness; numpy complex matrix products (1e-10). The constant 4π is abstract in the theorems (it enters no symmetry). The "
             "list-based exact evaluator and the Mathlib definition are the same formula by inspection, not by a Lean lemma.",
        ref="§7 C18"),
    "C08": dict(
        technique="Lean 4 proof (plane-wave intertwining over any commutative ring and finite abelian group of cells; character orthogonality ⇒ charpoly(tiled) = ∏ over characters of charpoly(Bloch); Hermiticity; Complex.exp character laws) + exact Gaussian-integer correspondence",
        text="Kernel-checked theorems: for every commutative ring, every finite abelian group G of cells, every multiplicative φ and every list of bonds (parallel bonds add), "
             "the real-space matrix of the tiling maps the plane wave φ⊗v to φ⊗(Bloch(φ)·v), so every Bloch eigenvector lifts to an eigenvector of the tiled matrix with the same "
             "eigenvalue — this fixes the sign and direction of the crossing vector, the conjugate placement and the accumulation; at the trivial character the Bloch matrix is the "
             "real-space matrix of the cell; for unitary characters and conjugate weights it is Hermitian; koala's characters exp(i k·δ) are multiplicative, 2π-periodic in each "
             "component and equal to 1 on whole-system translations at the allowed momenta 2π(m_x/n_x, m_y/n_y). charpoly_tiled_eq_prod_bloch: for every finite abelian group G of cells and every list of complex bonds, the characteristic polynomial of the tiled matrix equals the product over all characters ψ of G of the characteristic polynomials of the Bloch matrices — the plane waves of all characters form an invertible matrix (character orthogonality, Mathlib's AddChar.sum_apply_eq_ite), the tiled matrix is conjugate to the block-diagonal matrix of Bloch matrices, and charpoly of a block-diagonal matrix is the product (charpoly_blockDiagonal): the union of the Bloch spectra IS the tiled spectrum, with multiplicities. charpoly_tiled_eq_prod_momenta specialises this to koala's cell group ℤ/n_x × ℤ/n_y with the product running over the n_x·n_y allowed momenta (orthogonality of the characters e^{2πi m g/N} of ℤ/N, sum_zmod), and momentumChar_eq_chi identifies these characters with koala's phases exp(i k·δ) at k = 2π(m_x/n_x, m_y/n_y). Entries of k_hamiltonian at momenta in (π/2)ℤ² are compared with the "
             "exact Gaussian-integer model; the union over allowed momenta of eigvalsh(H_k) is compared with the spectrum of koala's own n_x×n_y tiling (1×1..4×4, rectangular, "
             "multigraph cells, random u/J/colouring or None), Hermiticity, periodicity, k=0 and the three analysis helpers are evaluated on the implementation.",
        note="Trusted: Lean kernel/Mathlib/standard axioms; harness; LAPACK eigvalsh (1e-9); exp at multiples of π/2 to 1e-12. The numerical multiset equality is still evaluated on the implementation. The "
             "analysis helpers are decided on the implementation (cells with an odd number of sites are excluded: 'lower half' undefined).",
        ref="§7 C08"),
    "C15": dict(
        technique="Lean 4 proof (soundness of a flow-insensitive effect IR; history independence by induction over call sequences) + translator regenerating one kernel-checked obligation per koala function + fingerprint correspondence",
        text="Kernel-checked: if check(prog, pt, allowed) holds then along every finite sequence of atoms drawn from the program (every path through branches, loops, early returns, "
             "exceptions) every parameter region outside `allowed` keeps its version — nothing reachable from an argument is written; a program without global-RNG atoms leaves the "
             "global random state untouched; for any sequence of argument-preserving, argument-determined operations on shared objects every result equals the result on the initial "
             "arguments (cache part: C02). The effect program and points-to certificate of every function of koala (118 functions, ~5100 atoms) are regenerated from the working tree on "
             "every run and each obligation is re-checked by `decide +kernel` (public functions: allowed = 0; constructors may initialise self; private helpers may update exactly what "
             "their checked summary says). Random call sequences (length 1..30, 60 public calls of lattice, graph_utils, graph_color, flux_finder, pathfinding, hamiltonian, phase_space, "
             "chern_number, voronization, example_graphs, plotting) on shared lattices/arrays compare byte fingerprints of every argument before/after each call, run a second time with "
             "read-only arrays, and compare every prefix result with a fresh evaluation.",
        note="Trusted: Lean kernel/standard axioms; the translator's SSA construction, callee summaries and its numpy view/copy/mutator classification table (validated by the dynamic "
             "passes); harness. Positions shared by reference between derived lattices are allowed by the property and visible in the IR as aliases.",
        ref="§7 C15"),
    "C19": dict(
        technique="Lean 4 proof (loop invariant of the dart-throwing fold for every stream of draws; effect-IR obligations for RNG non-interference) + replay of recorded draws through the model",
        text="Kernel-checked: modelling bluenoise as a fold over the stream of random draws, for every stream, every k and every grid shape all samples lie in [0,nx]×[0,ny] (normalised: "
             "unit square) and are pairwise more than one grid spacing apart; samples are only appended; each iteration adds a sample or retires an active one; hyperuniform's crop "
             "returns a sub-list strictly inside the unit square. For bluenoise, hyperuniform and uniform the effect programs regenerated from the source contain no global-RNG atom "
             "(kernel-checked `noGlobalRng`, meaning by C15.noGlobalRng_sound) and write to no argument. The generator handed to bluenoise is wrapped by a recording proxy and the "
             "recorded draws are replayed through the exact model, which must return the same samples; unit square, spacing, exact counts, reproducibility under a differently seeded "
             "global state, untouched global state and a per-call time limit are evaluated on the implementation over k, (nx,ny) in 1..12², seeds.",
        note="Trusted: Lean kernel/standard axioms; translator; numpy Generator reproducibility; harness. Termination of the loop and 'reaches within two spacings of all four sides for "
             "k ≥ 20' are probabilistic and cannot be theorems over all streams; the latter is judged over 5 seeds. Known finding K2 (open): the reach clause fails for domains one grid "
             "spacing wide (≈45% of seeds at 12×1, k=20). cos/sin of the candidate generation are computed by numpy in the harness exactly as in the implementation (recorded, not modelled).",
        ref="§7 C19"),
    "C11": dict(
        technique="Lean 4 proof (A* loop invariant ⇒ parent table well-founded; backward pass valid + terminating; path_valid unconditional under cost laws; path_shortest: without early stopping the returned chain is no longer than any walk from start to goal ('settled or open' loop invariant of A* with re-opening); chains ⇒ two-ends flux law; exact metric theorems) + bit-exact A* correspondence with IEEE doubles",
        text="Kernel-checked: the forward pass (priority queue, relaxation, early stopping, budget) maintains the loop invariant FInv for every graph, heuristic obeying CostLaws (< a strict order, c < c + h(a,b)) and budget, so whenever it returns, path_valid: the search returns a valid chain and the backward pass never hits a missing key; in detail, for every parent table satisfying the forward pass's invariant (parents adjacent through the recorded edge, rank strictly decreasing towards the start, "
             "parents known) the backward pass terminates and returns nodes/edges with nodes[0]=goal, nodes[-1]=start, one edge per step, consecutive nodes joined by the listed edge "
             "(start=goal gives ([goal],[])); the driver's executable validity test is sound; a valid chain of the plaquette adjacency is a chain of plaquettes, hence flipping its "
             "(pairwise different) bonds multiplies the flux of q by −1 exactly at the two ends, for both flux conventions; on exact coordinates the minimum-image distance is "
             "symmetric, non-negative, zero iff the points coincide, never longer than the Euclidean one and equal per coordinate to the smallest of the three image differences. "
             "path_shortest / forward_optimal: for costs in any linearly ordered commutative monoid and any metric h with h ≥ 0, h(goal,goal) = 0 and the triangle inequality towards the goal (Heur), the loop without early stopping maintains: every node with a recorded cost is either open (a queue entry with priority ≤ cost + h(n,goal)) or settled (all its neighbours have cost ≤ cost + edge), every queue entry of the goal is ≥ the goal's recorded cost, child cost ≥ parent cost + edge; hence when the goal is popped its recorded cost is ≤ the length of every walk from the start (re-opening and stale queue entries included), the chain read off the parent table is no longer than that recorded cost, and so the returned path is a shortest one — for every graph and every budget. "
             "The executable A* model (priority queue with tuple order, early stopping, budget) runs on IEEE doubles with koala's own adjacency and distance values transported bit "
             "for bit and must return exactly koala's nodes and edges (plaquette and vertex paths, both metrics, early stopping on/off); success within maxits = n_edges, validity, "
             "optimality against an independent Dijkstra, the flux law and the metric axioms are evaluated on the implementation.",
        note="Trusted: Lean kernel/Mathlib/standard axioms; harness; equality of IEEE arithmetic between the compiled Lean driver and numpy. CostLaws for IEEE doubles is an assumption (positivity monitored on every lattice). "
             "Heur (metric axioms of the node-to-node distance) is an explicit hypothesis of path_shortest and is discharged in exact real arithmetic for both offered metrics: heur_euclid, heur_periodic (nodes in the unit cell) and heur_periodic_span (nodes anywhere, no two more than 3/2 apart in a coordinate - plaquette centres, which lie outside the unit square for plaquettes that straddle a wall; the hypothesis is monitored on every lattice); IEEE rounding of the sums is not modelled, so optimality is additionally compared on every query with an independent Dijkstra that measures lengths with the harness's own Euclidean / minimum-image length, never koala's. "
             "That a path is found within maxits = n_edges iterations is not proved (partial): decided on every generated query.",
        ref="§7 C11"),
    "C13": dict(
        technique="Lean 4 proof (exact rounding/mod arithmetic of the dual crossing; dual edge list from C02's table; truncation corner, wrap-compensation and count lemmas) + exact correspondence",
        text="Kernel-checked: np.round (half-to-even) returns k for every argument within less than one half of k; under the half-cell condition the stored dual edge vector "
             "(b mod 1) − (a mod 1) + round((a mod 1) − (b mod 1)) is exactly the true centre-to-centre displacement; dual vertices lie in [0,1); the dual edge list is exactly the "
             "two-sided rows of C02's edge table, in edge order, with two different plaquettes as ends; every truncation corner lies in [0,1) and corner + shift is the unwrapped "
             "point pos + vec/3; the stored vector of each polygon edge is the difference of the unwrapped corners and each original edge keeps two thirds (one third) of its vector "
             "per truncated end (wrap-compensation identities); the truncated lattice has d vertices per truncated vertex of degree d>2 and one per other vertex, one position per "
             "vertex, the E original edges first followed by d polygon edges per truncated vertex. Dual edges/crossings (exact rational centres, near-half and on-the-wall cases "
             "excluded by margin) and the entire truncated lattice (indices, crossings, exact thirds) are compared with the model; the statement is evaluated on the implementation "
             "with an independent unwrapping of plaquette centres (half-cell precondition, dual faces on closed lattices with crossing-free drawing, truncation incl. truncation of a "
             "truncation, corners across the cell wall).",
        note="Trusted: Lean kernel/Mathlib/standard axioms; harness. 'One dual face per original vertex' needs planarity of the straight-line dual (tested numerically as a "
             "precondition) and the plaquette censuses after truncation are decided on the implementation (C01 ties plaquettes to the model). Known finding K3 (open): truncating a "
             "vertex whose edges all leave within a half-plane gives a self-crossing drawing; fix D12 (nothing to replace raised ValueError) recorded in known_findings.json. "
             "make_dual's documented 'too small' exception is the precondition failing.",
        ref="§7 C13"),
    "C20": dict(
        technique="Lean 4 proof (exact simplex arithmetic for every number of samples; reassembly of a chunked map for every chunking and arrival order) + exact sampling correspondence",
        text="rot_about_isometry / swap_skew_isometry: the six triangulations of the symmetric scheme are the images of one skewed point set under rotations about a common centre and under the exchange of the two couplings, each of which keeps every distance — six congruent images. Kernel-checked: for every samples ≥ 2 every grid point of both schemes gives non-negative numerators summing to the denominator (a valid coupling triple), the plain "
             "scheme's filter removes nothing (exactly samples² points), the symmetric scheme keeps the points with x ≤ y ≤ z up to half a grid spacing, the appended centre is a valid "
             "triple; for every function, every cutting of the points into consecutive chunks and every permutation in which the workers' (chunk index, values) results arrive, sorting "
             "by chunk index and concatenating returns exactly map f points in order (hence any two schedules agree). The exact sampling model (integers over 2(samples−1)) is compared "
             "with both schemes for samples 2..40 (exact-tie filter decisions excluded by an exact test); simplex membership, one triangulation node per point (six congruent images), "
             "and compute_phase_diagram for n_jobs 1..16 with index-dependent sleeps, scalar/vector valued, with/without shared arguments, against the serial evaluation are "
             "evaluated on the implementation.",
        note="Trusted: Lean kernel/Mathlib/standard axioms; harness; mpire's pool, its chunking and result ordering, and the OS scheduler are sampled, not proved (the theorem is about "
             "the abstract reassembly); matplotlib Triangulation. Non-strict sum check: |x+y+z−1| ≤ 4e-16.",
        ref="§7 C20"),
    "C03": dict(
        technique="Lean 4 proof (periodic bookkeeping after qhull: floor/mod offsets, de-duplication key, one edge per key) + exact correspondence on the recorded qhull output + independent periodic Delaunay oracle",
        text="Kernel-checked theorems about the exact model of everything generate_lattice does after the Voronoi call: for a vertex base+offset with base strictly inside the cell, "
             "floor gives the offset and mod 1 gives the base, so the stored crossing of an edge is the cell offset between its ends and negates when they are swapped; the (0,1] test "
             "holds exactly for zero offset; the de-duplication key is the same for the two finds of one translation class of ridges (ends swapped, crossing negated), distinguishes ridges "
             "between the same two vertices that wind differently (parallel edges survive) and determines the unordered vertex pair; de-duplication keeps exactly one found edge per key; a "
             "trivalent torus tiling by N cells has 2N vertices and 3N edges. The Voronoi object koala uses is wrapped and its (shifted) vertices and ridges are handed exactly to the "
             "model, whose edge list, crossings and kept vertices must equal koala's; the statement is evaluated against an independent 7×7 periodic Delaunay reference under the "
             "statement's own density precondition, incl. the tiling consequences and Lloyd relaxation. nearest_spec / nearest_of_mem: the in-cell representative lookup (KDTree query modelled by an exact argmin) returns a valid index of a nearest vertex, and exactly the vertex looked up when it is present.",
        note="Partial by nature: qhull (scipy Voronoi/Delaunay) and the exactness of the 3×3 / 5×5 replication under the density bound are trusted (the bound is computed independently and "
             "failing point sets are precondition-excluded); KDTree queries are modelled by an exact argmin; the vertex shift is recorded and checked against the reference centroids, "
             "not modelled. Trusted: Lean kernel/Mathlib/standard axioms; harness.",
        ref="§7 C03"),
    "C16": dict(
        technique="Lean 4 proof (segment-intersection formula ⇔ common point over any ordered field; label broadcasting; colour alignment of the nine images; the nine clipped images of an edge add up to exactly the edge; the mask vis of plot_edges selects every image that meets the cell, so the drawn pieces add up to the whole edge; plot_plaquettes draws every needed copy of a polygon, none twice) + model/implementation correspondence of the visibility helpers and drawn copies + exact clipping oracle on the real matplotlib artists, itself compared with the model",
        text="Kernel-checked: for non-parallel segments over any linearly ordered field the helper's test 0 ≤ t1, t2 ≤ 1 holds iff the segments share a point (both directions, with the "
             "explicit parameters); the model's division-free test is 0 ≤ n/d ≤ 1; full-size labels and the same labels restricted to the subset broadcast to the same per-element "
             "values, a scalar is the constant array; np.tile(colors, 9) puts colour i on image j of edge i for every j < 9; fractions_sum_one: for an edge starting in the unit cell and spanning less than a cell per axis, the exact clip fractions (Liang–Barsky over Q) of its nine periodic images add up to 1. meets_visible: for every generic segment (no end-point coordinate on a wall line, not through a cell corner) that meets the open unit cell, the model of `_lines_cross_unit_cell | _line_fully_in_unit_cell` (Plot.visible, the code's t = (l-end)/(start-end) with its 0<t<=1, 0<other<=1 tests) is true; frac_pos_meets + drawn_fractions_sum_one: the pieces of the nine images that the mask actually selects, clipped to the cell, add up to exactly 1 - every part of the edge is shown, none twice. needed_copies_drawn / far_copies_not_needed / polyOffsets_nodup: for any closed polygon (convex or not) with a corner in [0,1)^2, every copy shifted by (ox,oy) whose extent meets the open cell is among the copies `plot_plaquettes` draws (cyclic intermediate-value argument on the code's per-side crossing test), copies further than one cell are never needed when the polygon stays within one cell of the unit cell, and no offset is drawn twice; covered_point_drawn: a point of the open unit cell that lies inside a copy of the polygon shifted by (ox,oy) in the sense of the even–odd rule (and not on its boundary) lies strictly inside that copy's bounding box (a closed polygon meets a horizontal line in an even number of sides: straddle_even; an odd number of crossings to the right forces one to the left), hence that copy is among the drawn ones. The visibility helpers are compared with Plot.visible on the nine images of every edge (18 000 per quick run), the offsets of the drawn polygon copies with Plot.polyOffsets on every plaquette. _broadcast_args itself is compared with the model on scalar / full / subset / wrong-size arguments x every subset form, the harness's clip fractions with the model's frac (4000 per run, exact). line_intersection is compared with the exact integer model "
             "on random rational segment pairs in general position. On the real LineCollection / PolyCollection / scatter artists: every drawn segment is an integer translate of a "
             "selected edge, none is drawn twice, the parts inside the unit cell of the drawn images of each edge cover it exactly once (exact Liang–Barsky clipping in rational "
             "arithmetic: fractions sum to 1), colours follow the labels; every sample point of the cell inside a selected plaquette is covered by exactly one drawn polygon of that "
             "plaquette's colour; vertices at their positions; labels scalar/full/subset and subsets as slice/mask/indices give identical artists; one arrow per drawn segment.",
        note="Partial: that two different copies of one plaquette never cover the same point (plaquettes of an embedded lattice do not overlap their own translates) and the colours of the polygons are not theorems; polygon coverage and colours are additionally decided per drawn "
             "artist by exact clipping (edges: fractions; plaquettes: every periodic image of positive clipped area must be drawn, once) and on a 17×17 generic sample grid; images with a compared quantity within 1e-9 of its threshold are excluded from the visibility tie (counted). Trusted: Lean kernel/Mathlib/standard axioms; matplotlib's rendering of the artists it is handed; harness. "
             "Parallel/colinear branches of line_intersection (tolerance based) are outside 'general position'.",
        ref="§7 C16"),
    "C17": dict(
        technique="Lean 4 proof (floor step across one grid line; index difference ±e_b ⇒ edge = ± star vector; rhombus at every grid vertex; unit edge length and rhombus angles for (cos a_b, sin a_b); only two rhombi for five bundles) + exact re-check in index space + output oracle",
        text="Kernel-checked: the pentagrid index (floor) is unchanged when no integer is crossed and rises by exactly one across exactly one grid line; for index vectors in ℤ^B and "
             "star vectors in any abelian group, faces whose indices differ by e_b are mapped to points differing by exactly star_b (−star_b for −e_b), so every edge is parallel to a "
             "star direction and all edges have one length; the four faces round a grid vertex map to a parallelogram with sides star_b1, star_b2 (a rhombus); index vectors equal "
             "modulo a relation among the star vectors map to the same point; the executable edge test is sound; for koala's star vectors (cos a_b, sin a_b), any angles (with or without disorder): every edge has squared length exactly 1 before the common rescaling (edge_length_one), the sides of the rhombus at a grid vertex of bundles b1, b2 enclose the angle a_b1 − a_b2 (rhombus_angle), and for five bundles at angles 2πb/5 the cosine of that angle is cos 72° or cos 144° — only the two Penrose rhombi (penrose_rhombi); penrose_position_injective / prime_position_injective: for five — and for any prime number of — bundles two index vectors are mapped to the same point only if they differ by a multiple of (1,1,1,1,1) (the fifth cyclotomic polynomial is the minimal polynomial of ζ₅ over ℚ, so 1, ζ, ζ², ζ³ are linearly independent: star5_relations), which turns the model's exact re-check 'index vectors pairwise different modulo the relations' into 'vertex positions pairwise different' (exactly, before float rounding). Index vectors are reconstructed from koala's output along a spanning "
             "tree and the model re-checks exactly that every edge's index difference is ±e_b and that all index vectors are distinct modulo the cyclotomic relations; the statement "
             "(unit square, connected, equal lengths, rhombi, star directions/Penrose angles, no crossings, no coincident vertices, no dangling edges, V−E+F=1) is evaluated on the "
             "output for B∈{3,5,7,9}, default/scalar/random/generic offsets, angle disorder and penrose_tiling seeds.",
        note="Partial: de Bruijn's theorem (planarity and injectivity of the dual of a generic multigrid), connectivity and Euler's formula are not proved; they are decided on the "
             "output with tolerance-guarded float predicates. Linear independence of roots of unity modulo cyclotomic relations is proved for every number of bundles the property quantifies over: prime_position_injective (3, 5, 7), nine_position_injective (9: three relations e_k + e_{k+3} + e_{k+6} = 0) — exactly the relation generators the harness hands to the model's distinctness re-check. Non-generic offsets (three lines through a "
             "point; always for random_offsets(3)) are detected independently and excluded. Trusted: Lean kernel/Mathlib/standard axioms; harness.",
        ref="§7 C17"),
}

PENDING_REASON = "check not built yet in this revision (work in progress; see DESIGN.md §7 for the planned Lean model and tie)"


def main():
    props = [json.loads(l) for l in (VERIF / "properties.jsonl").read_text().splitlines() if l.strip()]
    checks, na = [], []
    for p in props:
        pid = p["id"]
        c = CLAIMS.get(pid)
        if not c:
            na.append(dict(property_id=pid, reason=PENDING_REASON))
            continue
        checks.append(dict(
            property_id=pid,
            quick_cmd=f"{PY} harness/check.py {pid} --tier quick",
            thorough_cmd=f"{PY} harness/check.py {pid} --tier thorough",
            evidence_file=f"evidence/{pid}.json",
            replay_cmd_template=f"{PY} harness/check.py {pid} --replay {{path}}",
            engine="lean4-koalaverif",
            level_claimed=dict(category="proof", text=c["text"], design_ref=c["ref"]),
            level_note=c["note"],
            technique=c["technique"],
        ))
    m = dict(
        version=1,
        setup_cmd=f"{PY} harness/setup.py",
        hooks=dict(guard="KOALA_VERIF", enable="no source hooks: the harness wraps third-party objects in its own process; KOALA_VERIF=1 is set by harness/check.py and read by nothing in /repo",
                   baseline_off_cmd="cd /repo && /venv/bin/python -m pytest -ra -q -p no:cacheprovider --timeout=900 --continue-on-collection-errors",
                   source_commits=[], add_only=True),
        engines=[dict(name="lean4-koalaverif", path="lean/", serves_properties=sorted(CLAIMS),
                      kind_free_text="Lean 4.33 + Mathlib library KoalaVerif (Model/ executable, Lemmas/, Props/ theorems), compiled JSON-lines model "
                                     "driver koala_driver, Python correspondence harness harness/check.py")],
        checks=checks,
        notes="All checks: python harness/check.py <id> --tier quick|thorough; they rebuild Lean targets incrementally, re-run the translators "
              "against /repo's working tree, run koala from /repo/src in-process and write evidence/<id>.json. Fix commits in /repo are listed "
              "in known_findings.json.",
        not_applicable=na,
    )
    (VERIF / "MANIFEST.json").write_text(json.dumps(m, indent=1) + "\n")
    print(f"claimed {len(checks)}, not_applicable {len(na)}")


if __name__ == "__main__":
    main()
