#!/bin/bash
# usage: try_round.sh <dir with m1,m2,... each holding patch.diff + demo.py> <property id> [tier]
# for every candidate: confirm it (scratch worktree: suite passes, demo 1/0), then run the check against it.  One summary line each.
d=$(readlink -f "$1"); id=$2; tier=${3:-quick}
for m in "$d"/m*; do
  [ -f "$m/patch.diff" ] || continue
  v=$(/verif/harness/verify_seed.sh "$m" 2>&1 | tr '\n' ' ')
  t=$(/verif/harness/try_seed.sh "$m" $id $tier 2>&1 | grep -E "VIOLATION|^\[$id\]|repo dirty|does not apply" | cut -c1-260 | tr '\n' ' ')
  echo "== $(basename $m) | $v"
  echo "   -> $t"
done
