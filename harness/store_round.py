#!/usr/bin/env python3
"""ROUND=<n> store_round.py <property id> <round dir> <m1 outcome> <m2 outcome> <m3 outcome>
copies each confirmed candidate of a seeding round to seeded/<id>-r2-m<k>/ with a meta.json; outcome = 'detected' or 'missed:<how the check was strengthened>'"""
import json, os, shutil, sys
ROUND = int(os.environ.get("ROUND", "2"))
pid, d = sys.argv[1], sys.argv[2]
for k, outcome in enumerate(sys.argv[3:], start=1):
    src = f"{d}/m{k}"
    if not os.path.exists(f"{src}/patch.diff"):
        continue
    dst = f"/verif/seeded/{pid}-r{ROUND}-m{k}"
    os.makedirs(dst, exist_ok=True)
    for f in ("patch.diff", "demo.py", "notes.md"):
        if os.path.exists(f"{src}/{f}"):
            shutil.copy(f"{src}/{f}", dst)
    notes = open(f"{src}/notes.md").read() if os.path.exists(f"{src}/notes.md") else ""
    missed = outcome.startswith("missed")
    meta = dict(property=pid, round=ROUND, source="independent sub-agent given only the property text and a scratch worktree (three alternatives per property)",
                needs_to_manifest=notes.strip().split("\n\n")[0][:900],
                confirmed=dict(tests="harness/verify_seed.sh: unedited suite passes with the patch in a scratch worktree (only the known-flaky test_penrose_tiling varies)",
                               demo="demo.py exits 1 with the patch, 0 on the clean tree"),
                ran=f"harness/try_seed.sh seeded/{pid}-r{ROUND}-m{k} {pid}",
                outcome=("first run: MISSED (exit 0). Strengthened: " + outcome.split(":", 1)[1] + "; now VIOLATION with failing input") if missed else "VIOLATION with failing input (quick tier)",
                detected=True, detected_by=f"{pid} quick", check_was="missed, then strengthened" if missed else "detected")
    json.dump(meta, open(f"{dst}/meta.json", "w"), indent=1)
    print("stored", dst)
