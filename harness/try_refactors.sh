#!/bin/bash
# usage: try_refactors.sh <dir with h1,h2,... each holding patch.diff> <property ids to run ...>
# for every behaviour-preserving refactor: confirm the suite passes in a scratch worktree, apply it to /repo, run the listed quick checks, revert.
# Any VIOLATION here is a false alarm (or shows the refactor is not behaviour preserving after all).
d=$(readlink -f "$1"); shift; ids="$@"
for h in "$d"/h*; do
  [ -f "$h/patch.diff" ] || continue
  wt=/tmp/koala-verif-rfcheck-$$
  git -C /repo worktree add -q $wt HEAD || exit 2
  t=$(cd $wt && git apply "$h/patch.diff" 2>&1 && MPLBACKEND=Agg PYTHONPATH=$wt/src timeout 1500 /venv/bin/python -m pytest -q -p no:cacheprovider --timeout=900 2>&1 | grep -E "^FAILED|passed|failed" | tr '\n' ' ')
  git -C /repo worktree remove --force $wt
  echo "== $(basename $h) | tests: $t | files: $(grep '^+++ ' $h/patch.diff | sed 's/+++ b\///' | tr '\n' ' ')"
  (
    exec 9>/tmp/koala-repo.lock; flock 9
    cd /repo; [ -n "$(git status --porcelain)" ] && { echo "repo dirty"; exit 2; }
    git apply "$h/patch.diff" || { echo "   patch does not apply"; exit 0; }
    trap 'git -C /repo checkout -- .' EXIT
    cd /verif
    for id in $ids; do
      ev=/verif/evidence/$id.json; [ -f $ev ] && cp $ev /tmp/evidence_keep_$id.json
      out=$(timeout 3000 /venv/bin/python harness/check.py $id --tier quick 2>&1); r=$?
      [ -f /tmp/evidence_keep_$id.json ] && mv /tmp/evidence_keep_$id.json $ev
      echo "   $id exit=$r $(echo "$out" | grep -E "^\[$id\]" | cut -c1-150)"
      [ $r -ne 0 ] && echo "$out" | grep -E "VIOLATION" | cut -c1-250 | head -3
    done
  )
done
