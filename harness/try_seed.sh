#!/bin/bash
# usage: try_seed.sh <dir with patch.diff + demo.py> <property id> [tier]
# applies the patch to /repo, runs the demo and the check, reverts.  Never leaves /repo dirty.
d=$1; id=$2; tier=${3:-quick}
cd /repo || exit 2
if [ -n "$(git status --porcelain)" ]; then echo "repo dirty, abort"; exit 2; fi
git apply "$d/patch.diff" || { echo "patch does not apply"; exit 2; }
echo "--- demo with patch:"; (cd /tmp && PYTHONPATH=/repo/src timeout 600 /venv/bin/python "$d/demo.py" >/tmp/demo_out.txt 2>&1; echo "exit=$?"; tail -3 /tmp/demo_out.txt)
echo "--- check $id ($tier) with patch:"; (cd /verif && timeout 3000 /venv/bin/python harness/check.py $id --tier $tier 2>&1 | grep -v conda | tail -3)
git -C /repo checkout -- . 
echo "--- demo clean:"; (cd /tmp && PYTHONPATH=/repo/src timeout 600 /venv/bin/python "$d/demo.py" >/tmp/demo_out.txt 2>&1; echo "exit=$?")
git -C /repo status --porcelain
