#!/bin/bash
# usage: try_seed.sh <dir with patch.diff + demo.py> <property id> [tier]
# applies the patch to /repo, runs the demo and the check, reverts.  Never leaves /repo dirty; the evidence file of the
# property (which must describe the unchanged tree) is put back afterwards.  Serialised with run_all.sh by a file lock.
d=$(readlink -f "$1"); id=$2; tier=${3:-quick}
exec 9>/tmp/koala-repo.lock; flock 9
cd /repo || exit 2
if [ -n "$(git status --porcelain)" ]; then echo "repo dirty, abort"; exit 2; fi
git apply "$d/patch.diff" || { echo "patch does not apply"; exit 2; }
trap 'git -C /repo checkout -- .' EXIT
ev=/verif/evidence/$id.json; [ -f $ev ] && cp $ev /tmp/evidence_keep_$id.json
out=/tmp/demo_out_$$.txt
echo "--- demo with patch:"; (cd /tmp && MPLBACKEND=Agg PYTHONPATH=/repo/src timeout 600 /venv/bin/python "$d/demo.py" >$out 2>&1; echo "exit=$?"; tail -3 $out)
echo "--- check $id ($tier) with patch:"; (cd /verif && timeout 3000 /venv/bin/python harness/check.py $id --tier $tier 2>&1 | grep -v conda | tail -3)
git -C /repo checkout -- .
[ -f /tmp/evidence_keep_$id.json ] && mv /tmp/evidence_keep_$id.json $ev
echo "--- demo clean:"; (cd /tmp && MPLBACKEND=Agg PYTHONPATH=/repo/src timeout 600 /venv/bin/python "$d/demo.py" >$out 2>&1; echo "exit=$?"); rm -f $out
git -C /repo status --porcelain
