#!/venv/bin/python
"""MANIFEST.setup_cmd: build the whole framework offline from files on disk.

1. regenerate the translated Lean definitions from /repo's working tree (harness/translate)
2. `lake build` the library (all Props) and the compiled model driver
"""
import os
import subprocess
import sys
import time
from pathlib import Path

HERE = Path(__file__).resolve().parent
sys.path.insert(0, str(HERE))
sys.path.insert(0, str(Path(os.environ.get("KOALA_REPO", "/repo")) / "src"))
import core


def main():
    t0 = time.time()
    try:
        import translate
        translate.regenerate_all()
        translate.regenerate_effects()
    except ImportError:
        pass
    ok, out, s = core.lake_build(["KoalaVerif", "KoalaVerif.Generated.Effects", "koala_driver"], timeout=3400)
    print(out[-3000:])
    print(f"setup: lake build {'ok' if ok else 'FAILED'} in {s:.0f}s (total {time.time()-t0:.0f}s)")
    sys.exit(0 if ok else 1)


if __name__ == "__main__":
    main()
