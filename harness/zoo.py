"""The lattice zoo: structured, mostly-valid inputs built from koala's own generators plus surgery.

Every random choice comes from the numpy Generator handed in, so a case replays from (seed, index).
A case is (name, family, Lattice).  Lattices are *raw triples* as far as possible (rebuilt through the
constructor) so that a broken generator cannot hide a broken lattice class and vice versa.
"""
from __future__ import annotations

import itertools
import warnings

import numpy as np

warnings.simplefilter("ignore")

from koala import example_graphs as eg
from koala import graph_utils as gu
from koala import voronization as vz
from koala.lattice import Lattice, cut_boundaries


def rebuild(l):
    return Lattice(np.array(l.vertices.positions, dtype=float), np.array(l.edges.indices, dtype=int),
                   np.array(l.edges.crossing, dtype=int))


def raw(l):
    return (np.array(l.vertices.positions, dtype=float), np.array(l.edges.indices, dtype=int),
            np.array(l.edges.crossing, dtype=int))


def fixed_examples():
    out = [
        ("two_triangles", eg.two_triangles()), ("tri_square_pent", eg.tri_square_pent()),
        ("tutte", eg.tutte_graph()), ("ladder6w", eg.n_ladder(6, True)), ("ladder5", eg.n_ladder(5, False)),
        ("bridge", eg.bridge_graph()), ("wheel12", eg.higher_coordination_number_example(12)),
        ("wheel5", eg.higher_coordination_number_example(5)),
        ("concave", eg.concave_plaquette()), ("multi_graph", eg.multi_graph()),
        ("single7", eg.single_plaquette(7)), ("star", eg.star_lattice_sheared()[0]),
    ]
    out += [("pinched_open", pinched_open()), ("two_site_torus", two_site_torus()), ("brick_wall42", brick_wall(4, 2)), ("brick_wall44", brick_wall(4, 4))]
    out += [("spike_first", spike_first()), ("spike_first_torus", spike_first(torus=True))]
    r0 = np.random.default_rng(20260929)
    out += [("star_ring", star_ring(r0)), ("comb_ring", comb_ring(r0)), ("big_ring", big_ring(r0)),
            ("two_triangles@wall", translate(eg.two_triangles(), (0.62, 0.71))), ("tri_square_pent@corner", translate(eg.tri_square_pent(), (0.55, 0.6))),
            ("square33-patch@wall", translate(cut_boundaries(eg.square_lattice(3, 3)), (0.5, 0.0))),
            ("honey3-island", island(eg.honeycomb_lattice(3), 4)), ("sliver_wheel", sliver_wheel(r0, 2e-7, False)), ("sliver_wheel-swapped", sliver_wheel(r0, 2e-7, True)),
            ("sliver_wheel-1e-8", sliver_wheel(r0, 1e-8, True)), ("sliver_wheel-5e-11", sliver_wheel(r0, 5e-11, True)), ("sliver_wheel-2e-11", sliver_wheel(r0, 2e-11, False))]
    for n in (3, 5):
        a, b = mirror_rows(n)
        out += [(f"row{n}-top", a), (f"row{n}-bottom", b)]
    for n in (1, 2, 3):
        out.append((f"honey{n}", eg.honeycomb_lattice(n)))
    for n in (1, 2):
        out.append((f"hso{n}", eg.hex_square_oct_lattice(n)))
    for n in (1, 2, (2, 3)):
        out.append((f"trinon{n}", eg.tri_non_lattice(n)))
    for n in ((1, 1), (2, 2), (2, 3), (1, 3)):
        out.append((f"square{n}", eg.square_lattice(*n)))
    return [(n, "example", l) for n, l in out]


def pinched_open():
    """a square with a triangle hanging inside it from corner 0: the region between them is a plaquette whose boundary passes vertex 0 twice (7 sides, 6 corners)"""
    v = np.array([[0.1, 0.1], [0.9, 0.1], [0.9, 0.9], [0.1, 0.9], [0.5, 0.3], [0.3, 0.5]])
    e = np.array([[0, 1], [1, 2], [2, 3], [3, 0], [0, 4], [4, 5], [5, 0]])
    return Lattice(v, e, np.zeros_like(e))


def two_site_torus():
    """two vertices, four bonds on the torus: both plaquettes are 4-gons visiting the vertices 0,1,0,1"""
    v = np.array([[0.25, 0.3], [0.75, 0.8]])
    e = np.array([[0, 1], [0, 1], [0, 1], [0, 1]])
    c = np.array([[0, 0], [-1, 0], [0, -1], [-1, -1]])
    return Lattice(v, e, c)


def spike_first(torus=False):
    """a dangling edge inside a face, listed as edge 0 (every other edge of that face has a higher index): a walk started on it must come back along it"""
    if not torus:
        v = np.array([[0.5, 0.55], [0.2, 0.2], [0.8, 0.2], [0.8, 0.8], [0.2, 0.8], [0.5, 0.2]])
        e = np.array([[1, 0], [1, 5], [5, 2], [2, 3], [3, 4], [4, 1], [5, 3]])          # spike 1-0 first; two faces share the chord 5-3
        return Lattice(v, e, np.zeros_like(e))
    l = eg.square_lattice(3, 3)
    pos = np.concatenate([l.vertices.positions, [l.vertices.positions[0] + np.array([0.12, 0.15])]])
    n = l.n_vertices
    e = np.concatenate([[[0, n]], l.edges.indices])
    c = np.concatenate([[[0, 0]], l.edges.crossing])
    return Lattice(pos % 1, e, c)


def mirror_rows(n):
    """one row of n vertices on the torus, neighbours joined by a horizontal edge and by a diagonal leaving through the top (first lattice) or the bottom
    (second lattice): identical positions and edge indices, different crossings, each a proper embedding with n parallelogram faces.  Built one after the
    other they expose state keyed on positions/indices only."""
    pos = np.array([[(i + 0.5) / n, 0.5] for i in range(n)])
    e = np.array([[i, (i + 1) % n] for i in range(n)] * 2)
    wrap = np.array([1 if i == n - 1 else 0 for i in range(n)] * 2)
    out = []
    for sgn in (1, -1):
        c = np.stack([wrap, np.array([0] * n + [sgn] * n)], axis=1)
        out.append(Lattice(pos.copy(), e.copy(), c))
    return out


def voronoi_antidiag(rng, N=None):
    """a Voronoi lattice that contains an edge through a cell corner with crossing (+1,-1) or (-1,+1) (the two components cancel): about one lattice in five"""
    for _ in range(200):
        l = voronoi(rng, int(rng.integers(6, 30)) if N is None else N)
        c = l.edges.crossing
        if np.any(c[:, 0] * c[:, 1] == -1):
            return l
    return l


def cluster_voronoi(rng, spread=None):
    """Voronoi lattice of a background point set plus a tight cluster: plaquettes with areas down to 1e-10"""
    spread = 10.0 ** rng.uniform(-5.5, -3.5) if spread is None else spread
    pts = np.concatenate([rng.uniform(size=(int(rng.integers(10, 18)), 2)), rng.uniform(0.3, 0.7, size=2) + spread * rng.uniform(-1, 1, size=(int(rng.integers(4, 8)), 2))])
    return vz.generate_lattice(pts, shift_vertices=bool(rng.integers(2)))


def pinch(rng, l):
    """hang a small triangle inside a plaquette from one of its corners: that plaquette then passes the corner twice without using an edge twice"""
    p = l.plaquettes[int(rng.integers(l.n_plaquettes))]
    k = int(rng.integers(len(p.vertices)))
    v = int(p.vertices[k])
    pos = l.vertices.positions
    # unwrapped polygon of the plaquette, starting at its first vertex
    vec = l.edges.vectors[p.edges] * p.directions[:, None]
    poly = pos[p.vertices[0]] + np.concatenate([[np.zeros(2)], np.cumsum(vec, 0)[:-1]])
    c = poly.mean(axis=0)
    d = c - poly[k]
    r = 0.35
    rot = lambda a: np.array([[np.cos(a), -np.sin(a)], [np.sin(a), np.cos(a)]])
    a, b = poly[k] + r * rot(0.25) @ d, poly[k] + r * rot(-0.25) @ d
    from matplotlib.path import Path as MPath
    if not (MPath(poly).contains_point(a) and MPath(poly).contains_point(b)):
        raise ValueError("corner too sharp")
    ca, cb = np.floor(a).astype(int), np.floor(b).astype(int)
    off_v = np.round(poly[k] - pos[v]).astype(int)          # cell in which the unwrapped corner lies
    n = l.n_vertices
    newpos = np.concatenate([pos, [a % 1, b % 1]])
    newe = np.concatenate([l.edges.indices, [[v, n], [n, n + 1], [n + 1, v]]])
    newc = np.concatenate([l.edges.crossing, [ca - off_v, cb - ca, off_v - cb]])
    return Lattice(newpos, newe, newc)


def ring_from_polygon(pts):
    """an open lattice that is one closed ring through the given (unwrapped) points: vertices at pts mod 1, crossings = difference of the cells"""
    pts = np.asarray(pts, dtype=float)
    n = len(pts)
    cell = np.floor(pts).astype(int)
    e = np.array([[i, (i + 1) % n] for i in range(n)])
    c = np.array([cell[(i + 1) % n] - cell[i] for i in range(n)])
    return Lattice(pts - cell, e, c)


def big_ring(rng):
    """a large simple polygon (star-shaped, radii 0.3 .. 0.49, 9 .. 16 corners): corners lie more than half a cell from the centroid, so nothing that
    assumes 'a plaquette is small compared with the cell' (nearest-image unwrapping about the centre) holds for it"""
    n = int(rng.integers(9, 17))
    ang = np.sort(rng.uniform(0, 2 * np.pi, size=n))
    while np.max(np.diff(np.concatenate([ang, [ang[0] + 2 * np.pi]]))) > 1.2:
        ang = np.sort(rng.uniform(0, 2 * np.pi, size=n))
    r = rng.uniform(0.3, 0.49, size=n)
    c = rng.uniform(0, 1, size=2)
    return ring_from_polygon(c + np.stack([r * np.cos(ang), r * np.sin(ang)], axis=1))


def sheared(l, k=2):
    """the same lattice in the sheared cell x -> x + k*y (an equally good fundamental domain of the same torus): positions mod 1, crossings recomputed"""
    P, E, C = raw(l)
    Q = np.stack([P[:, 0] + k * P[:, 1], P[:, 1]], axis=1)
    cell = np.floor(Q).astype(int)
    # edge vector in the new coordinates: (vx + k*vy, vy); crossing = vector - (end - start) in wrapped positions
    v = l.edges.vectors
    nv = np.stack([v[:, 0] + k * v[:, 1], v[:, 1]], axis=1)
    W = Q - cell
    nc = np.round(nv - (W[E[:, 1]] - W[E[:, 0]])).astype(int)
    return Lattice(W, E, nc)


def star_ring(rng, n=None, centre=None):
    """a random *non-convex* simple polygon (star-shaped about its centre, radii varying by a factor of up to eight) placed across the cell walls: a wall that
    misses the centre meets its boundary four, six, ... times - the only plaquettes for which 'crosses a wall' and 'crosses it exactly twice' differ.
    Returned anticlockwise, so the ring is its single plaquette."""
    n = int(rng.integers(7, 15)) if n is None else n
    ang = np.sort(rng.uniform(0, 2 * np.pi, size=n))
    while np.max(np.diff(np.concatenate([ang, [ang[0] + 2 * np.pi]]))) > 2.5:         # no gap of more than ~143 degrees: the centre stays inside
        ang = np.sort(rng.uniform(0, 2 * np.pi, size=n))
    r = np.where(rng.random(n) < 0.5, rng.uniform(0.04, 0.09, size=n), rng.uniform(0.2, 0.32, size=n))
    c = rng.uniform(0, 1, size=2) if centre is None else np.asarray(centre, dtype=float)
    pts = c + np.stack([r * np.cos(ang), r * np.sin(ang)], axis=1)
    return ring_from_polygon(pts)


def comb_ring(rng, teeth=None, vertical=None):
    """a comb: `teeth` rectangular teeth joined by a back, the teeth reaching through a cell wall (x = 1 or y = 1), jittered to be generic"""
    teeth = int(rng.integers(2, 5)) if teeth is None else teeth
    vertical = bool(rng.integers(2)) if vertical is None else vertical
    w = 0.8 / (2 * teeth - 1)
    pts = [(0.7, 0.1), ]
    for t in range(teeth):
        y0 = 0.1 + 2 * t * w
        pts += [(1.25, y0), (1.25, y0 + w)]
        if t < teeth - 1:
            pts += [(0.85, y0 + w), (0.85, y0 + 2 * w)]
    pts += [(0.7, 0.1 + (2 * teeth - 1) * w)]
    pts = np.array(pts) + rng.uniform(-0.01, 0.01, size=(len(pts), 2)) + np.array([rng.uniform(-0.04, 0.04), rng.uniform(-0.04, 0.04)])
    if vertical:
        pts = pts[:, ::-1][::-1]                                                      # mirror in the diagonal, reversed to stay anticlockwise
    return ring_from_polygon(pts)


def translate(l, t):
    """the same drawing moved by t on the torus: positions mod 1, crossings corrected by the cells the end points moved into.  A finite patch moved across a
    cell wall has crossing edges although nothing wraps round the torus: its outer face is a contractible clockwise walk."""
    P, E, C = raw(l)
    Q = P + np.asarray(t, dtype=float)
    s_ = np.floor(Q).astype(int)
    return Lattice(Q - s_, E, C + s_[E[:, 1]] - s_[E[:, 0]])


def sliver_wheel(rng, delta=None, swap=None):
    """a wheel whose hub has two spokes leaving in almost - not exactly - the same direction (2e-11 .. 1e-6 rad apart; all edges are long, so the genericity margin for them is 3e-12 rad, see props/c01.min_gap),
    numbered either way round: a legitimate embedding in which one triangle of the fan is a thin sliver"""
    delta = 10.0 ** rng.uniform(-10.8, -6) if delta is None else delta
    swap = bool(rng.integers(2)) if swap is None else swap
    k = int(rng.integers(5, 8))
    gaps = rng.uniform(0.6, 1.2, size=k); gaps *= (2 * np.pi - 0.9) / gaps.sum()
    ang = rng.uniform(0, 2 * np.pi) + np.concatenate([[0.0], np.cumsum(gaps)[:-1]])
    j = int(rng.integers(1, k - 1))
    ang = np.insert(ang, j + 1, ang[j] + delta)                      # spokes j and j+1 are delta apart
    r = rng.uniform(0.28, 0.42, size=len(ang))
    hub = np.array([0.5, 0.5])
    rim = hub + r[:, None] * np.stack([np.cos(ang), np.sin(ang)], 1)
    n = len(ang)
    spokes = [[0, i + 1] for i in range(n)]
    if swap:
        spokes[j], spokes[j + 1] = spokes[j + 1], spokes[j]
    rims = [[i + 1, (i + 1) % n + 1] for i in range(n)]
    e = np.array(spokes + rims)
    return Lattice(np.concatenate([hub[None], rim]), e, np.zeros_like(e))


def island(l, i=0):
    """cut plaquette i loose from the rest of a closed lattice (drop every edge that touches it without belonging to it): the island's outer boundary is a
    contractible clockwise walk inside a big face of the remainder"""
    p = l.plaquettes[i]
    vs = set(int(v) for v in p.vertices); es = set(int(e) for e in p.edges)
    keep = np.array([(k in es) or not (int(a) in vs or int(b) in vs) for k, (a, b) in enumerate(l.edges.indices)])
    return Lattice(l.vertices.positions, l.edges.indices[keep], l.edges.crossing[keep])


def brick_wall(nx, ny):
    """the honeycomb lattice drawn as a brick wall on the torus (nx, ny even): every edge exactly horizontal or exactly vertical, vertex 0 has edges along +x, -x
    (through the wall) and +y - the angular conventions at exactly axis-parallel directions"""
    assert nx % 2 == 0 and ny % 2 == 0
    idx = lambda i, j: (j % ny) * nx + (i % nx)
    pos = np.array([[(i + 0.5) / nx, (j + 0.5) / ny] for j in range(ny) for i in range(nx)])
    e, c = [], []
    for j in range(ny):
        for i in range(nx):
            e.append([idx(i, j), idx(i + 1, j)]); c.append([1 if i == nx - 1 else 0, 0])
            if (i + j) % 2 == 0:
                e.append([idx(i, j), idx(i, j + 1)]); c.append([0, 1 if j == ny - 1 else 0])
    return Lattice(pos, np.array(e), np.array(c))


def voronoi(rng, N, shift=None):
    pts = rng.uniform(size=(N, 2))
    shift = bool(rng.integers(2)) if shift is None else shift
    return vz.generate_lattice(pts, shift_vertices=shift)


def churn(rng, n, lo=3, hi=16):
    """lattices built, handed out once and dropped, so that object addresses are re-used: state that survives a lattice (a cache keyed on id(lattice), a
    module-level memo) shows up on these and nowhere else, because every other stream keeps its lattices alive.  Callers must not keep a reference."""
    import gc
    for t in range(n):
        l = voronoi(rng, int(rng.integers(lo, hi)))
        if t % 3 == 2:
            l = cut_boundaries(l)
        yield f"churn#{t}", l
        del l
        gc.collect()


def edge_subgraph(rng, l, p=None):
    p = rng.uniform(0.4, 0.95) if p is None else p
    keep = rng.random(l.n_edges) < p
    if not keep.any():
        keep[rng.integers(l.n_edges)] = True
    return Lattice(l.vertices.positions, l.edges.indices[keep], l.edges.crossing[keep])


def with_isolated(rng, l, k=1):
    """append k isolated vertices (the highest indices) - exercises bincount/minlength style bugs"""
    pos = np.concatenate([l.vertices.positions, rng.uniform(0.05, 0.95, size=(k, 2))])
    return Lattice(pos, l.edges.indices, l.edges.crossing)


def snap_dyadic(l, bits=16):
    q = np.round(l.vertices.positions * 2**bits) / 2**bits
    return Lattice(q % 1, l.edges.indices, l.edges.crossing)


def random_cases(rng, n, max_seeds=40, families=None):
    """n random zoo lattices (name, family, lattice)"""
    out = []
    fams = families or ["vor", "vor-x", "vor-y", "vor-xy", "vor-sub", "vor-vdel", "vor-dual", "vor-trunc",
                        "vor-iso", "vor-tile", "dyadic", "cut-sub", "trail", "vor-pinch", "vor-cluster", "vor-antidiag", "patch-moved", "sliver", "island"]
    t = 0
    while len(out) < n:
        fam = fams[t % len(fams)]
        t += 1
        N = int(rng.integers(2, max_seeds + 1))
        try:
            l = voronoi(rng, N)
            if fam == "vor":
                c = l
            elif fam == "vor-x":
                c = cut_boundaries(l, [True, False])
            elif fam == "vor-y":
                c = cut_boundaries(l, [False, True])
            elif fam == "vor-xy":
                c = cut_boundaries(l)
            elif fam == "vor-sub":
                c = edge_subgraph(rng, l)
            elif fam == "vor-vdel":
                k = int(rng.integers(1, max(2, l.n_vertices // 2)))
                c = gu.remove_vertices(l, rng.choice(l.n_vertices, k, replace=False))
                if c.n_edges == 0:
                    continue
            elif fam == "vor-dual":
                if N < 14:
                    l = voronoi(rng, int(rng.integers(14, max_seeds + 14)))
                c = gu.make_dual(l)
            elif fam == "vor-trunc":
                k = int(rng.integers(1, min(6, l.n_vertices)))
                c = gu.vertices_to_polygon(l, rng.choice(l.n_vertices, k, replace=False))
            elif fam == "vor-iso":
                c = with_isolated(rng, edge_subgraph(rng, l, 0.8), int(rng.integers(1, 3)))
            elif fam == "vor-tile":
                small = voronoi(rng, int(rng.integers(2, 7)))
                nx, ny = int(rng.integers(1, 4)), int(rng.integers(1, 4))
                c = eg.tile_unit_cell(small.vertices.positions, small.edges.indices, small.edges.crossing, [nx, ny])
            elif fam == "vor-pinch":
                c = pinch(rng, l if rng.integers(2) else cut_boundaries(l))
            elif fam == "vor-cluster":
                c = cluster_voronoi(rng)
            elif fam == "vor-antidiag":
                c = voronoi_antidiag(rng, max(N, 6))
            elif fam == "patch-moved":
                c = translate(cut_boundaries(l) if rng.integers(2) else star_ring(rng), rng.uniform(0, 1, size=2))
            elif fam == "sliver":
                c = sliver_wheel(rng)
            elif fam == "island":
                if l.n_plaquettes < 6:
                    continue
                c = island(l, int(rng.integers(l.n_plaquettes)))
            elif fam == "dyadic":
                c = snap_dyadic(l)
            elif fam == "cut-sub":
                c = edge_subgraph(rng, cut_boundaries(l, [bool(rng.integers(2)), True]))
            elif fam == "trail":
                c = gu.remove_trailing_edges(edge_subgraph(rng, cut_boundaries(l)))
                if c.n_edges == 0:
                    continue
            else:
                continue
        except Exception:
            continue
        out.append((f"{fam}{N}#{t}", fam, rebuild(c)))
    return out


def base_embeddings():
    """small embeddings (E <= 14) whose every edge subset is enumerated in the thorough tier"""
    rng = np.random.default_rng(12345)
    out = [("honey1", eg.honeycomb_lattice(1)), ("square22", eg.square_lattice(2, 2)),
           ("trinon1", eg.tri_non_lattice(1)), ("two_triangles", eg.two_triangles()),
           ("hso1", eg.hex_square_oct_lattice(1)), ("tri_square_pent", eg.tri_square_pent())]
    while len(out) < 8:
        l = voronoi(rng, int(rng.integers(2, 5)), shift=False)
        if l.n_edges <= 12:
            out.append((f"vor{l.n_edges}", l))
    return [(n, l) for n, l in out if l.n_edges <= 14]


def edge_subsets(rng, n, exhaustive=False):
    """edge subsets of the base embeddings: all of them (thorough) or n random ones"""
    bases = base_embeddings()
    if exhaustive:
        for name, l in bases:
            E = l.n_edges
            for mask in range(1, 2**E):
                keep = np.array([(mask >> i) & 1 for i in range(E)], dtype=bool)
                yield (f"{name}/{mask}", "subset", Lattice(l.vertices.positions, l.edges.indices[keep], l.edges.crossing[keep]))
    else:
        for i in range(n):
            name, l = bases[i % len(bases)]
            E = l.n_edges
            mask = int(rng.integers(1, 2**E))
            keep = np.array([(mask >> i) & 1 for i in range(E)], dtype=bool)
            yield (f"{name}/{mask}", "subset", Lattice(l.vertices.positions, l.edges.indices[keep], l.edges.crossing[keep]))


def has_self_loop(l):
    return bool(np.any(l.edges.indices[:, 0] == l.edges.indices[:, 1])) if l.n_edges else False


def lat_to_json(l, with_pos=True):
    """exact transport: every float as an integer over a common power-of-two scale"""
    from core import dyadic_scale, to_scaled
    d = {"nV": int(l.n_vertices), "edges": np.asarray(l.edges.indices, dtype=int).tolist(),
         "cross": np.asarray(l.edges.crossing, dtype=int).tolist()}
    if with_pos:
        pos = np.asarray(l.vertices.positions, dtype=float)
        S = dyadic_scale(pos.flatten())
        d["pos"] = [[to_scaled(x, S), to_scaled(y, S)] for x, y in pos]
        d["scale"] = S
    return d
