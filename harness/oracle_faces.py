"""L3 oracle for C01 (and reused by C02/C03/C10/C12/C13): an independent exact face tracer.

Nothing here shares code with the Lean model or with koala: darts are (edge, dir), the rotation at a
vertex is computed with an exact integer comparator on the outgoing edge vectors, faces are the
orbits of the face permutation, legitimacy = no edge twice, net crossing zero, positive exact area.
"""
from __future__ import annotations

from fractions import Fraction
from functools import cmp_to_key

import numpy as np


def exact_positions(l):
    pos = np.asarray(l.vertices.positions, dtype=float)
    return [(Fraction(float(x)), Fraction(float(y))) for x, y in pos]


def _half(v):
    # clockwise from 12 o'clock: angle key; 0 for directions in the right half-plane incl. +y, 1 for left incl. -y
    x, y = v
    if x > 0 or (x == 0 and y > 0):
        return 0
    return 1


def _cw_cmp(a, b):
    """a before b when going clockwise starting from 12 o'clock (exclusive of nothing: 12 o'clock itself first)"""
    ha, hb = _half(a), _half(b)
    if ha != hb:
        return -1 if ha < hb else 1
    cr = a[0] * b[1] - a[1] * b[0]      # cross(a,b) < 0  <=>  b is clockwise of a
    if cr < 0:
        return -1
    if cr > 0:
        return 1
    return 0


def face_structure(l):
    """returns dict(faces=[list of (e, dir)], vec=exact edge vectors, degenerate=bool)"""
    P = exact_positions(l)
    E = np.asarray(l.edges.indices, dtype=int)
    C = np.asarray(l.edges.crossing, dtype=int)
    nE = len(E)
    vec = [(P[b][0] - P[a][0] + int(c[0]), P[b][1] - P[a][1] + int(c[1])) for (a, b), c in zip(E, C)]
    out = {v: [] for v in range(len(P))}
    for e, (a, b) in enumerate(E):
        out[int(a)].append(((e, 1), vec[e]))
        out[int(b)].append(((e, -1), (-vec[e][0], -vec[e][1])))
    nxt = {}
    degenerate = False
    for v, lst in out.items():
        lst.sort(key=cmp_to_key(lambda p, q: _cw_cmp(p[1], q[1])))
        for i in range(len(lst)):
            if len(lst) > 1 and _cw_cmp(lst[i][1], lst[(i + 1) % len(lst)][1]) == 0:
                degenerate = True
        # arriving at v along dart d=(e,s) (whose reverse (e,-s) leaves v): continue with the dart that
        # follows (e,-s) clockwise
        k = len(lst)
        for i, (d, _) in enumerate(lst):
            arriving = (d[0], -d[1])
            nxt[arriving] = lst[(i + 1) % k][0]
    faces, seen = [], set()
    for e in range(nE):
        for s in (1, -1):
            if (e, s) in seen:
                continue
            f, d = [], (e, s)
            while d not in seen:
                seen.add(d)
                f.append(d)
                d = nxt[d]
            faces.append(f)
    return dict(faces=faces, vec=vec, degenerate=degenerate, P=P, E=E, C=C)


def face_geometry(fs, f):
    """exact (area, centroid, net crossing, repeated-edge flag) of a face walk"""
    P, E, C, vec = fs["P"], fs["E"], fs["C"], fs["vec"]
    e0, s0 = f[0]
    start = int(E[e0][0] if s0 == 1 else E[e0][1])
    x, y = P[start]
    pts = []
    net = [0, 0]
    for e, s in f:
        x += s * vec[e][0]
        y += s * vec[e][1]
        pts.append((x, y))
        net[0] += s * int(C[e][0])
        net[1] += s * int(C[e][1])
    n = len(pts)
    a2 = sum(pts[i][0] * pts[(i + 1) % n][1] - pts[(i + 1) % n][0] * pts[i][1] for i in range(n))
    cx = cy = None
    if a2 != 0:
        cx = sum((pts[i][0] + pts[(i + 1) % n][0]) * (pts[i][0] * pts[(i + 1) % n][1] - pts[(i + 1) % n][0] * pts[i][1]) for i in range(n)) / (3 * a2)
        cy = sum((pts[i][1] + pts[(i + 1) % n][1]) * (pts[i][0] * pts[(i + 1) % n][1] - pts[(i + 1) % n][0] * pts[i][1]) for i in range(n)) / (3 * a2)
    edges = [e for e, _ in f]
    return dict(area2=a2, centroid=(cx, cy), net=tuple(net), repeated=len(set(edges)) != len(edges))


def canon(darts):
    f = [tuple(int(x) for x in d) for d in darts]
    i = f.index(min(f))
    return tuple(f[i:] + f[:i])


def legit_faces(l):
    fs = face_structure(l)
    out = {}
    for f in fs["faces"]:
        g = face_geometry(fs, f)
        if (not g["repeated"]) and g["net"] == (0, 0) and g["area2"] > 0:
            out[canon(f)] = g
    return fs, out


def check_plaquettes(l, tol=1e-9):
    """The statement of C01 evaluated on the implementation's output.  Returns a list of failure strings."""
    fails = []
    fs, legit = legit_faces(l)
    if fs["degenerate"]:
        return None          # non-generic input: outside the property's input space
    E = np.asarray(l.edges.indices, dtype=int)
    seen_darts = {}
    got = []
    for n, p in enumerate(l.plaquettes):
        es = [int(e) for e in p.edges]; ds = [int(d) for d in p.directions]; vs = [int(v) for v in p.vertices]
        k = len(es)
        if not (k == len(ds) == len(vs) == int(p.n_sides)):
            fails.append(f"plaquette {n}: n_sides/lengths inconsistent"); continue
        for i in range(k):
            a, b = (E[es[i]] if ds[i] == 1 else E[es[i]][::-1])
            if int(a) != vs[i] or int(b) != vs[(i + 1) % k]:
                fails.append(f"plaquette {n}: step {i} does not lead from vertex {vs[i]} to {vs[(i + 1) % k]}")
                break
        for d in zip(es, ds):
            if d in seen_darts:
                fails.append(f"directed edge {d} belongs to plaquettes {seen_darts[d]} and {n}")
            seen_darts[d] = n
        c = canon(list(zip(es, ds)))
        got.append(c)
        g = legit.get(c)
        if g is None:
            fails.append(f"plaquette {n} {c[:4]}... is not a legitimate face of the embedding")
            continue
        vsum = np.sum(l.edges.vectors[es] * np.array(ds)[:, None], axis=0)
        if np.max(np.abs(vsum)) > 1e-9:
            fails.append(f"plaquette {n}: directed edge vectors sum to {vsum}")
        cx, cy = g["centroid"]
        # the shoelace formula in doubles on coordinates of size 1: every cross term carries an absolute rounding error of about 1e-16 whatever the size of
        # the polygon, so the centroid of a polygon of area A is accurate to about k * 1e-18 / A in practice (measured: at most 0.3 * 1e-17 k / A over 2500 clustered plaquettes; the bound used is 4e-17 k / A); a centre further off than that is not the area centroid
        ctol = max(tol, 4e-17 * k / (float(g["area2"]) / 2))
        if abs(float(cx) - p.center[0]) > ctol or abs(float(cy) - p.center[1]) > ctol:
            fails.append(f"plaquette {n}: center {p.center} is not the area centroid ({float(cx)}, {float(cy)}) of its polygon (area {float(g['area2']) / 2:.3e}, tolerance {ctol:.1e})")
    if len(set(got)) != len(got):
        fails.append("a plaquette is reported twice")
    missing = set(legit) - set(got)
    if missing:
        fails.append(f"{len(missing)} legitimate face(s) not reported, e.g. {sorted(missing)[0][:4]}")
    return fails
