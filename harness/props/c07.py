"""C07 - the Majorana Hamiltonian is the sum of bond terms and transforms covariantly.

L1: Props/C07.lean (entrywise law, additivity over parallel edges, antisymmetric / purely imaginary / Hermitian, det(x-H) = (-1)^n det(-x-H),
    gauge move = conjugation by a diagonal sign matrix => same characteristic polynomial, relabelling => same characteristic polynomial,
    fermionic form = S(2H)S^-1 with explicit S => spectrum exactly doubled, fermionic form Hermitian).
L2: every entry of `majorana_hamiltonian` (couplings drawn from dyadic rationals, so all float arithmetic is exact) is compared with the
    executable integer model, also after every single-vertex gauge move.
L3: the statement on the implementation: independent accumulation, symmetry checks, spectra under gauge moves / permutations / bisection,
    bisection halves, BdG block structure and doubled spectrum of the fermionic form.
"""
from __future__ import annotations

import json

import numpy as np

import core
import zoo
import koala.graph_color as gc
from koala import example_graphs as eg
from koala import hamiltonian as ham
from koala.lattice import Lattice, cut_boundaries, permute_vertices

SJ = 64      # couplings are multiples of 1/64


def lattices(ctx, rng):
    quick = ctx.tier == "quick"
    out = [("honey1", eg.honeycomb_lattice(1)), ("honey2", eg.honeycomb_lattice(2)), ("honey3", eg.honeycomb_lattice(3)),
           ("hso1", eg.hex_square_oct_lattice(1)), ("trinon1", eg.tri_non_lattice(1)), ("trinon2", eg.tri_non_lattice(2)),
           ("square22", eg.square_lattice(2, 2)), ("square23", eg.square_lattice(2, 3)), ("tutte", eg.tutte_graph()),
           ("two_triangles", eg.two_triangles()), ("star", eg.star_lattice_sheared()[0]), ("ladder5", eg.n_ladder(5)),
           ("wheel6", eg.higher_coordination_number_example(6)), ("bridge", eg.bridge_graph()),
           # three and four parallel bonds between the same two sites, all stored in the same orientation
           ("two_site_torus", zoo.two_site_torus()), ("multi_graph", eg.multi_graph()), ("brick_wall42", zoo.brick_wall(4, 2)),
           ("triple_bond", Lattice(np.array([[0.3, 0.4], [0.7, 0.6]]), np.array([[0, 1], [0, 1], [0, 1]]), np.array([[0, 0], [-1, 0], [0, -1]]))),
           # multi-bond lattices with more than 64 (thorough: more than 256) sites (strips one or two cells wide: neighbours joined directly and round the torus)
           ("square2x40", eg.square_lattice(2, 40)), ("honeystrip1x20", eg.tile_unit_cell(*zoo.raw(eg.honeycomb_lattice(1)), [1, 20]))] + \
          ([] if quick else [("square70x2", eg.square_lattice(70, 2)), ("square2x150", eg.square_lattice(2, 150))])
    for N in ([2, 2, 3, 4, 6, 10, 16] if quick else [2, 2, 2, 3, 3, 4, 5, 6, 8, 10, 16, 25, 40]):
        l = zoo.voronoi(rng, N)
        out.append((f"vor{N}", l))
        out.append((f"vor{N}-open", cut_boundaries(l)))
    out = [(n, zoo.rebuild(l)) for n, l in out if not zoo.has_self_loop(l) and l.n_edges > 0]
    return out


def colouring_for(rng, l):
    try:
        return gc.color_lattice(l), True
    except Exception:
        return rng.integers(0, 3, size=l.n_edges).astype(np.int8), False


def spectrum(H):
    return np.linalg.eigvalsh(H)


def run(ctx):
    ctx.rule = ("one evaluation = one (lattice, u, J, colouring-or-None) Hamiltonian compared exactly with the model and judged, or one gauge move / "
                "permutation / bisection / fermionic transform of it; non-trivial = lattice with >= 3 edges and u with both signs; "
                "distinct by (lattice, u, J, colouring, transformation)")
    ctx.run_audit()
    rng = np.random.default_rng(ctx.seed)
    quick = ctx.tier == "quick"
    reqs, meta = [], []
    for name, l in lattices(ctx, rng):
        n, E = l.n_vertices, l.n_edges
        idx = l.edges.indices
        col, proper = colouring_for(rng, l)
        ctx.count("lattices")
        if "lat_fp_prev" in dir() and lat_fp_prev is not None and core.lattice_fingerprint(lat_fp_prev[1], with_plaquettes=False) != lat_fp_prev[0]:
            ctx.impl_violation(f"{lat_fp_prev[2]}: a Hamiltonian / bisection call modified the lattice it was given", dict(case=lat_fp_prev[2], lattice=zoo.lat_to_json(lat_fp_prev[1])))
        lat_fp_prev = (core.lattice_fingerprint(l, with_plaquettes=False), l, name)
        if len({(min(a, b), max(a, b)) for a, b in idx.tolist()}) < E:
            ctx.count("lattices_with_parallel_edges")
        # couplings of unusual magnitude / nearly equal couplings (exact dyadic numbers): the entry law only, judged against the independent accumulation
        if col is not None:
            for Jx in (np.array([1.0, 2.0, 3.0]) * 2.0 ** -30, np.array([1.0, 1.0 + 2.0 ** -18, 1.0 - 2.0 ** -18]), np.array([2.0 ** 20, 2.0 ** 20 + 1, 2.0 ** 20 - 2]),
                       np.array([1.0, 1.0, 1.0 + 2.0 ** -40])):
                ux = (1 - 2 * rng.integers(0, 2, size=E)).astype(np.int8)
                try:
                    Hx = ham.majorana_hamiltonian(l, col, ux, Jx)
                    wantx = np.zeros((n, n), dtype=complex)
                    for (a, b), jj, uu in zip(idx, Jx[col], ux):
                        wantx[b, a] += 0.5j * jj * uu
                        wantx[a, b] -= 0.5j * jj * uu
                    if not np.array_equal(Hx, wantx):
                        ctx.impl_violation(f"{name}: with couplings J = {Jx.tolist()} H is not the sum over edges of +(i/2) J[colour] u at [k,j] and its negative at [j,k] (max deviation "
                                           f"{np.abs(Hx - wantx).max():.3e})", dict(case=name, lattice=zoo.lat_to_json(l), u=ux.tolist(), J=Jx.tolist(), coloring=[int(x) for x in col]))
                        break
                except Exception as ex:
                    ctx.impl_violation(f"{name}: majorana_hamiltonian raised {type(ex).__name__}: {ex} for J = {Jx.tolist()}", dict(case=name, lattice=zoo.lat_to_json(l), J=Jx.tolist())); break
                ctx.case((name, "J-magnitude", str(Jx.tolist())), nontrivial=True)
        for trial in range(2 if quick else 5):
            u = (1 - 2 * rng.integers(0, 2, size=E)).astype(np.int8)
            J = rng.integers(1, 4 * SJ, size=3) / SJ
            for c in (col, None):
                tag = f"{name}#{trial}{'c' if c is not None else 'n'}"
                rep = lambda what, **kw: ctx.impl_violation(f"{tag}: {what}", dict(case=tag, lattice=zoo.lat_to_json(l), u=u.tolist(), J=J.tolist(),
                                                                                   coloring=None if c is None else [int(x) for x in c], **kw))
                try:
                    H = ham.majorana_hamiltonian(l, c, u, J)
                except Exception as ex:
                    rep(f"majorana_hamiltonian raised {type(ex).__name__}: {ex}"); continue
                Js = J[c] if c is not None else np.full(E, J[0])
                # ---- the statement, independently
                want = np.zeros((n, n), dtype=complex)
                for (a, b), jj, uu in zip(idx, Js, u):
                    want[b, a] += 0.5j * jj * uu
                    want[a, b] -= 0.5j * jj * uu
                if H.shape != (n, n) or not np.array_equal(H, want):
                    rep("H is not the sum over edges of +(i/2)J u at [k,j] and its negative at [j,k]"); continue
                if not (np.array_equal(H, H.conj().T) and np.all(H.real == 0) and np.array_equal(H.T, -H)):
                    rep("H is not Hermitian / purely imaginary / antisymmetric"); continue
                if trial == 0:
                    # one value, many representations (dtype, layout, writability) of the bond / colouring / coupling arguments
                    import variants
                    for argname, base_arg in (("ujk", u), ("coloring", c), ("J", J)):
                        if base_arg is None:
                            continue
                        for lab, av in variants.of_array(base_arg, floats=(argname != "coloring")):
                            keep = np.array(av).copy()
                            args = dict(ujk=u, coloring=c, J=J); args[argname] = av
                            try:
                                Hv = ham.majorana_hamiltonian(l, args["coloring"], args["ujk"], args["J"])
                            except Exception as ex:
                                rep(f"majorana_hamiltonian raises {type(ex).__name__}: {ex} when {argname} is passed as {lab}", representation=lab); break
                            if not np.array_equal(Hv, H):
                                rep(f"majorana_hamiltonian changes when the same {argname} is passed as {lab}", representation=lab); break
                            if not variants.untouched(lab, keep, av):
                                rep(f"majorana_hamiltonian modified its {argname} argument ({lab})", representation=lab); break
                ev = spectrum(H)
                scale = max(1.0, np.abs(ev).max())
                if not np.allclose(ev, -ev[::-1], atol=1e-9 * scale, rtol=0):
                    rep("spectrum is not symmetric about zero"); continue
                ctx.case((tag,), nontrivial=E >= 3 and len(set(u.tolist())) == 2, sample=dict(case=tag, n=n, E=E, J=J.tolist()))
                # ---- gauge moves at every vertex
                vs = list(range(n)) if n <= 30 else [int(x) for x in rng.choice(n, 20, replace=False)]
                gauged = []
                for v in vs:
                    g = u.copy(); g[np.any(idx == v, axis=1)] *= -1
                    Hg = ham.majorana_hamiltonian(l, c, g, J)
                    gauged.append(Hg)
                    if not np.allclose(spectrum(Hg), ev, atol=1e-9 * scale, rtol=0):
                        rep(f"spectrum changes under the gauge move at vertex {v}", vertex=v); break
                    ctx.case((tag, "gauge", v), nontrivial=E >= 3)
                # ---- vertex permutations
                for t in range(3):
                    o = rng.permutation(n)
                    if t == 2:                                   # the ordering in the narrowest integer dtype that holds it (uint8 up to 256 vertices, ...)
                        o = o.astype(np.uint8 if n <= 256 else np.uint16 if n <= 65536 else np.int64)
                    pl = permute_vertices(l, o)
                    Hp = ham.majorana_hamiltonian(pl, c, u, J)
                    inv = np.argsort(o)
                    if not np.array_equal(Hp[np.ix_(inv, inv)], H) or not np.allclose(spectrum(Hp), ev, atol=1e-9 * scale, rtol=0):
                        rep("relabelling the vertices changes the Hamiltonian by more than the relabelling", ordering=o.tolist()); break
                    ctx.case((tag, "perm", t), nontrivial=True)
                # ---- bisection along each colour, fermionic form
                if c is not None:
                    for along in range(3):
                        bl = ham.bisect_lattice(l, c, along)
                        if not (np.array_equal(bl.edges.crossing, l.edges.crossing) and bl.n_edges == E
                                and np.array_equal(np.sort(bl.vertices.positions, axis=0), np.sort(l.vertices.positions, axis=0))):
                            rep(f"bisect_lattice(along={along}) does not keep the edge order / crossings / vertex set"); break
                        Hb = ham.majorana_hamiltonian(bl, c, u, J)
                        if not np.allclose(spectrum(Hb), ev, atol=1e-9 * scale, rtol=0):
                            rep(f"spectrum changes under bisection along colour {along}"); break
                        cls = idx[c == along]
                        perfect = len(cls) * 2 == n and len(set(cls.flatten().tolist())) == n
                        if perfect:
                            be = bl.edges.indices[c == along]
                            if not np.all((be[:, 0] < n // 2) != (be[:, 1] < n // 2)):
                                rep(f"bisection along the perfect-matching colour {along} leaves a dimer inside one half"); break
                            ctx.count("bisections_along_perfect_matching")
                        # the same lattice object bisected with the colours renamed: what was found for another colouring must not be re-used
                        c2 = ((np.asarray(c) + 1) % 3).astype(np.asarray(c).dtype)
                        cls2 = idx[c2 == along]
                        if len(cls2) * 2 == n and len(set(cls2.flatten().tolist())) == n:
                            be2 = ham.bisect_lattice(l, c2, along).edges.indices[c2 == along]
                            if not np.all((be2[:, 0] < n // 2) != (be2[:, 1] < n // 2)):
                                rep(f"bisecting the same lattice again with the colours renamed leaves a dimer of colour {along} inside one half", second_coloring=c2.tolist()); break
                        if n % 2 == 0:
                            Hb_keep = Hb.copy()
                            Hf = ham.majorana_to_fermion_ham(Hb)
                            if not np.array_equal(Hb, Hb_keep) or not np.array_equal(ham.majorana_to_fermion_ham(Hb), Hf):
                                rep("majorana_to_fermion_ham modified the Majorana matrix it was given (or a second conversion of the same matrix differs)"); break
                            s = n // 2
                            h, d = Hf[:s, :s], Hf[:s, s:]
                            ok = (np.allclose(Hf, Hf.conj().T, atol=1e-12 * scale, rtol=0) and np.allclose(Hf[s:, :s], d.conj().T, atol=1e-12 * scale, rtol=0)
                                  and np.allclose(Hf[s:, s:], -h.T, atol=1e-12 * scale, rtol=0))
                            if not ok:
                                rep("fermionic form is not Hermitian with BdG block structure"); break
                            if not np.allclose(np.linalg.eigvalsh(Hf), 2 * ev, atol=1e-8 * scale, rtol=0):
                                rep("fermionic spectrum is not twice the Majorana spectrum"); break
                            ctx.case((tag, "fermion", along), nontrivial=True)
                # ---- model request: w = 2 J u in units of 1/SJ
                w = [int(round(2 * jj * SJ)) * int(uu) for jj, uu in zip(Js, u)]
                reqs.append(dict(op="majorana", nV=n, edges=idx.tolist(), w=w, gauge_at=vs[:6]))
                meta.append((tag, l, H, gauged[:6]))
    # ---- churn: fresh lattices that are dropped after use (re-used object addresses): entry law and Bloch-free statement only
    for name, l in zoo.churn(rng, 40 if quick else 300):
        n, E, idx = l.n_vertices, l.n_edges, l.edges.indices
        u = (1 - 2 * rng.integers(0, 2, size=E)).astype(np.int8)
        J = rng.integers(1, 4 * SJ, size=3) / SJ
        try:
            H = ham.majorana_hamiltonian(l, None, u, J)
        except Exception as ex:
            ctx.impl_violation(f"{name}: majorana_hamiltonian raised {type(ex).__name__}: {ex} on a freshly built lattice", dict(case=name, lattice=zoo.lat_to_json(l), u=u.tolist(), J=J.tolist())); continue
        want = np.zeros((n, n), dtype=complex)
        for (a, b), uu in zip(idx, u):
            want[b, a] += 0.5j * J[0] * uu
            want[a, b] -= 0.5j * J[0] * uu
        if H.shape != (n, n) or not np.array_equal(H, want):
            ctx.impl_violation(f"{name}: on a freshly built lattice H is not the sum over edges of +(i/2)J u at [k,j] and its negative at [j,k]",
                               dict(case=name, lattice=zoo.lat_to_json(l), u=u.tolist(), J=J.tolist()))
        ctx.case((name, n, E), nontrivial=True)
        ctx.count("churn_lattices")
    # ---- bisection on large lattices (more than 1000 vertices; no spectra): the halves must separate every dimer of a perfect-matching colour class,
    #      the edge order, crossings and vertex set must be kept, and the new vertex i must be the old vertex order[i] of a permutation
    from koala import voronization as vz
    from koala.graph_color import color_lattice
    big = [("honey24", *eg.honeycomb_lattice(24, return_coloring=True))]
    lv = vz.generate_lattice(rng.uniform(size=(520 if quick else 900, 2)))
    big.append((f"vor{lv.n_vertices // 2}", lv, color_lattice(lv)))
    for name, l, c in big:
        n, idx = l.n_vertices, l.edges.indices
        for along in range(3):
            tag = f"{name}:bisect-large:{along}"
            rep = lambda what, **kw: ctx.impl_violation(f"{tag}: {what}", dict(case=tag, generator=name, along=along, **kw))
            try:
                bl = ham.bisect_lattice(l, c, along)
            except Exception as ex:
                rep(f"bisect_lattice raised {type(ex).__name__}: {ex}"); continue
            if not (np.array_equal(bl.edges.crossing, l.edges.crossing) and bl.n_edges == l.n_edges
                    and np.array_equal(np.sort(bl.vertices.positions, axis=0), np.sort(l.vertices.positions, axis=0))):
                rep("bisect_lattice does not keep the edge order / crossings / vertex set"); continue
            cls = idx[c == along]
            if len(cls) * 2 == n and len(set(cls.flatten().tolist())) == n:
                be = bl.edges.indices[c == along]
                bad = int(np.sum((be[:, 0] < n // 2) == (be[:, 1] < n // 2)))
                if bad:
                    rep(f"bisection along the perfect-matching colour {along} leaves {bad} of {len(be)} dimers inside one half"); continue
                ctx.count("bisections_along_perfect_matching")
            ctx.case((tag,), nontrivial=True)
    core.history_check(ctx, "import numpy as np\nfrom koala import example_graphs as eg, voronization as vz, graph_utils as gu, quasicrystals as qc, phase_diagrams as pdg, hamiltonian as ham\nfrom koala.flux_finder import flux_finder as ff\n\ndef _canon(l):\n    parts = [l.vertices.positions.ravel(), l.edges.indices.ravel().astype(float), l.edges.crossing.ravel().astype(float)]\n    return np.concatenate(parts)\ndef _plaq(l):\n    out = []\n    for p in l.plaquettes:\n        out += [float(len(p.edges))] + [float(x) for x in p.edges] + [float(x) for x in p.directions] + [float(x) for x in p.vertices] + [float(x) for x in p.center]\n    return np.array(out)\n_pts = np.random.default_rng(123).uniform(size=(14, 2))\n", ["ham.majorana_hamiltonian(vz.generate_lattice(_pts), None, 1 - 2 * (np.arange(42) % 3 == 0), np.array([1.0, 0.5, 0.25]))",
                                      "_canon(ham.bisect_lattice(*eg.honeycomb_lattice(3, return_coloring=True), 1))"], label="Hamiltonian call")
    outs = core.Driver().run_parallel(reqs)
    for (tag, l, H, gauged), o in zip(meta, outs):
        brk = lambda what: ctx.corr_break(f"{tag}: {what}", dict(case=tag, lattice=zoo.lat_to_json(l)))
        if "err" in o:
            brk(f"model error {o['err']}"); continue
        A = (H * 4 / 1j).real * SJ            # exact: dyadic couplings
        if not np.array_equal(A, np.array(o["A"], dtype=float)):
            brk("entries differ from the integer model"); continue
        bad = [k for k, (Hg, Ag) in enumerate(zip(gauged, o["gauged"])) if not np.array_equal((Hg * 4 / 1j).real * SJ, np.array(Ag, dtype=float))]
        if bad:
            brk("gauged Hamiltonian differs from the model's gauged matrix"); continue
        ctx.count("matrices_compared_exactly", 1 + len(gauged))
    ctx.assumptions += ["LAPACK eigvalsh is trusted for the numerical spectrum comparisons of L3 (tolerance 1e-9 relative)",
                        "bisect_lattice's halves are decided on the implementation (numpy argsort of the 0/1 labels is not modelled)"]


def replay(ctx, path):
    j = json.loads(open(path).read())["replay"]
    lat = j["lattice"]
    l = Lattice(np.array(lat["pos"], dtype=float) / lat["scale"], np.array(lat["edges"], dtype=int).reshape(-1, 2),
                np.array(lat["cross"], dtype=int).reshape(-1, 2))
    u = np.array(j["u"], dtype=np.int8); J = np.array(j["J"]); c = None if j["coloring"] is None else np.array(j["coloring"], dtype=np.int8)
    H = ham.majorana_hamiltonian(l, c, u, J)
    Js = J[c] if c is not None else np.full(l.n_edges, J[0])
    want = np.zeros_like(H)
    for (a, b), jj, uu in zip(l.edges.indices, Js, u):
        want[b, a] += 0.5j * jj * uu; want[a, b] -= 0.5j * jj * uu
    ok = np.array_equal(H, want)
    print("entry law holds:", ok)
    return 0 if ok else 1
