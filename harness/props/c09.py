"""C09 - pickling round-trips a lattice to an observationally equivalent lattice; equality is total, reflexive, symmetric and
detects every change above its tolerance.

L1: Props/C09.lean (dtype ladder read from the source picks a width that holds every index, narrowing round trip for every
    n_vertices, crossings survive int8, round trip = same edges/crossings + single-precision positions, equality reflexive /
    symmetric / detecting, tolerance side condition, getstate ignores caches).
L2: the pickled state of the implementation (dtype widths, narrowed arrays, float32 positions - exact IEEE rounding computed by
    the model) and `==` verdicts are compared with the executable model; translator for the ladder.
L3: the statement on the implementation: every protocol x pickle before/after each cached attribute x thresholds 255/256,
    65535/65536, 70000; a panel of public operations on original vs restored; legacy dict state; equality panel on all pairs
    incl. different sizes and non-lattices; perturbations at 0.9x / 1.1x the tolerance; construction determinism.
"""
from __future__ import annotations

import io
import itertools
import json
import pickle
import warnings

import numpy as np

import core
import translate
import zoo
import koala.graph_color as gc
import koala.graph_utils as gu
from koala import example_graphs as eg
from koala import hamiltonian as ham
from koala import plotting as pl
from koala.flux_finder import flux_finder as ff
from koala.lattice import Lattice, cut_boundaries

ATTRS = ["plaquettes", "n_plaquettes", "edges.adjacent_plaquettes", "vertices.adjacent_plaquettes"]
LADDER = [8, 16, 32, 64]


def touch(l, attr):
    o = l
    for part in attr.split("."):
        o = getattr(o, part)
    return o


def threshold_lattice(rng, n):
    """n vertices, few edges (construction stays cheap), the highest indices used"""
    pos = rng.uniform(size=(n, 2))
    if n == 1:
        return Lattice(pos, np.zeros((0, 2), dtype=int), np.zeros((0, 2), dtype=int))
    es = {(0, n - 1)}
    for _ in range(min(12, n)):
        a, b = rng.choice(n, 2, replace=False)
        es.add((int(a), int(b)))
    if n >= 3:
        es.add((n - 2, n - 1))
    es = np.array(sorted(es), dtype=int)
    cr = rng.integers(-1, 2, size=es.shape)
    return Lattice(pos, es, cr)


def canon(x):
    """canonical, comparable form of any result"""
    if isinstance(x, Exception):
        return ("EXC", type(x).__name__)
    if isinstance(x, Lattice):
        return ("LAT", canon(x.vertices.positions), x.edges.indices.tolist(), x.edges.crossing.tolist())
    if isinstance(x, np.ndarray):
        if x.dtype == object:
            return [canon(y) for y in x]
        if np.issubdtype(x.dtype, np.floating) or np.issubdtype(x.dtype, np.complexfloating):
            return ("F", x.shape, np.round(np.asarray(x, dtype=complex), 4).tolist())
        return ("I", x.shape, x.tolist())
    if isinstance(x, (list, tuple)):
        return [canon(y) for y in x]
    if hasattr(x, "vertices") and hasattr(x, "directions"):        # Plaquette
        return ("P", x.vertices.tolist(), x.edges.tolist(), x.directions.tolist(), int(x.n_sides), canon(np.asarray(x.center)),
                canon(np.asarray(x.adjacent_plaquettes)))
    if isinstance(x, (float, complex, np.floating, np.complexfloating)):
        return ("f", complex(np.round(complex(x), 4)))
    if isinstance(x, (int, np.integer, bool, np.bool_, str)) or x is None:
        return x
    return ("?", type(x).__name__)


def panel(l):
    """name -> thunk: the public operations of the statement (every result is canonicalised; exceptions are results too)"""
    import matplotlib
    matplotlib.use("Agg")
    import matplotlib.pyplot as plt
    ops = {}
    ops["plaquettes"] = lambda: list(l.plaquettes)
    ops["edges.adjacent_plaquettes"] = lambda: l.edges.adjacent_plaquettes
    ops["vertices.adjacent_plaquettes"] = lambda: l.vertices.adjacent_plaquettes
    ops["vertices.adjacent_edges"] = lambda: [np.asarray(a) for a in l.vertices.adjacent_edges]
    ops["edges.adjacent_edges"] = lambda: [np.asarray(a) for a in l.edges.adjacent_edges]
    ops["coordination"] = lambda: l.vertices.coordination_numbers
    # SAT-based operations can take exponential time on unsatisfiable parity instances (odd or non-trivalent lattices): they are part of the panel on small
    # lattices and on closed trivalent ones (where a 3-edge-colouring / perfect matching is expected to exist)
    sat_ok = l.n_vertices <= 30 or (l.n_vertices % 2 == 0 and l.n_edges and bool(np.all(core.degrees(l) == 3)))
    ops["edge_color3"] = lambda: gc.edge_color(l, 3)[0:2] if gc.edge_color(l, 3)[0] else (False,)
    ops["vertex_color4"] = lambda: (lambda r: r if r[0] else (False,))(gc.vertex_color(l.edges.indices, 4))
    ops["color_lattice"] = lambda: gc.color_lattice(l)
    ops["dimerise"] = lambda: gu.dimerise(l)
    if not sat_ok:
        for k in ("edge_color3", "color_lattice", "dimerise"):
            del ops[k]
    ops["cut"] = lambda: cut_boundaries(l)
    ops["trailing"] = lambda: gu.remove_trailing_edges(l)
    ops["remove_vertices"] = lambda: gu.remove_vertices(l, np.array([0, l.n_vertices - 1]))
    ops["dual"] = lambda: gu.make_dual(l)
    ops["truncate"] = lambda: gu.vertices_to_polygon(l, np.array([0]))
    ops["clockwise_about0"] = lambda: gu.clockwise_edges_about(0, l)
    ops["spanning_tree"] = lambda: gu.plaquette_spanning_tree(l)

    def h():
        u = np.ones(l.n_edges, dtype=np.int8); u[::3] = -1
        return ham.majorana_hamiltonian(l, None, u)
    ops["majorana"] = h
    ops["flux_solver"] = lambda: ff.ujk_from_fluxes(l)
    ops["fluxes"] = lambda: ff.fluxes_from_ujk(l, np.ones(l.n_edges, dtype=np.int8))
    ops["vertex_index_arith"] = lambda: 3 * l.edges.indices + 1          # index arithmetic must not overflow after a restore

    def plot():
        fig, ax = plt.subplots()
        try:
            pl.plot_edges(l, ax=ax)
            segs = [np.asarray(s) for c in ax.collections for s in c.get_segments()] if ax.collections else []
            return sorted(np.round(np.concatenate([s.flatten() for s in segs]), 4).tolist()) if segs else []
        finally:
            plt.close(fig)
    ops["plot_edges"] = plot
    return ops


def run_panel(l):
    out = {}
    with warnings.catch_warnings():
        warnings.simplefilter("ignore")
        for name, f in panel(l).items():
            try:
                out[name] = canon(f())
            except Exception as ex:
                out[name] = ("EXC", type(ex).__name__)
    return out


def state_check(ctx, name, l, reqs, meta):
    """the pickled state itself against the model"""
    rep = lambda what, **kw: ctx.impl_violation(f"{name}: {what}", dict(case=name, lattice=zoo.lat_to_json(l) if l.n_vertices <= 400 else None, **kw))
    try:
        st = l.__getstate__()
    except Exception as ex:
        rep(f"__getstate__ raised {type(ex).__name__}: {ex}"); return
    v, e, c = st
    lat = zoo.lat_to_json(l)
    S = lat["scale"]
    width = e.dtype.itemsize * 8
    reqs.append(dict(op="pickle", ladder=LADDER, crossing_width=8, **lat))
    meta.append((name, l, dict(width=width, pos=[[core.to_scaled(float(x), S), core.to_scaled(float(y), S)] for x, y in v],
                               edges=e.astype(object).reshape(-1, 2).tolist(), cross=c.astype(int).reshape(-1, 2).tolist(),
                               kinds=(v.dtype.name, e.dtype.kind, c.dtype.name))))


def roundtrip_check(ctx, rng, name, l, protocols, full):
    """pickle at every point of the object's life; compare restored and original"""
    rep = lambda what, **kw: ctx.impl_violation(f"{name}: {what}", dict(case=name, lattice=zoo.lat_to_json(l) if l.n_vertices <= 400 else None, **kw))
    raw = zoo.raw(l)
    histories = [()] + [(a,) for a in ATTRS] + [tuple(ATTRS), tuple(reversed(ATTRS))] if full else [(), (ATTRS[0],), tuple(reversed(ATTRS))]
    want_pos32 = raw[0].astype(np.float32).astype(float)
    for proto in protocols:
        for hist in histories:
            # every other history is pickled from a lattice whose crossing array is float64 (what make_dual and the quasicrystal generator hand to the constructor)
            fresh = Lattice(*[a.copy() for a in raw]) if (len(hist) + proto) % 2 == 0 else Lattice(raw[0].copy(), raw[1].copy(), raw[2].astype(np.float64))
            try:
                for a in hist:
                    touch(fresh, a)
                data = pickle.dumps(fresh, protocol=proto)
                r = pickle.loads(data)
            except Exception as ex:
                if l.n_edges == 0 or zoo.has_self_loop(l):
                    ctx.count("history_skipped_no_plaquettes_possible")
                    try:
                        r = pickle.loads(pickle.dumps(Lattice(*[a.copy() for a in raw]), protocol=proto))
                    except Exception as ex2:
                        rep(f"pickle round trip raised {type(ex2).__name__}: {ex2}", protocol=proto); return
                else:
                    rep(f"pickle round trip (protocol {proto}, after {hist}) raised {type(ex).__name__}: {ex}", protocol=proto, history=list(hist)); return
            ok_eq = (r == l) is True and (l == r) is True and not (r != l)
            if not ok_eq:
                rep(f"restored lattice does not compare equal (protocol {proto}, pickled after {hist})", protocol=proto, history=list(hist)); return
            if not (np.array_equal(r.edges.indices, l.edges.indices) and np.array_equal(r.edges.crossing, l.edges.crossing)
                    and r.n_vertices == l.n_vertices and r.n_edges == l.n_edges):
                rep(f"restored edges / crossings differ (protocol {proto}, after {hist})", protocol=proto, history=list(hist)); return
            if not np.array_equal(r.vertices.positions, want_pos32):
                rep(f"restored positions are not the single-precision positions (protocol {proto})", protocol=proto); return
            if r.edges.indices.dtype.itemsize < 8 or r.vertices.positions.dtype != np.float64 or r.edges.crossing.dtype.itemsize < 8:
                rep(f"restored arrays keep narrow dtypes {r.edges.indices.dtype}/{r.vertices.positions.dtype}/{r.edges.crossing.dtype}", protocol=proto); return
            if any(k in r.__dict__ for k in ("plaquettes", "n_plaquettes")):
                rep("restored lattice carries cached attributes of the pickled object", protocol=proto); return
            ctx.case((name, proto, hist), nontrivial=l.n_edges > 0, sample=dict(case=name, protocol=proto, pickled_after=list(hist), n_vertices=l.n_vertices))
    return True


def equality_panel(ctx, rng, lattices, reqs, meta):
    objs = [l for _, l in lattices] + [None, 3, "lattice", (1, 2), np.zeros(3)]
    for i, a in enumerate(lattices):
        na, la = a
        for j, b in enumerate(objs):
            try:
                r1 = la == b
                r2 = (b == la) if isinstance(b, Lattice) else r1
                r3 = la != b
            except Exception as ex:
                ctx.impl_violation(f"{na} == object #{j} raised {type(ex).__name__}: {ex}", dict(case=na, other=j)); continue
            if not isinstance(r1, (bool, np.bool_)) or not isinstance(r3, (bool, np.bool_)):
                ctx.impl_violation(f"{na} == object #{j} returned {type(r1).__name__}, not a boolean", dict(case=na, other=j)); continue
            if bool(r1) != bool(r2):
                ctx.impl_violation(f"equality is not symmetric between {na} and {lattices[j][0]}", dict(case=na, other=lattices[j][0])); continue
            if bool(r3) == bool(r1):
                ctx.impl_violation(f"!= is not the negation of == for {na}", dict(case=na, other=j)); continue
            if isinstance(b, Lattice) and (b is la) and not r1:
                ctx.impl_violation(f"{na} is not equal to itself", dict(case=na)); continue
            if not isinstance(b, Lattice) and r1:
                ctx.impl_violation(f"{na} compares equal to a non-lattice", dict(case=na)); continue
            ctx.case(("eq", na, j), nontrivial=isinstance(b, Lattice) and b is not la)
    # perturbations
    for name, l in lattices:
        if l.n_edges == 0:
            continue
        P, E, C = zoo.raw(l)
        n = l.n_vertices
        tol = 1 / (100 * np.sqrt(n))
        variants = []
        for f, want in ((0.9, True), (1.1, False), (0.5, True), (3.0, False)):
            Q = P.copy(); k = int(rng.integers(n)); ax = int(rng.integers(2)); Q[k, ax] += f * tol * (1 if rng.integers(2) else -1)
            variants.append((f"displace {f}x tol", Lattice(Q, E, C), want))
        # just above the tolerance, at the vertex with the largest coordinate (where a tolerance that grows with the coordinates would be most generous)
        k, ax = np.unravel_index(int(np.argmax(P)), P.shape)
        for f in (1.001, 1.01):
            Q = P.copy(); Q[k, ax] += f * tol
            variants.append((f"displace the largest coordinate by {f}x tol", Lattice(Q, E, C), False))
            Q = P.copy(); Q[k, ax] -= f * tol
            variants.append((f"displace the largest coordinate by -{f}x tol", Lattice(Q, E, C), False))
        for dv in ((1, 0), (0, -1), (-1, 2), (1, 1)):                  # a whole number of cells is a displacement like any other (edges and crossings unchanged)
            Q = P.copy(); k = int(rng.integers(n)); Q[k] += np.array(dv, dtype=float)
            variants.append((f"displace by the cell vector {dv}", Lattice(Q, E, C), False))
        E2 = E.copy(); E2[int(rng.integers(len(E)))] = E2[int(rng.integers(len(E)))][::-1] + 0
        if not np.array_equal(E2, E):
            variants.append(("changed edge", Lattice(P, E2, C), False))
        C2 = C.copy(); C2[int(rng.integers(len(C))), int(rng.integers(2))] += 1
        variants.append(("changed crossing", Lattice(P, E, C2), False))
        variants.append(("identical copy", Lattice(P.copy(), E.copy(), C.copy()), True))
        for what, m, want in variants:
            try:
                r1, r2 = l == m, m == l
            except Exception as ex:
                ctx.impl_violation(f"{name}: == raised on a perturbed copy ({what})", dict(case=name, what=what)); continue
            if bool(r1) != want or bool(r2) != want:
                ctx.impl_violation(f"{name}: == gives {bool(r1)}/{bool(r2)} for '{what}', expected {want}",
                                   dict(case=name, what=what, lattice=zoo.lat_to_json(l), other=zoo.lat_to_json(m)))
            ctx.case(("perturb", name, what))
            # model verdict on the same pair (common scale)
            if n <= 400:
                Sa = core.dyadic_scale(np.concatenate([P.flatten(), m.vertices.positions.flatten()]))
                def js(x):
                    return dict(nV=int(x.n_vertices), edges=x.edges.indices.tolist(), cross=x.edges.crossing.tolist(), scale=Sa,
                                pos=[[core.to_scaled(a, Sa), core.to_scaled(b, Sa)] for a, b in x.vertices.positions])
                reqs.append(dict(op="lateq", a=js(l), b=js(m)))
                meta.append((f"{name}/{what}", None, dict(eq=bool(r1))))


def run(ctx):
    ctx.rule = ("one evaluation = one (lattice, protocol, pickling point) round trip, one pickled state compared with the model, one == verdict, "
                "or one public operation compared between original and restored lattice; non-trivial = lattice with edges; "
                "distinct by (lattice, protocol, history | operation | pair)")
    rep0 = core.guarded_translate(ctx, translate.regenerate_all, "T-int/T-const", dict(kernels=[], tables=[], changed={}))
    core.note_translation(ctx, [t for t in rep0.get("tables", []) if isinstance(t, dict) and t.get("table") in ("index_widths", "crossing_width")])
    ctx.run_audit()
    rng = np.random.default_rng(ctx.seed)
    quick = ctx.tier == "quick"
    reqs, meta = [], []
    # ---- thresholds
    sizes = [1, 2, 254, 255, 256, 257, 65535, 65536, 70000]
    for n in sizes:
        l = threshold_lattice(rng, n)
        name = f"threshold{n}"
        ctx.count("threshold_lattices")
        protos = [2, 3, 4, 5] if (n <= 300 or not quick) else [int(rng.integers(2, 6))]
        roundtrip_check(ctx, rng, name, l, protos, full=(n <= 300))
        if n <= 300:
            state_check(ctx, name, l, reqs, meta)
        else:
            st = l.__getstate__()
            want = 8 if n <= 255 else 16 if n <= 65535 else 32
            if st[1].dtype.itemsize * 8 != want or st[0].dtype != np.float32 or st[2].dtype != np.int8:
                ctx.impl_violation(f"{name}: pickled state has dtypes {st[0].dtype}/{st[1].dtype}/{st[2].dtype}, expected float32/uint{want}/int8", dict(case=name))
            if not np.array_equal(st[1].astype(int), l.edges.indices):
                ctx.impl_violation(f"{name}: narrowed indices differ from the indices", dict(case=name))
    # ---- generator outputs
    gens = list(zoo.fixed_examples()) + zoo.random_cases(rng, 14 if quick else 120, max_seeds=30 if quick else 80)
    gens += [("honey8", "example", eg.honeycomb_lattice(8)), ("vor140", "vor", zoo.voronoi(rng, 140))]      # 256 and 280 vertices
    # lattices exactly as other koala functions hand them out (index / crossing arrays that are not int64), lattices built from narrow arrays, and lattices whose
    # number of plaquettes is not what Euler's formula for a connected torus map gives (a plaquette-free star, a one-cell honeycomb, two components)
    as_made = []
    try:
        as_made.append(("dual-as-returned", gu.make_dual(zoo.voronoi(rng, 20))))
    except Exception:
        pass
    try:
        np.random.seed(int(rng.integers(2 ** 31))); as_made.append(("penrose-as-returned", __import__("koala.quasicrystals", fromlist=["x"]).penrose_tiling(6)))
    except Exception:
        pass
    Pn, En, Cn = zoo.raw(eg.honeycomb_lattice(3))
    as_made += [("honey3[uint8,int8]", Lattice(Pn.copy(), En.astype(np.uint8), Cn.astype(np.int8))), ("honey3[int32,float64 crossing]", Lattice(Pn.copy(), En.astype(np.int32), Cn.astype(np.float64))),
                ("star_sheared", eg.star_lattice_sheared()[0]), ("honey1", eg.honeycomb_lattice(1)), ("n_ladder6", eg.n_ladder(6, True)), ("square23-as-returned", eg.square_lattice(2, 3))]
    Pa, Ea, Ca = zoo.raw(eg.two_triangles())
    as_made.append(("two components", Lattice(np.concatenate([0.5 * Pa, 0.5 * Pa + 0.5]), np.concatenate([Ea, Ea + len(Pa)]), np.concatenate([Ca, Ca]))))
    for name, l in as_made:
        try:
            _ = l.plaquettes
            n_before = l.n_plaquettes
            for proto in (2, 5):
                r = pickle.loads(pickle.dumps(l, protocol=proto))
                if not (l == r and r == l):
                    ctx.impl_violation(f"{name}: the lattice restored from a protocol-{proto} pickle does not compare equal to its original (taken exactly as built / returned)", dict(case=name, protocol=proto, lattice=zoo.lat_to_json(l)))
                elif r.n_plaquettes != n_before or len(r.plaquettes) != n_before:
                    ctx.impl_violation(f"{name}: the restored lattice reports {r.n_plaquettes} plaquettes, its original {n_before}", dict(case=name, protocol=proto, lattice=zoo.lat_to_json(l)))
                elif not (np.array_equal(np.asarray(r.edges.indices, dtype=np.int64), np.asarray(l.edges.indices, dtype=np.int64)) and np.array_equal(np.asarray(r.edges.crossing, dtype=np.int64), np.asarray(l.edges.crossing, dtype=np.int64))):
                    ctx.impl_violation(f"{name}: edges / crossings differ after a protocol-{proto} round trip", dict(case=name, protocol=proto, lattice=zoo.lat_to_json(l)))
                ctx.case(("as-made", name, proto), nontrivial=True)
        except Exception as ex:
            ctx.impl_violation(f"{name}: round trip of a lattice taken as built raised {type(ex).__name__}: {ex}", dict(case=name))
    panel_set = []
    for name, fam, l in gens:
        ctx.count("family:" + fam)
        ok = roundtrip_check(ctx, rng, name, l, [2, 3, 4, 5] if not quick else [2, 5, int(rng.integers(3, 5))], full=not quick or len(panel_set) < 6)
        state_check(ctx, name, l, reqs, meta)
        if ok and l.n_vertices <= 300 and l.n_edges > 0 and not zoo.has_self_loop(l):
            panel_set.append((name, l))
    # ---- every public operation on original vs restored
    for name, l in panel_set[: (18 if quick else 120)]:
        r = pickle.loads(pickle.dumps(l, protocol=int(rng.integers(2, 6))))
        # the restored lattice has single-precision positions: compare with the original rebuilt at single precision as well,
        # so that only the round trip (not the rounding the statement allows) is judged
        l32 = Lattice(l.vertices.positions.astype(np.float32).astype(float), l.edges.indices, l.edges.crossing)
        a, b, c = run_panel(l), run_panel(r), run_panel(l32)
        for op in a:
            ctx.case(("panel", name, op), sample=None)
            if b[op] != c[op]:
                ctx.impl_violation(f"{name}: operation '{op}' gives a different result on the restored lattice than on the same lattice built directly",
                                   dict(case=name, op=op, lattice=zoo.lat_to_json(l)))
            elif a[op] != b[op]:
                ctx.count("panel_results_changed_by_float32_rounding_only")
            ctx.count("panel_ops_compared")
        # construction determinism
        l2 = Lattice(*[x.copy() for x in zoo.raw(l)])
        if canon(list(l.plaquettes)) != canon(list(l2.plaquettes)):
            ctx.impl_violation(f"{name}: constructing the same lattice twice gives a different plaquette order", dict(case=name, lattice=zoo.lat_to_json(l)))
    # ---- legacy dictionary state
    for name, l in panel_set[:10]:
        touch(l, "plaquettes")
        legacy = Lattice.__new__(Lattice)
        legacy.__setstate__(dict(l.__dict__))
        if not (legacy == l and l == legacy) or canon(list(legacy.plaquettes)) != canon(list(l.plaquettes)):
            ctx.impl_violation(f"{name}: lattice restored from a legacy dict state differs from its original", dict(case=name))
        ctx.case(("legacy", name))
    # ---- genuine legacy pickles (default pickling of __dict__, as before __getstate__ existed) taken at every cache state, restored through pickle, then
    #      every public operation on the restored lattice against the same lattice built directly
    CACHE_STATES = {"fresh": [], "plaquettes-only": ["plaquettes"], "tables-only": ["vertices.adjacent_edges", "edges.adjacent_edges"],
                    "plaquettes+their-tables": ["plaquettes", "vertices.adjacent_plaquettes", "edges.adjacent_plaquettes"],
                    "everything": ["plaquettes", "vertices.adjacent_plaquettes", "edges.adjacent_plaquettes", "vertices.adjacent_edges", "edges.adjacent_edges"]}
    saved_getstate = Lattice.__getstate__
    for name, l0 in panel_set[: (6 if quick else 30)]:
        for cs, attrs in CACHE_STATES.items():
            l = Lattice(*[x.copy() for x in zoo.raw(l0)])
            try:
                for a in attrs:
                    touch(l, a)
            except Exception:
                continue
            try:
                del Lattice.__getstate__
                try:
                    blob = pickle.dumps(l, protocol=int(rng.integers(2, 6)))
                finally:
                    Lattice.__getstate__ = saved_getstate
                r = pickle.loads(blob)
            except Exception as ex:
                ctx.impl_violation(f"{name}: a legacy (dict-state) pickle taken in cache state '{cs}' cannot be restored: {type(ex).__name__}: {ex}", dict(case=name, cache_state=cs, lattice=zoo.lat_to_json(l0)))
                continue
            a, b = run_panel(Lattice(*[x.copy() for x in zoo.raw(l0)])), run_panel(r)
            bad = [op for op in a if a[op] != b[op]]
            if bad or not (r == l0 and l0 == r):
                ctx.impl_violation(f"{name}: lattice restored from a legacy (dict-state) pickle taken in cache state '{cs}' behaves differently from its original in {bad[:4] or '=='}"
                                   f" ({b[bad[0]] if bad else ''} instead of {str(a[bad[0]])[:80] if bad else ''})", dict(case=name, cache_state=cs, ops=bad[:6], lattice=zoo.lat_to_json(l0)))
            ctx.case(("legacy-pickle", name, cs))
    import os
    data = core.REPO / "tests" / "data"
    for f in ("pickled_lattice_V0.pickle", "pickled_lattice_V1.pickle"):
        try:
            with open(data / f, "rb") as fh:
                lv = pickle.load(fh)
            r = pickle.loads(pickle.dumps(lv))
            if not (r == lv and lv == r):
                ctx.impl_violation(f"legacy pickle {f}: re-pickled lattice differs", dict(case=f))
            ctx.case(("legacy-file", f))
        except Exception as ex:
            ctx.impl_violation(f"legacy pickle {f} could not be loaded/re-pickled: {type(ex).__name__}: {ex}", dict(case=f))
    # ---- equality
    eq_set = panel_set[: (14 if quick else 40)] + [(f"threshold{n}", threshold_lattice(rng, n)) for n in (1, 2, 255, 256)]
    equality_panel(ctx, rng, eq_set, reqs, meta)
    # ---- model
    outs = core.Driver().run_parallel(reqs)
    for (name, l, want), o in zip(meta, outs):
        brk = lambda what, **kw: ctx.corr_break(f"{name}: {what}", dict(case=name, **kw))
        if "err" in o:
            brk(f"model error {o['err']}"); continue
        if l is None:
            if o["tight"]:
                ctx.count("precondition_excluded_at_tolerance_boundary"); continue
            if o["eq"] != want["eq"] or o["eq_rev"] != want["eq"]:
                brk(f"== verdict {want['eq']} differs from the model's {o['eq']}")
            ctx.count("eq_verdicts_compared")
            continue
        if want["kinds"] != ("float32", "u", "int8"):
            brk(f"state dtypes {want['kinds']}")
        if o["width"] != want["width"]:
            brk(f"index width {want['width']} differs from the model's {o['width']}"); continue
        if o["edges"] != want["edges"] or o["cross"] != want["cross"]:
            brk("narrowed edges / crossings differ from the model"); continue
        if o["pos"] != want["pos"]:
            brk("float32 positions differ from the model's exact round-to-nearest-even"); continue
        if not o["restored_edges_equal"] or not o["eq"]:
            brk("model round trip does not restore / compare equal"); continue
        ctx.count("pickled_states_compared")
    ctx.assumptions += ["CPython pickle (protocols 2-5) transports the three arrays of the state unchanged",
                        "positions outside float32's normal range (|x| < 2^-126) are not generated"]


def replay(ctx, path):
    j = json.loads(open(path).read())["replay"]
    if not j.get("lattice"):
        print("replay needs the lattice; rerun the check with the recorded seed:", j.get("case")); return 0
    lat = j["lattice"]
    l = Lattice(np.array(lat["pos"], dtype=float) / lat["scale"], np.array(lat["edges"], dtype=int).reshape(-1, 2),
                np.array(lat["cross"], dtype=int).reshape(-1, 2))
    roundtrip_check(ctx, np.random.default_rng(0), "replay", l, [2, 3, 4, 5], full=True)
    if "other" in j and isinstance(j["other"], dict):
        o = j["other"]
        m = Lattice(np.array(o["pos"], dtype=float) / o["scale"], np.array(o["edges"], dtype=int).reshape(-1, 2), np.array(o["cross"], dtype=int).reshape(-1, 2))
        print("== verdicts:", l == m, m == l)
    print("violations:", [v["what"] for v in ctx.violations])
    return 1 if ctx.violations else 0
