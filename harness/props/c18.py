"""C18 - the Chern and crosshair markers implement their defining formula and symmetries.

L1: Props/C18.lean (Mathlib matrices over C: P·diag(a)·P·diag(b)·P; x<->y exchange gives the Hermitian conjugate => sign change;
    the markers sum to zero for a Hermitian idempotent P; equivariance under relabelling; invariance under site-wise signs;
    the step function is strict).
L2: exact correspondence: projectors with Gaussian-rational entries (rational Gram-Schmidt, every rank 0..V), positions and crosshair on a
    dyadic grid; the model evaluates Im diag(N A N B N) in exact integer arithmetic; koala's floats must agree to 1e-10.
L3: the statement on the implementation for larger V (random projectors, spectral projectors of Majorana Hamiltonians): independent
    formula, realness, zero sum, x<->y antisymmetry, relabelling, gauge invariance, crosshair on / outside / exactly at vertex coordinates.
"""
from __future__ import annotations

import json
import math
from fractions import Fraction
from math import lcm

import numpy as np

import core
import zoo
from koala import chern_number as cn
from koala import example_graphs as eg
from koala import hamiltonian as ham
from koala.lattice import Lattice

GRID = 2 ** 12


# ---- exact Gaussian rationals as (Fraction re, Fraction im)
def cmul(a, b): return (a[0] * b[0] - a[1] * b[1], a[0] * b[1] + a[1] * b[0])
def cadd(a, b): return (a[0] + b[0], a[1] + b[1])
def csub(a, b): return (a[0] - b[0], a[1] - b[1])
def cconj(a): return (a[0], -a[1])
def cscale(s, a): return (s * a[0], s * a[1])
ZERO = (Fraction(0), Fraction(0))


def rational_projector(rng, n, r):
    """Hermitian projector of rank r with Gaussian-rational entries: sum of q q^dagger / |q|^2 over an orthogonalised family"""
    qs = []
    tries = 0
    while len(qs) < r and tries < 50:
        tries += 1
        v = [(Fraction(int(rng.integers(-3, 4))), Fraction(int(rng.integers(-3, 4)))) for _ in range(n)]
        for q in qs:
            nq = sum((x[0] * x[0] + x[1] * x[1] for x in q), Fraction(0))
            ip = ZERO
            for a, b in zip(q, v):
                ip = cadd(ip, cmul(cconj(a), b))
            coef = cscale(1 / nq, ip)
            v = [csub(x, cmul(coef, y)) for x, y in zip(v, q)]
        if any(x != ZERO for x in v):
            qs.append(v)
    if len(qs) < r:
        return None
    P = [[ZERO] * n for _ in range(n)]
    for q in qs:
        nq = sum((x[0] * x[0] + x[1] * x[1] for x in q), Fraction(0))
        for i in range(n):
            for j in range(n):
                P[i][j] = cadd(P[i][j], cscale(1 / nq, cmul(q[i], cconj(q[j]))))
    return P


def to_int_matrix(P):
    d = 1
    for row in P:
        for a in row:
            d = lcm(d, a[0].denominator, a[1].denominator)
    N = [[[int(a[0] * d), int(a[1] * d)] for a in row] for row in P]
    return N, d


def unit_cells():
    """the `unit_cell` a Lattice may carry for drawing (a matplotlib transform): the markers are defined by the stored vertex coordinates whatever it is"""
    from matplotlib.transforms import Affine2D, IdentityTransform
    return [("identity", None), ("scaled 2x1", Affine2D().scale(2, 1)), ("rhombic", Affine2D.from_values(1, 0, 0.5, 0.75 ** 0.5, 0, 0)),
            ("shifted", Affine2D().translate(0.3, -0.2)), ("scaled 3x3", Affine2D().scale(3, 3))]


def grid_lattice(rng, n, cell=None):
    pos = rng.integers(1, GRID, size=(n, 2)) / GRID
    edges = np.array([[i, (i + 1) % n] for i in range(n)] if n > 2 else [[0, 1]], dtype=int)
    if cell is None:
        return Lattice(pos, edges, np.zeros_like(edges))
    return Lattice(pos, edges, np.zeros_like(edges), unit_cell=cell)


def independent_marker(P, a, b):
    """4 pi Im sum_{jk} P_ij a_j P_jk b_k P_ki, written out (no matrix products shared with the implementation)"""
    return 4 * np.pi * np.einsum("ij,j,jk,k,ki->i", P, a, P, b, P).imag


def judge(ctx, name, l, P, crosses, rep, rng, idempotent=True):
    pos = l.vertices.positions
    n = l.n_vertices
    scale = max(1.0, float(np.abs(P).max()) ** 3 * n * n)
    tol = 1e-9 * scale
    if (n + ctx.seed) % 2 == 0 and crosses:
        # for every other system size the very first marker evaluated is a crosshair marker (state shared between the two functions, keyed on the size)
        c = np.asarray(crosses[0], dtype=float)
        m = cn.crosshair_marker(l, P, c)
        if not np.allclose(m, independent_marker(P, 1.0 * (pos[:, 0] < c[0]), 1.0 * (pos[:, 1] < c[1])), atol=tol, rtol=0):
            rep(f"crosshair_marker at {c.tolist()} (first marker evaluated for this system size) is not 4*pi*Im diag(P theta_x P theta_y P)", crosshair=c.tolist()); return False
    ch = cn.chern_marker(l, P)
    if ch.shape != (n,) or np.iscomplexobj(ch) or not np.allclose(ch, independent_marker(P, pos[:, 0], pos[:, 1]), atol=tol, rtol=0):
        rep("chern_marker is not 4*pi*Im diag(P x P y P)"); return False
    if idempotent and abs(ch.sum()) > tol * n:
        rep(f"chern marker sums to {ch.sum()}"); return False
    swapped = Lattice(pos[:, ::-1].copy(), l.edges.indices, l.edges.crossing)
    if not np.allclose(cn.chern_marker(swapped, P), -ch, atol=tol, rtol=0):
        rep("chern marker does not change sign when x and y are exchanged"); return False
    o = rng.permutation(n)
    pl = Lattice(pos[o], np.argsort(o)[l.edges.indices], l.edges.crossing)
    Pp = P[np.ix_(o, o)]
    if not np.allclose(cn.chern_marker(pl, Pp), ch[o], atol=tol, rtol=0):
        rep("chern marker does not follow the sites under relabelling"); return False
    s = 1 - 2 * rng.integers(0, 2, size=n)
    Pg = (s[:, None] * P) * s[None, :]
    if not np.allclose(cn.chern_marker(l, Pg), ch, atol=tol, rtol=0):
        rep("chern marker changes under a site-wise sign change"); return False
    # the same matrix in other memory layouts / wrappers gives the same markers
    view = np.zeros((2 * n, 2 * n), dtype=P.dtype); view[::2, ::2] = P
    for lay, Pv in (("column-major", np.asfortranarray(P)), ("strided view", view[::2, ::2]), ("read-only", np.array(P))):
        if lay == "read-only":
            Pv.setflags(write=False)
        c0 = np.asarray(crosses[0], dtype=float)
        try:
            same = np.allclose(cn.chern_marker(l, Pv), ch, atol=tol, rtol=0) and np.allclose(cn.crosshair_marker(l, Pv, c0), cn.crosshair_marker(l, P, c0), atol=tol, rtol=0)
        except Exception as ex:
            rep(f"markers raise {type(ex).__name__}: {ex} for a {lay} projector array"); return False
        if not same:
            rep(f"markers change when the same projector is passed as a {lay} array", layout=lay); return False
    for c in crosses:
        c = np.asarray(c, dtype=float)
        m = cn.crosshair_marker(l, P, c)
        tx, ty = 1.0 * (pos[:, 0] < c[0]), 1.0 * (pos[:, 1] < c[1])
        if m.shape != (n,) or np.iscomplexobj(m) or not np.allclose(m, independent_marker(P, tx, ty), atol=tol, rtol=0):
            rep(f"crosshair_marker at {c.tolist()} is not 4*pi*Im diag(P theta_x P theta_y P) with strict step functions", crosshair=c.tolist()); return False
        if idempotent and abs(m.sum()) > tol * n:
            rep(f"crosshair marker sums to {m.sum()}", crosshair=c.tolist()); return False
        if not np.allclose(cn.crosshair_marker(swapped, P, c[::-1]), -m, atol=tol, rtol=0):
            rep("crosshair marker does not change sign when x and y are exchanged", crosshair=c.tolist()); return False
        if not np.allclose(cn.crosshair_marker(pl, Pp, c), m[o], atol=tol, rtol=0):
            rep("crosshair marker does not follow the sites under relabelling", crosshair=c.tolist()); return False
        if not np.allclose(cn.crosshair_marker(l, Pg, c), m, atol=tol, rtol=0):
            rep("crosshair marker changes under a site-wise sign change", crosshair=c.tolist()); return False
        ctx.case((name, "crosshair", tuple(c.tolist())), nontrivial=0 < tx.sum() < n or 0 < ty.sum() < n)
    # after the crosshair scan the Chern marker of the same lattice is what it was before
    ch2 = cn.chern_marker(l, P)
    if not np.allclose(ch2, independent_marker(P, pos[:, 0], pos[:, 1]), atol=tol, rtol=0):
        rep("chern_marker evaluated after a scan of crosshair markers is no longer 4*pi*Im diag(P x P y P)"); return False
    return True


def crosshairs_for(rng, l):
    pos = l.vertices.positions
    k = int(rng.integers(l.n_vertices))
    out = [rng.uniform(0.2, 0.8, size=2), np.array([-0.5, 0.5]), np.array([1.5, 2.0]), pos[k].copy(),           # exactly on a vertex
           np.array([pos[k][0], rng.uniform()]), np.array([0.0, 0.0])]
    # just above / just below a vertex coordinate, from one ulp to 1e-5, on either axis: the step function is strict at every scale
    j = int(rng.integers(l.n_vertices))
    for d in (None, 1e-12, 1e-9, 1e-7, 3e-6):
        for sgn in (1, -1):
            for ax in (0, 1):
                c = pos[j].copy() + np.array([0.37, 0.41]) * (1 - np.eye(2)[ax])         # generic in the other coordinate
                c[ax] = np.nextafter(pos[j][ax], sgn * np.inf) if d is None else pos[j][ax] + sgn * d
                out.append(c)
    return out


def run(ctx):
    ctx.rule = ("one evaluation = one (lattice, projector) pair judged against the statement, or one marker vector compared with the exact model, or one "
                "crosshair position; non-trivial = projector of rank 1..V-1 / crosshair separating the sites; distinct by (lattice, projector, crosshair)")
    ctx.run_audit()
    rng = np.random.default_rng(ctx.seed)
    quick = ctx.tier == "quick"
    reqs, meta = [], []
    # ---- exact part: rational projectors of every rank on small lattices
    for n in ([2, 3, 4, 5, 6, 7, 8] if quick else [2, 3, 4, 5, 6, 7, 8, 9, 10]):
        cells = unit_cells()
        cname, cell = cells[n % len(cells)]
        l = grid_lattice(rng, n, cell)
        if cell is not None: ctx.count("lattices_with_non_identity_unit_cell")
        for r in range(n + 1):
            Pq = rational_projector(rng, n, r)
            if Pq is None:
                ctx.count("rank_not_reached"); continue
            N, d = to_int_matrix(Pq)
            P = np.array([[complex(float(a[0]), float(a[1])) for a in row] for row in Pq])
            name = f"rational(n={n},rank={r})"
            rep = lambda what, **kw: ctx.impl_violation(f"{name}: {what}", dict(case=name, positions=l.vertices.positions.tolist(), N=N, d=d, **kw))
            crosses = crosshairs_for(rng, l)
            if not judge(ctx, name, l, P, crosses, rep, rng):
                continue
            ctx.case((name,), nontrivial=0 < r < n, sample=dict(case=name, denominator=d))
            xs = [int(x * GRID) for x in l.vertices.positions[:, 0]]; ys = [int(y * GRID) for y in l.vertices.positions[:, 1]]
            # crosshair coordinates are sent on the grid only when they are on it; otherwise compare with the ceiling (same strict indicator)
            cint = [[math.ceil(Fraction(float(c[0])) * GRID), math.ceil(Fraction(float(c[1])) * GRID)] for c in crosses]       # exact: no rounding in c * GRID
            reqs.append(dict(op="marker", N=N, xs=xs, ys=ys, crosshairs=cint))
            meta.append((name, l, P, d, crosses))
            ctx.count("ranks_covered")
    # ---- float part: larger systems, spectral projectors
    big = []
    for V in ([8, 14, 30, 60] if quick else [8, 12, 20, 30, 45, 60]):
        cname, cell = unit_cells()[(V // 2) % len(unit_cells())]
        l = grid_lattice(rng, V, cell)
        if cell is not None: ctx.count("lattices_with_non_identity_unit_cell")
        for r in sorted({0, 1, V // 3, V // 2, V - 1, V}):
            A = rng.normal(size=(V, max(r, 1))) + 1j * rng.normal(size=(V, max(r, 1)))
            Q, _ = np.linalg.qr(A)
            P = Q[:, :r] @ Q[:, :r].conj().T if r else np.zeros((V, V), dtype=complex)
            big.append((f"random(V={V},rank={r})", l, P))
    # projectors with the same density 1/2 on every site whose real part is not I/2: P = (1 - [[0, W], [W^+, 0]]) / 2 with W real orthogonal or complex
    # unitary (half-filled bipartite hopping models: a uniform diagonal says nothing about the off-diagonal real part)
    for V in ([8, 14, 30] if quick else [8, 12, 20, 30, 44]):
        h_ = V // 2
        for kind in ("real", "complex"):
            A = rng.normal(size=(h_, h_)) + (1j * rng.normal(size=(h_, h_)) if kind == "complex" else 0)
            W, _ = np.linalg.qr(A)
            S = np.block([[np.zeros((h_, h_)), W], [W.conj().T, np.zeros((h_, h_))]])
            big.append((f"chiral-{kind}(V={V})", grid_lattice(rng, V), (np.eye(V) - S).astype(complex) / 2))
    # the half-filled Haldane model on the periodic honeycomb lattice (real nearest-neighbour hopping, complex second-neighbour hopping with the sign of the
    # turn, no mass term): a Chern insulator whose projector has density exactly 1/2 on every site, complex entries and a real part that is not I/2
    for n_ in ((3, 5) if quick else (3, 4, 5, 6)):
        lh = eg.honeycomb_lattice(n_)
        Vh = lh.n_vertices
        Hh = np.zeros((Vh, Vh), dtype=complex)
        out_ = [[] for _ in range(Vh)]
        for (i_, j_), d_ in zip(lh.edges.indices, lh.edges.vectors):
            Hh[i_, j_] += 1.0; Hh[j_, i_] += 1.0
            out_[int(i_)].append((int(j_), d_)); out_[int(j_)].append((int(i_), -d_))
        for i_ in range(Vh):
            for j_, d1 in out_[i_]:
                for k_, d2 in out_[j_]:
                    if k_ == i_ and np.allclose(d1 + d2, 0):
                        continue
                    Hh[i_, k_] += 0.3 * np.exp(1j * np.sign(d1[0] * d2[1] - d1[1] * d2[0]) * np.pi / 2)
        eh, vh = np.linalg.eigh(Hh)
        occ_ = vh[:, : Vh // 2]
        if eh[Vh // 2] - eh[Vh // 2 - 1] > 1e-6:
            big.append((f"haldane(honeycomb {n_})", lh, occ_ @ occ_.conj().T))
            ctx.count("haldane_projectors")
    for lname, l in [("honey3", eg.honeycomb_lattice(3)), ("vor12", zoo.voronoi(rng, 12)), ("vor20", zoo.voronoi(rng, 20))]:
        u = (1 - 2 * rng.integers(0, 2, size=l.n_edges)).astype(np.int8)
        J = rng.uniform(0.5, 1.5, size=3)
        try:
            import koala.graph_color as gc
            col = gc.color_lattice(l)
        except Exception:
            col = None
        H = ham.majorana_hamiltonian(l, col, u, J)
        e, vecs = np.linalg.eigh(H)
        occ = vecs[:, e < 0]
        big.append((f"spectral({lname})", l, occ @ occ.conj().T))
    for name, l, P in big:
        rep = lambda what, **kw: ctx.impl_violation(f"{name}: {what}", dict(case=name, seed=ctx.seed, **kw))
        if judge(ctx, name, l, P, crosshairs_for(rng, l), rep, rng):
            ctx.case((name,), nontrivial=True)
    # ---- model
    outs = core.Driver().run_parallel(reqs)
    for (name, l, P, d, crosses), o in zip(meta, outs):
        brk = lambda what: ctx.corr_break(f"{name}: {what}", dict(case=name))
        if "err" in o:
            brk(f"model error {o['err']}"); continue
        d3 = float(d) ** 3
        want = np.array([float(Fraction(x, d ** 3 * GRID * GRID)) for x in o["chern"]])
        got = cn.chern_marker(l, P) / (4 * np.pi)
        tol = 1e-10 * max(1.0, np.abs(want).max())
        if not np.allclose(got, want, atol=tol, rtol=0):
            brk("chern marker differs from the exact model"); continue
        bad = False
        for c, mo in zip(crosses, o["crosshair"]):
            want = np.array([float(Fraction(x, d ** 3)) for x in mo])
            got = cn.crosshair_marker(l, P, np.asarray(c, dtype=float)) / (4 * np.pi)
            if not np.allclose(got, want, atol=1e-10 * max(1.0, np.abs(want).max()), rtol=0):
                brk(f"crosshair marker at {np.asarray(c).tolist()} differs from the exact model"); bad = True; break
        if not bad:
            ctx.count("marker_vectors_compared_with_exact_model", 1 + len(crosses))
    ctx.assumptions += ["numpy's complex matrix products are accurate to 1e-10 on the small rational inputs of the exact comparison",
                        "the list-based exact evaluator (Model/Marker.lean) and the Mathlib definition markerMat are both P·diag(a)·P·diag(b)·P; they are "
                        "related by inspection and by both agreeing with numpy, not by a Lean lemma"]


def replay(ctx, path):
    j = json.loads(open(path).read())["replay"]
    if "N" not in j:
        print("replay: rerun with the recorded seed", j); return 0
    pos = np.array(j["positions"]); n = len(pos)
    l = Lattice(pos, np.array([[i, (i + 1) % n] for i in range(n)] if n > 2 else [[0, 1]]), np.zeros((n if n > 2 else 1, 2), dtype=int))
    P = np.array([[complex(a[0], a[1]) for a in row] for row in j["N"]]) / j["d"]
    rep = lambda what, **kw: ctx.impl_violation(what, dict(kw))
    judge(ctx, "replay", l, P, [np.array(j["crosshair"])] if "crosshair" in j else crosshairs_for(np.random.default_rng(0), l), rep, np.random.default_rng(0))
    print("violations:", [v["what"] for v in ctx.violations])
    return 1 if ctx.violations else 0
