"""C03 - the Voronoi generator returns the periodic Voronoi tessellation of its points.

L1: Props/C03.lean (koala's bookkeeping after the qhull call: floor/mod decomposition => crossing = cell offset between the ends, negated under swap;
    in-cell test <=> zero offset; de-duplication key identifies the two finds of a translation class and separates differently winding parallel
    ridges; de-duplication keeps exactly one edge per key; trivalent torus counts V = 2N, E = 3N).
L2: the `Voronoi` object koala uses is wrapped in the harness process; its (possibly shifted) vertices and ridges are given, exactly, to the model's
    post-processing, whose edge list and crossings must equal koala's (vertices identified by exact position).
L3: independent periodic Delaunay reference on a 7x7 replication (circumcentres / centroids in (0,1], triangle adjacency, cell offsets) under the
    statement's own density precondition; tiling consequences (one plaquette per seed containing it, areas, two-sidedness, trivalence, 2N/3N);
    Lloyd relaxation keeps the number of cells.
"""
from __future__ import annotations

import json
import warnings
from collections import Counter

import numpy as np
from scipy.spatial import Delaunay

import core
import zoo
import koala.voronization as vz
from koala import graph_utils as gu
from koala.lattice import INVALID, Lattice, LatticeException
from props.c01 import min_gap, GAP_MIN

RealVoronoi = vz.Voronoi


class RecVoronoi:
    """proxy for scipy.spatial.Voronoi: koala reads .vertices/.ridge_vertices/.ridge_points/.points and may assign .vertices"""
    last = None

    def __init__(self, points, *a, **k):
        self._v = RealVoronoi(points, *a, **k)
        self.vertices = self._v.vertices
        self.ridge_vertices = self._v.ridge_vertices
        self.ridge_points = self._v.ridge_points
        self.points = self._v.points
        RecVoronoi.last = self


def generate_recorded(pts, shift):
    old = vz.Voronoi
    vz.Voronoi = RecVoronoi
    try:
        l = vz.generate_lattice(pts, shift_vertices=shift)
    finally:
        vz.Voronoi = old
    return l, RecVoronoi.last


def circum(a, b, c):
    d = 2 * (a[0] * (b[1] - c[1]) + b[0] * (c[1] - a[1]) + c[0] * (a[1] - b[1]))
    ux = ((a @ a) * (b[1] - c[1]) + (b @ b) * (c[1] - a[1]) + (c @ c) * (a[1] - b[1])) / d
    uy = ((a @ a) * (c[0] - b[0]) + (b @ b) * (a[0] - c[0]) + (c @ c) * (b[0] - a[0])) / d
    return np.array([ux, uy])


_REF_CACHE = {}


def reference(pts, shift, pad=3):
    """independent periodic Delaunay (memoised on the point set): vertices in (0,1], edges with cell offsets, largest relevant circumradius"""
    key = (np.asarray(pts, dtype=float).tobytes(), bool(shift), pad)
    if key in _REF_CACHE:
        out, reference.window_ok = _REF_CACHE[key]
        return out
    if len(_REF_CACHE) > 64:
        _REF_CACHE.clear()
    out = _reference(pts, shift, pad)
    _REF_CACHE[key] = (out, reference.window_ok)
    return out


def _reference(pts, shift, pad=3):
    N = len(pts)
    offs = [(i, j) for i in range(-pad, pad + 1) for j in range(-pad, pad + 1)]
    allp = np.concatenate([pts + np.array(o) for o in offs]); owner = [(k, o) for o in offs for k in range(N)]
    tri = Delaunay(allp)
    pos = []
    for s in tri.simplices:
        a, b, c = allp[s]
        pos.append((a + b + c) / 3 if shift else circum(a, b, c))
    pos = np.array(pos)
    incell = [t for t in range(len(pos)) if np.all((0 < pos[t]) & (pos[t] <= 1))]
    wall = min((np.abs(pos[incell] - np.round(pos[incell]))).min(), 1.0) if incell else 0.0        # distance of a vertex from the cell wall

    def cls(t):
        o = np.ceil(pos[t]) - 1
        items = sorted((owner[i][0], (owner[i][1][0] - int(o[0]), owner[i][1][1] - int(o[1]))) for i in tri.simplices[t])
        return tuple(items), o.astype(int)
    ids = {cls(t)[0]: k for k, t in enumerate(incell)}
    verts = np.array([pos[t] for t in incell])
    edges = Counter(); ok = True; rmax = 0.0
    # the statement's own precondition, exactly: every Voronoi vertex in the cell or adjacent to it has its three generating seeds inside the window koala
    # replicates (3x3 for N > 10, 5x5 otherwise).  rmax <= 1/3 resp. 2/3 is only the sufficient bound the statement quotes.
    reach = 1 if N > 10 else 2
    window_ok = True
    for k, t in enumerate(incell):
        a, b, c = allp[tri.simplices[t]]; rmax = max(rmax, np.linalg.norm(circum(a, b, c) - a))
        for tt in [t] + [nb for nb in tri.neighbors[t] if nb >= 0]:
            q = allp[tri.simplices[tt]]
            if np.any(q < -reach) or np.any(q >= 1 + reach):
                window_ok = False
        for nb in tri.neighbors[t]:
            if nb < 0: ok = False; continue
            cid, o = cls(nb)
            if cid not in ids: ok = False; continue
            j = ids[cid]
            e = (k, j, int(o[0]), int(o[1])); er = (j, k, -int(o[0]), -int(o[1]))
            edges[min(e, er)] += 1
    # every edge is seen from both of its triangles
    edges = Counter({e: c // 2 if e[0] != e[1] or (e[2], e[3]) != (0, 0) else c for e, c in edges.items()})
    reference.window_ok = window_ok
    return verts, edges, rmax, ok, wall


def families(rng, N):
    yield "uniform", rng.uniform(size=(N, 2))
    c = rng.uniform(size=2); yield "cluster", (c + 0.08 * rng.normal(size=(N, 2))) % 1
    yield "twocluster", np.concatenate([(rng.uniform(size=2) + 0.05 * rng.normal(size=(N // 2, 2))), (rng.uniform(size=2) + 0.05 * rng.normal(size=(N - N // 2, 2)))]) % 1
    g = int(np.ceil(np.sqrt(N))); gx, gy = np.meshgrid(np.arange(g), np.arange(g))
    yield "jitter", ((np.stack([gx.flatten(), gy.flatten()], 1)[:N] + 0.5 + 0.3 * rng.uniform(-1, 1, size=(N, 2))) / g) % 1
    b = rng.uniform(size=(N, 2)); b[:, 0] = np.where(rng.random(N) < 0.5, 1e-4 * rng.random(N), 1 - 1e-4 * rng.random(N)); yield "boundary", b
    x = rng.uniform(size=N); yield "nearcollinear", np.stack([x, (0.5 + 1e-3 * rng.normal(size=N)) % 1], 1)
    # four points that are nearly - not exactly - on a circle: a square grid with a jitter of 1e-8 .. 1e-7 (pairs of Voronoi vertices 1e-8 apart; the
    # statement excludes exactly co-circular points only)
    if N >= 9:
        eps = float(rng.choice([1e-8, 3e-8, 1e-7]))
        yield "jitter-tiny", ((np.stack([gx.flatten(), gy.flatten()], 1)[:N] + 0.5 + eps * rng.uniform(-1, 1, size=(N, 2))) / g + rng.uniform(0, 1, size=2)) % 1
    # narrow bands (large empty circles, still within the density bound): horizontal and vertical, anywhere in the cell and hugging the wall
    for axis in (0, 1):
        w = rng.choice([0.05, 0.1, 0.2]); c = rng.choice([0.0, rng.uniform()])
        b = rng.uniform(size=(N, 2)); b[:, axis] = (c + w * rng.uniform(size=N)) % 1
        yield "band", b


def cocircular_margin(pts):
    """smallest distance between two vertices of the periodic Voronoi diagram of pts (circumcentres of the periodic Delaunay triangles in the cell)"""
    from scipy.spatial import cKDTree
    verts = reference(pts, False)[0]
    if len(verts) < 2:
        return 1.0
    dd, _ = cKDTree(verts).query(verts, k=2)
    return float(dd[:, 1].min())


def judge(ctx, name, pts, shift, l, rep):
    """the statement, against the independent reference; returns False if excluded or violated"""
    N = len(pts)
    verts, edges, rmax, ok, wall = reference(pts, shift)
    if not ok or not reference.window_ok:
        ctx.count("precondition_excluded_density"); return None
    if rmax > (1 / 3 if N > 10 else 2 / 3):
        ctx.count("beyond_the_sufficient_density_bound_but_window_exact")
    if wall < 1e-12:          # circumcentres of well-shaped triangles are accurate to ~1e-15; closer to the wall than this the cell membership is a matter of rounding
        ctx.count("precondition_excluded_vertex_on_cell_wall"); return None
    # genericity margin: two Voronoi vertices (circumcentres, whatever the shift setting) closer than 1e-9 come from four seeds that are co-circular within
    # rounding - which of the two triangulations qhull reports (or whether it merges them) is then a matter of its own tolerances, and the statement excludes
    # co-circular seeds
    if cocircular_margin(pts) < 1e-9:
        ctx.count("precondition_excluded_cocircular_within_1e-9"); return None
    if l.n_vertices != len(verts):
        rep(f"{l.n_vertices} vertices, the periodic Voronoi diagram has {len(verts)}"); return False
    d = np.linalg.norm(l.vertices.positions[:, None] - verts[None], axis=-1); m = d.argmin(1)
    if d.min(1).max() > 1e-9 or len(set(m)) != len(m):
        rep("vertices are not the circumcentres / centroids of the periodic Delaunay triangles in (0,1]^2"); return False
    got = Counter()
    for (i, j), (cx, cy) in zip(l.edges.indices, l.edges.crossing):
        e = (int(m[i]), int(m[j]), int(cx), int(cy)); er = (int(m[j]), int(m[i]), -int(cx), -int(cy)); got[min(e, er)] += 1
    if got != edges:
        miss = list((edges - got).items())[:3]; extra = list((got - edges).items())[:3]
        rep(f"edges differ from the adjacency of the periodic Delaunay triangles (missing {miss}, extra {extra})"); return False
    if l.n_vertices != 2 * N or l.n_edges != 3 * N or not np.all(core.degrees(l) == 3):
        rep(f"not trivalent with 2N vertices and 3N edges (V={l.n_vertices}, E={l.n_edges}, N={N})"); return False
    return True


def judge_tiling(ctx, name, pts, shift, l, rep):
    """consequences under the statement's side conditions"""
    N = len(pts)
    if min_gap(l) < GAP_MIN:
        return
    self_touch = any(a == b for a, b in l.edges.indices.tolist())
    try:
        pl = list(l.plaquettes)
    except LatticeException:
        return
    adj = l.edges.adjacent_plaquettes
    # a cell touches its own image iff some edge has the same plaquette on both sides or a plaquette is missing
    touches = self_touch or len(pl) != N or bool(np.any(adj == INVALID)) or bool(np.any(adj[:, 0] == adj[:, 1]))
    if shift and touches:
        ctx.count("tiling_side_condition_excluded"); return
    if touches:
        # without shifting, a missing plaquette can only come from a cell that touches its own image (non-contractible boundary walk)
        ctx.count("tiling_side_condition_excluded"); return
    areas = []
    for p in pl:
        vec = l.edges.vectors[p.edges] * p.directions[:, None]
        P = l.vertices.positions[p.vertices[0]] + np.cumsum(vec, 0)
        x, y = P[:, 0], P[:, 1]
        areas.append(0.5 * np.sum(x * np.roll(y, -1) - np.roll(x, -1) * y))
        # the seed of this cell: exactly one input point (mod 1) inside the polygon
    if abs(sum(areas) - 1) > 1e-9:
        rep(f"plaquette areas sum to {sum(areas)}"); return
    # each plaquette contains exactly one seed (some periodic image of it)
    from matplotlib.path import Path as MPath
    owners = []
    for p in pl:
        vec = l.edges.vectors[p.edges] * p.directions[:, None]
        P = np.concatenate([[l.vertices.positions[p.vertices[0]]], l.vertices.positions[p.vertices[0]] + np.cumsum(vec, 0)[:-1]])
        path = MPath(P)
        inside = [k for k in range(N) for o in [(i, j) for i in (-2, -1, 0, 1, 2) for j in (-2, -1, 0, 1, 2)] if path.contains_point(pts[k] % 1 + np.array(o))]
        owners.append(sorted(set(inside)))
    if any(len(o) != 1 for o in owners) or sorted(o[0] for o in owners) != list(range(N)):
        if not shift:
            rep("the plaquettes are not in one-to-one correspondence with the input points they contain")
        else:
            ctx.count("shifted_cells_not_containing_their_seed_excluded")
        return
    ctx.count("tilings_verified")


def run(ctx):
    ctx.rule = ("one evaluation = one generate_lattice call (point family, N, shift setting) compared with the model fed with the recorded qhull output and judged "
                "against an independent periodic Delaunay reference, or one Lloyd relaxation; non-trivial = density precondition holds; distinct by (family, N, seed, shift)")
    ctx.run_audit()
    rng = np.random.default_rng(ctx.seed)
    quick = ctx.tier == "quick"
    reqs, meta = [], []
    Ns = [2, 3, 4, 5, 8, 10, 11, 12, 20, 40, 60] if quick else [2, 3, 4, 5, 6, 8, 10, 11, 12, 15, 20, 30, 40, 60, 100, 200]
    trials = 1 if quick else 5
    plan = [(trial, N) for trial in range(trials) for N in Ns]
    plan += [(100 + t, N) for t in range(3 if quick else 12) for N in (9, 10, 11, 12)]        # the replication-window threshold (N <= 10: 5x5, N > 10: 3x3)
    for trial, N in plan:
        if True:
            for fam, pts in families(rng, N):
                if len(np.unique(np.round(pts, 12), axis=0)) < N:
                    continue
                if fam in ("boundary", "nearcollinear") and N < 11:
                    continue                         # these families leave the replicated window at small N (measured in the design phase)
                if trial >= 100 and fam not in ("band", "uniform", "cluster"):
                    continue
                for shift in (False, True):
                    name = f"{fam}(N={N})#{trial}{'s' if shift else ''}"
                    rep = lambda what, **kw: ctx.impl_violation(f"{name}: {what}", dict(case=name, points=pts.tolist(), shift=shift, **kw))
                    try:
                        with warnings.catch_warnings():
                            warnings.simplefilter("ignore")
                            l, vor = generate_recorded(pts, shift)
                    except Exception as ex:
                        verts, edges, rmax, ok, wall = reference(pts, shift)
                        if not (rmax <= (1 / 3 if N > 10 else 2 / 3) and ok):
                            ctx.count("precondition_excluded_density")
                        elif cocircular_margin(pts) < 1e-9:
                            ctx.count("precondition_excluded_cocircular_within_1e-9")
                        else:
                            rep(f"generate_lattice raised {type(ex).__name__}: {ex}")
                        continue
                    verdict = judge(ctx, name, pts, shift, l, rep)
                    if verdict is None:
                        continue
                    ctx.case((name,), nontrivial=True, sample=dict(case=name, V=l.n_vertices, E=l.n_edges))
                    ctx.count("family:" + fam)
                    if verdict:
                        judge_tiling(ctx, name, pts, shift, l, rep)
                    # ---- model request: exactly the arrays koala's post-processing saw
                    V = np.asarray(vor.vertices, dtype=float)
                    S = core.dyadic_scale(V.flatten())
                    reqs.append(dict(op="voro", S=S, verts=[[core.to_scaled(x, S), core.to_scaled(y, S)] for x, y in V],
                                     ridges=[[int(a), int(b)] for a, b in vor.ridge_vertices]))
                    meta.append((name, l, V))
    # ---- a Voronoi vertex placed next to a cell wall / next to the cell corner, at distances from 3e-11 to 1e-5 on either side: the point set is translated on
    #      the torus so that a chosen vertex of its diagram lands there.  Decides the half-open cell (0,1]^2 at every scale, and gives Lloyd relaxation
    #      plaquettes that wrap round the corner (unwrapped centroids outside the unit square).
    for t in range(2 if quick else 10):
        N = int(rng.choice([12, 16, 25]))
        g = int(np.ceil(np.sqrt(N))); gx, gy = np.meshgrid(np.arange(g), np.arange(g))
        base = ((np.stack([gx.flatten(), gy.flatten()], 1)[:N] + 0.5 + 0.3 * rng.uniform(-1, 1, size=(N, 2))) / g) % 1
        l0 = vz.generate_lattice(base, shift_vertices=False)
        for v in rng.choice(l0.n_vertices, size=3 if quick else 8, replace=False):
            p = l0.vertices.positions[v]
            for dx, dy in ((2e-10, None), (-2e-10, None), (None, 3e-11), (None, -2e-10), (2e-10, 2e-10), (-2e-10, -3e-11), (1e-5, -1e-5), (-1e-7, 1e-7)):
                shift_vec = np.array([0.0 if dx is None else dx - p[0], 0.0 if dy is None else dy - p[1]])
                pts = (base + shift_vec) % 1
                for shift in (False, True):
                    name = f"vertex-at-wall(N={N}, d=({dx},{dy}))#{t}.{int(v)}{'s' if shift else ''}"
                    rep = lambda what, **kw: ctx.impl_violation(f"{name}: {what}", dict(case=name, points=pts.tolist(), shift=shift, **kw))
                    try:
                        with warnings.catch_warnings():
                            warnings.simplefilter("ignore")
                            l, vor = generate_recorded(pts, shift)
                    except Exception as ex:
                        rep(f"generate_lattice raised {type(ex).__name__}: {ex}"); continue
                    verdict = judge(ctx, name, pts, shift, l, rep)
                    if verdict is None:
                        continue
                    ctx.case((name,), nontrivial=True)
                    ctx.count("family:vertex-at-wall")
                    V = np.asarray(vor.vertices, dtype=float)
                    S = core.dyadic_scale(V.flatten())
                    reqs.append(dict(op="voro", S=S, verts=[[core.to_scaled(x, S), core.to_scaled(y, S)] for x, y in V], ridges=[[int(a), int(b)] for a, b in vor.ridge_vertices]))
                    meta.append((name, l, V))
                    if verdict and not shift and dx is not None and dy is not None:
                        try:
                            if l.n_plaquettes == N:
                                for steps in (1, 2):
                                    r = gu.lloyd_relaxation(l, steps)
                                    if r.n_plaquettes != N or r.n_vertices != 2 * N:
                                        ctx.impl_violation(f"{name}: Lloyd relaxation ({steps} step(s)) changed the number of cells from {N} to {r.n_plaquettes}",
                                                           dict(case=name, points=pts.tolist(), steps=steps)); break
                                ctx.count("lloyd_runs_on_corner_wrapping_cells")
                        except Exception as ex:
                            ctx.impl_violation(f"{name}: lloyd_relaxation raised {type(ex).__name__}: {ex}", dict(case=name, points=pts.tolist()))
    # ---- one point set large enough for every 16-bit index to overflow (9 N > 32767), cheap invariants + reference
    if True:
        N = 3650
        pts = rng.uniform(size=(N, 2))
        for shift in ((True,) if quick else (True, False)):
            name = f"uniform(N={N}){'s' if shift else ''}"
            rep = lambda what, **kw: ctx.impl_violation(f"{name}: {what}", dict(case=name, generator=f"default_rng({ctx.seed}) stream, uniform(size=({N},2))", shift=shift, **kw))
            try:
                with warnings.catch_warnings():
                    warnings.simplefilter("ignore")
                    l = vz.generate_lattice(pts, shift_vertices=shift)
                if judge(ctx, name, pts, shift, l, rep):
                    ctx.case((name,), nontrivial=True)
            except Exception as ex:
                rep(f"generate_lattice raised {type(ex).__name__}: {ex}")
    # ---- the same point set in other representations (column-major, a transposed pair of coordinate rows, a strided view, read-only, a list of lists) and the
    #      flags passed by position: the lattice is the one obtained from a fresh C-ordered array with keyword flags
    canon_l = lambda x: (x.vertices.positions.tobytes(), x.edges.indices.tobytes(), x.edges.crossing.tobytes())
    for t in range(4 if quick else 30):
        N = int(rng.choice([6, 12, 20, 35]))
        pts = rng.uniform(size=(N, 2))
        for shift in (False, True):
            name = f"representation(N={N})#{t}{'s' if shift else ''}"
            rep = lambda what, **kw: ctx.impl_violation(f"{name}: {what}", dict(case=name, points=pts.tolist(), shift=shift, **kw))
            try:
                with warnings.catch_warnings():
                    warnings.simplefilter("ignore")
                    base = canon_l(vz.generate_lattice(pts.copy(), shift_vertices=shift))
                    big = np.zeros((2 * N, 4)); big[::2, ::2] = pts
                    ro = pts.copy(); ro.setflags(write=False)
                    forms = [("column-major", np.asfortranarray(pts)), ("transposed coordinate rows", np.array([pts[:, 0], pts[:, 1]]).T), ("strided view", big[::2, ::2]),
                             ("read-only", ro), ("float64 from a list of lists", np.array(pts.tolist()))]
                    for lab, pv in forms:
                        keep = np.array(pv).copy()
                        if canon_l(vz.generate_lattice(pv, shift_vertices=shift)) != base:
                            rep(f"the lattice differs when the same points are passed as a {lab} array", representation=lab); break
                        if not np.array_equal(np.asarray(pv), keep):
                            rep(f"generate_lattice modified the point array it was given ({lab})", representation=lab); break
                    else:
                        if canon_l(vz.generate_lattice(pts.copy(), False, shift)) != base:
                            rep("generate_lattice(points, False, shift) with the flags by position differs from the call with shift_vertices= as a keyword")
                        # the flag in the other spellings a caller has (an item of a boolean array, 0/1)
                        for lab, fl in (("np.bool_", np.bool_(shift)), ("0/1 integer", int(shift)), ("item of a boolean array", np.array([shift, not shift])[0])):
                            if canon_l(vz.generate_lattice(pts.copy(), shift_vertices=fl)) != base:
                                rep(f"shift_vertices given as {lab} ({fl!r}) gives a different lattice from shift_vertices={shift}", flag=lab); break
                        # single-precision seeds: the lattice is the tessellation of exactly those points (the same points widened to float64 give it to rounding)
                        p32 = pts.astype(np.float32)
                        l32, l64 = vz.generate_lattice(p32, shift_vertices=shift), vz.generate_lattice(p32.astype(np.float64), shift_vertices=shift)
                        if (l32.n_vertices != l64.n_vertices or not np.array_equal(l32.edges.indices, l64.edges.indices) or not np.array_equal(l32.edges.crossing, l64.edges.crossing)
                                or np.abs(l32.vertices.positions - l64.vertices.positions).max() > 1e-12):
                            dev = np.abs(l32.vertices.positions - l64.vertices.positions).max() if l32.n_vertices == l64.n_vertices else float("nan")
                            rep(f"float32 seeds give a lattice that differs (max position difference {dev:.2e}) from the lattice of the same points as float64", representation="float32")
                        ctx.count("float32_point_sets")
            except Exception as ex:
                rep(f"raised {type(ex).__name__}: {ex}")
            ctx.case((name,), nontrivial=True)
    # ---- medium sizes (a few hundred points), mostly with vertex shifting: code paths switched on by size that go wrong only for some point sets
    for t in range(36 if quick else 200):
        N = int(rng.integers(257, 420))
        pts = rng.uniform(size=(N, 2))
        shift = (t % 6 != 5)
        name = f"uniform(N={N}){'s' if shift else ''}#{t}"
        rep = lambda what, **kw: ctx.impl_violation(f"{name}: {what}", dict(case=name, points=pts.tolist(), shift=shift, **kw))
        try:
            with warnings.catch_warnings():
                warnings.simplefilter("ignore")
                l = vz.generate_lattice(pts, shift_vertices=shift)
            # cheap consequences of the statement on every trial (trivalent, 2N vertices, 3N edges, crossings are cell offsets of neighbouring cells, vertices in
            # the cell, one plaquette per point); the full comparison with the independent reference on every sixth
            deg = np.bincount(l.edges.indices.flatten(), minlength=l.n_vertices)
            if l.n_vertices != 2 * N or l.n_edges != 3 * N or np.any(deg != 3):
                rep(f"V={l.n_vertices}, E={l.n_edges}, degrees {sorted(set(deg.tolist()))} for N={N} generic points (expected 2N, 3N, all 3)"); continue
            if np.any(np.abs(l.edges.crossing) > 1) or np.any(l.vertices.positions < 0) or np.any(l.vertices.positions > 1):
                rep("an edge crossing is not in {-1,0,1} or a vertex lies outside the unit cell"); continue
            if not shift and l.n_plaquettes != N:                 # with vertex shifting the count is subject to the statement's side condition: judged in `judge`
                rep(f"{l.n_plaquettes} plaquettes for {N} points"); continue
            if t % 6 in (0, 5):
                if not judge(ctx, name, pts, shift, l, rep):
                    continue
            ctx.case((name,), nontrivial=True)
        except Exception as ex:
            rep(f"generate_lattice raised {type(ex).__name__}: {ex}")
    # ---- Lloyd relaxation keeps the number of cells
    for t in range(3 if quick else 12):
        N = int(rng.integers(12, 40))
        pts = rng.uniform(size=(N, 2))
        l = vz.generate_lattice(pts, shift_vertices=False)
        steps = int(rng.integers(1, 6))
        name = f"lloyd(N={N}, steps={steps})#{t}"
        try:
            if l.n_plaquettes != N:
                ctx.count("lloyd_side_condition_excluded"); continue
            r = gu.lloyd_relaxation(l, steps)
            if r.n_plaquettes != N or r.n_vertices != 2 * N:
                ctx.impl_violation(f"{name}: Lloyd relaxation changed the number of cells from {N} to {r.n_plaquettes}", dict(case=name, points=pts.tolist(), steps=steps))
            ctx.case((name,), nontrivial=True)
        except Exception as ex:
            ctx.impl_violation(f"{name}: lloyd_relaxation raised {type(ex).__name__}: {ex}", dict(case=name, points=pts.tolist(), steps=steps))
    # ---- Lloyd relaxation on very small point sets (cells as large as the unit cell, unwrapped centroids far outside it).  Every intermediate point set must
    #      itself satisfy the statement's preconditions (density, genericity, one plaquette per point) for the run to be judged.
    def admissible(P):
        try:
            verts, edges, rmax, ok, wall = reference(P % 1, False)
        except Exception:
            return False
        return ok and rmax <= (1 / 3 if len(P) > 10 else 2 / 3) and wall >= 1e-9
    D14 = np.array([[0.0570310435873157, 0.9963625185495405], [0.4921982731692245, 0.3169876839175355], [0.7099565047242222, 0.19561636553807227]])
    for t in range(260 if quick else 3000):
        N = int(rng.choice([3, 4, 5, 6]))
        pts = rng.uniform(size=(N, 2))
        steps = int(rng.integers(1, 4))
        if t == 0:
            N, pts, steps = 3, D14, 3                      # the witness of fixed defect D14 runs first
        name = f"lloyd-small(N={N}, steps={steps})#{t}"
        try:
            with warnings.catch_warnings():
                warnings.simplefilter("ignore")
                if not admissible(pts):
                    ctx.count("lloyd_small_precondition_excluded"); continue
                l = vz.generate_lattice(pts, shift_vertices=False)
                stage, fine = l, l.n_plaquettes == N
                for k in range(steps):                                   # the point sets the relaxation passes through
                    if not fine:
                        break
                    cur = np.array([p.center for p in stage.plaquettes])
                    fine = admissible(cur)
                    if fine and k + 1 < steps:
                        stage = vz.generate_lattice(cur % 1, shift_vertices=False)
                        fine = stage.n_plaquettes == N
                if not fine:
                    ctx.count("lloyd_small_precondition_excluded"); continue
                r = gu.lloyd_relaxation(l, steps)
            # the number of cells of a trivalent tessellation of the torus is E - V = V / 2; a cell that touches its own periodic image is a cell but not a
            # plaquette (its boundary walk is not contractible), so for these very large cells the plaquette count is not what is judged
            if r.n_vertices != 2 * N or r.n_edges != 3 * N:
                ctx.impl_violation(f"{name}: Lloyd relaxation changed the number of cells from {N} to {r.n_edges - r.n_vertices} (V={r.n_vertices}, E={r.n_edges})", dict(case=name, points=pts.tolist(), steps=steps))
            ctx.case((name,), nontrivial=True)
            ctx.count("lloyd_small_runs")
        except Exception as ex:
            ctx.impl_violation(f"{name}: lloyd_relaxation raised {type(ex).__name__}: {ex}", dict(case=name, points=pts.tolist(), steps=steps))
    core.history_check(ctx, "import numpy as np\nfrom koala import example_graphs as eg, voronization as vz, graph_utils as gu, quasicrystals as qc, phase_diagrams as pdg, hamiltonian as ham\nfrom koala.flux_finder import flux_finder as ff\n\ndef _canon(l):\n    parts = [l.vertices.positions.ravel(), l.edges.indices.ravel().astype(float), l.edges.crossing.ravel().astype(float)]\n    return np.concatenate(parts)\ndef _plaq(l):\n    out = []\n    for p in l.plaquettes:\n        out += [float(len(p.edges))] + [float(x) for x in p.edges] + [float(x) for x in p.directions] + [float(x) for x in p.vertices] + [float(x) for x in p.center]\n    return np.array(out)\n_pts = np.random.default_rng(123).uniform(size=(14, 2))\n", ["_canon(vz.generate_lattice(_pts))", "_canon(vz.generate_lattice(_pts, shift_vertices=False))", "_canon(gu.lloyd_relaxation(vz.generate_lattice(_pts, shift_vertices=False), 2))"],
                       label="Voronoi call")
    # ---- model
    outs = core.Driver().run_parallel(reqs)
    for (name, l, V), o in zip(meta, outs):
        brk = lambda what: ctx.corr_break(f"{name}: {what}", dict(case=name))
        if "err" in o:
            brk(f"model error {o['err']}"); continue
        index_of = {(float(x), float(y)): i for i, (x, y) in enumerate(V)}
        try:
            old = [index_of[(float(x), float(y))] for x, y in l.vertices.positions]
        except KeyError:
            brk("a lattice vertex is not one of the (shifted) Voronoi vertices"); continue
        impl_edges = [[old[a], old[b]] for a, b in l.edges.indices]
        if impl_edges != o["edges"] or l.edges.crossing.tolist() != o["cross"] or sorted(old) != o["verts"]:
            brk("edge list / crossings / kept vertices differ from the model's post-processing of the same qhull output"); continue
        ctx.count("postprocessing_compared_exactly")
    ctx.assumptions += ["qhull (scipy.spatial.Voronoi / Delaunay) and the exactness of the 3x3 / 5x5 replication under the density bound are not verified: the bound is "
                        "computed from an independent 7x7 Delaunay and failing point sets are precondition-excluded",
                        "KDTree nearest-neighbour queries are modelled by an exact argmin (generic inputs: unique nearest vertex at distance ~0)",
                        "the vertex shift (centroid of the three generating seeds) is recorded, not modelled; it is checked against the reference centroids"]


def replay(ctx, path):
    j = json.loads(open(path).read())["replay"]
    pts = np.array(j["points"]); shift = j.get("shift", True)
    rep = lambda what, **kw: ctx.impl_violation(what, dict(kw))
    with warnings.catch_warnings():
        warnings.simplefilter("ignore")
        l = vz.generate_lattice(pts, shift_vertices=shift)
    v = judge(ctx, "replay", pts, shift, l, rep)
    if v:
        judge_tiling(ctx, "replay", pts, shift, l, rep)
    print("violations:", [x["what"] for x in ctx.violations])
    return 1 if ctx.violations else 0
