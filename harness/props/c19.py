"""C19 - point-set generators stay in the unit square, keep spacing, and are reproducible.

L1: Props/C19.lean (dart-throwing loop as a fold over the stream of draws: bounds + pairwise spacing invariant for every stream, k and grid
    shape; samples only appended; crop of hyperuniform inside the open square) + generated obligations `noGlobalRng` for every function that
    takes a generator (meaning: C15.noGlobalRng_sound).
L2: translator T-eff (RNG atoms) + correspondence: the generator handed to bluenoise is wrapped by a recording proxy; the recorded draws are
    replayed through the model, which must return the same samples.
L3: the statement on the implementation: unit square, spacing > 1 before normalisation, reach to within two spacings of all four sides for
    k >= 20 (probabilistic: judged over several seeds), exact counts, reproducibility for a seeded generator, global random state neither read
    nor disturbed; every call under a time limit (a hang is a violation).
"""
from __future__ import annotations

import json
import signal

import numpy as np

import core
from translate import effects
from koala import pointsets as psets


class Timeout(Exception):
    pass


def with_timeout(f, seconds):
    def handler(signum, frame):
        raise Timeout()
    old = signal.signal(signal.SIGALRM, handler)
    signal.alarm(seconds)
    try:
        return f()
    finally:
        signal.alarm(0)
        signal.signal(signal.SIGALRM, old)


class RecRng:
    """recording proxy around a numpy Generator (third-party object wrapped in the harness process)"""

    def __init__(self, seed):
        self.g = np.random.default_rng(seed)
        self.log = []

    def uniform(self, *a, **k):
        r = self.g.uniform(*a, **k)
        self.log.append(("uniform", a, np.array(r, copy=True)))
        return r

    def choice(self, a, *args, **k):
        r = self.g.choice(a, *args, **k)
        self.log.append(("choice", list(a), int(r)))
        return r

    def __getattr__(self, name):
        def f(*a, **k):
            r = getattr(self.g, name)(*a, **k)
            self.log.append((name, a, r))
            return r
        return f


def iterations_from_log(log, nx, ny):
    """x0 and, per while-iteration, (position of the chosen sample in the active list, candidate points)"""
    assert log[0][0] == "uniform"
    x0 = log[0][2] * np.array([nx, ny])
    samples = [x0]
    its = []
    i = 1
    cur = None
    while i < len(log):
        kind = log[i][0]
        if kind == "choice":
            active, idx = log[i][1], log[i][2]
            cur = dict(pos=active.index(idx), idx=idx, cands=[])
            its.append(cur)
            i += 1
        else:
            rho, theta = float(log[i][2]), float(log[i + 1][2])
            x1 = samples[cur["idx"]] + np.array([rho * np.cos(theta), rho * np.sin(theta)])
            cur["cands"].append(x1)
            # mirror of the acceptance test, only to know the sample list for later x0's (the model decides independently, exactly)
            if not (np.any(x1 < 0) or np.any(x1 > np.array([nx, ny]))) and np.min(np.linalg.norm(x1 - np.array(samples), axis=-1)) > 1:
                samples.append(x1)
            i += 2
    return x0, its, samples


def judge_bluenoise(ctx, name, pts, k, nx, ny, rep):
    if pts.ndim != 2 or pts.shape[1] != 2 or len(pts) < 1:
        rep(f"returned array of shape {pts.shape}"); return False
    if np.any(pts < 0) or np.any(pts > 1):
        rep(f"point outside the unit square: min {pts.min(axis=0).tolist()}, max {pts.max(axis=0).tolist()}"); return False
    raw = pts * np.array([nx, ny])
    if len(raw) > 1:
        d = np.linalg.norm(raw[:, None, :] - raw[None, :, :], axis=-1)
        d[np.arange(len(raw)), np.arange(len(raw))] = np.inf
        if d.min() <= 1 - 1e-12:
            rep(f"two points only {d.min()} grid spacings apart"); return False
    return True


def reaches_sides(pts, nx, ny):
    raw = pts * np.array([nx, ny])
    return raw[:, 0].min() <= 2 and raw[:, 1].min() <= 2 and raw[:, 0].max() >= nx - 2 and raw[:, 1].max() >= ny - 2


def run(ctx):
    ctx.rule = ("one evaluation = one generator call (bluenoise / hyperuniform / uniform) at one parameter set and seed, judged against the statement; bluenoise "
                "calls are also replayed draw by draw through the model; non-trivial = more than one point returned; distinct by (function, parameters, seed)")
    rep_e = core.guarded_translate(ctx, effects.generate, "T-eff", dict(functions=[], n_functions=0, n_public=0, n_atoms=0, changed=False))
    rng_rows = [f for f in rep_e["functions"] if f["function"].startswith("pointsets:")]
    ctx.translated = [dict(function=f["function"], global_rng=f["global_rng"], takes_rng=f["takes_rng"]) for f in rng_rows]
    ctx.run_audit(extra_modules=["KoalaVerif.Generated.Effects"])
    # only the pointsets obligations belong to this property
    ctx.obligations = [o for o in ctx.obligations if not o["name"].startswith("GenEff.") or "pointsets__" in o["name"]]
    rng = np.random.default_rng(ctx.seed)
    quick = ctx.tier == "quick"
    reqs, meta = [], []
    # ---- bluenoise
    shapes = [(a, b) for a in range(1, 13) for b in range(1, 13)]
    if quick:
        shapes = [(1, 1), (1, 2), (2, 1), (3, 6), (6, 3), (1, 12), (12, 1), (5, 5), (7, 4), (12, 12)] + [tuple(int(x) for x in rng.integers(1, 13, size=2)) for _ in range(6)]
    ks = [1, 2, 5, 20, 30, 40] if quick else list(range(1, 41))
    big_runs = [(40, 12, 12)] * (14 if quick else 40) + [(40, 11, 12)] * (3 if quick else 20) + [(30, 12, 12)] * (2 if quick else 10)      # more than 100 samples
    timeouts = 0
    jobs = [(nx, ny, k) for nx, ny in shapes for k in (ks if not quick else [ks[i] for i in rng.choice(len(ks), 3, replace=False)] + [20])]
    jobs += [(nx, ny, k) for k, nx, ny in big_runs]
    for nx, ny, k in jobs:
        if timeouts >= 3:
            ctx.notes.append("bluenoise sweep stopped after three calls exceeded the time limit"); break
        if True:
            seed = int(rng.integers(2 ** 31))
            name = f"bluenoise(k={k}, nx={nx}, ny={ny}, seed={seed})"
            rep = lambda what, **kw: ctx.impl_violation(f"{name}: {what}", dict(case=name, fn="bluenoise", k=k, nx=nx, ny=ny, seed=seed, **kw))
            np.random.seed(int(rng.integers(2 ** 31)))
            g0 = np.random.get_state()[1].copy()
            rec = RecRng(seed)
            try:
                pts = with_timeout(lambda: psets.bluenoise(k, nx, ny, rng=rec), 30)
            except Timeout:
                timeouts += 1
                rep("did not return within 30 s (the sampling loop does not terminate)"); continue
            except Exception as ex:
                rep(f"raised {type(ex).__name__}: {ex}"); continue
            if not np.array_equal(np.random.get_state()[1], g0):
                rep("the global numpy random state was disturbed although a generator was supplied"); continue
            if not judge_bluenoise(ctx, name, pts, k, nx, ny, rep):
                continue
            np.random.seed(int(rng.integers(2 ** 31)))            # a different global state for the second run
            pts2 = with_timeout(lambda: psets.bluenoise(k, nx, ny, rng=np.random.default_rng(seed)), 60)
            if not np.array_equal(pts, pts2):
                rep("not reproducible for the same seeded generator (or depends on the global random state)"); continue
            if k >= 20 and not reaches_sides(pts, nx, ny):
                fails = 1
                for s2 in range(4):
                    fails += not reaches_sides(psets.bluenoise(k, nx, ny, rng=np.random.default_rng(seed + 1 + s2)), nx, ny)
                if fails >= 3:
                    # known finding K2: one-cell-wide strips; any other shape is a violation
                    ctx.impl_violation(f"{name}: with k={k} the points do not reach within two grid spacings of all four sides ({fails} of 5 seeds)",
                                       dict(case=name, fn="bluenoise", k=k, nx=nx, ny=ny, seed=seed),
                                       signature="bluenoise-reach-one-cell-wide-strip" if min(nx, ny) == 1 and max(nx, ny) >= 3 else None)
                    continue
                ctx.count("reach_failed_for_single_seed_only")
            ctx.case((name,), nontrivial=len(pts) > 1, sample=dict(case=name, n_points=len(pts)))
            # ---- replay the recorded draws through the model
            if len(rec.log) <= 6000:
                try:
                    x0, its, mirror = iterations_from_log(rec.log, nx, ny)
                except Exception as ex:
                    ctx.corr_break(f"{name}: the recorded draws cannot be grouped into iterations of the modelled loop ({type(ex).__name__})", dict(case=name))
                    continue
                allpts = [x0] + [c for it in its for c in it["cands"]]
                S = core.dyadic_scale(np.array(allpts).flatten())
                sc = lambda p: [core.to_scaled(p[0], S), core.to_scaled(p[1], S)]
                reqs.append(dict(op="bluenoise", S=S, nx=nx, ny=ny, k=k, x0=sc(x0), iterations=[dict(pos=it["pos"], cands=[sc(c) for c in it["cands"]]) for it in its]))
                meta.append((name, pts, nx, ny, S))
    # ---- the fixed witness of known finding K2 (always exercised, so that the finding is reported on every run while it stays open)
    fails = sum(not reaches_sides(with_timeout(lambda: psets.bluenoise(20, 12, 1, rng=np.random.default_rng(s)), 60), 12, 1) for s in range(10))
    ctx.extra["K2_witness"] = f"bluenoise(20, 12, 1), seeds 0..9: {fails} of 10 do not reach all four sides"
    if fails >= 3:
        ctx.impl_violation(f"bluenoise(k=20, nx=12, ny=1): the points do not reach within two grid spacings of all four sides for {fails} of 10 seeds",
                           dict(case="K2 witness", fn="bluenoise", k=20, nx=12, ny=1, seed=0), signature="bluenoise-reach-one-cell-wide-strip")
    # ---- hyperuniform
    for t in range(25 if quick else 200):
        nx, ny = (int(x) for x in rng.integers(2, 21, size=2))
        kick = float(rng.choice([0.0, 1e-3, 0.01, 0.05, 0.1]))
        seed = int(rng.integers(2 ** 31))
        name = f"hyperuniform(nx={nx}, ny={ny}, kick={kick}, seed={seed})"
        rep = lambda what, **kw: ctx.impl_violation(f"{name}: {what}", dict(case=name, fn="hyperuniform", nx=nx, ny=ny, kick=kick, seed=seed, **kw))
        np.random.seed(int(rng.integers(2 ** 31)))
        g0 = np.random.get_state()[1].copy()
        try:
            a = psets.hyperuniform(nx, ny, kick, rng=np.random.default_rng(seed))
            same_global = np.array_equal(np.random.get_state()[1], g0)
            np.random.seed(int(rng.integers(2 ** 31)))
            b = psets.hyperuniform(nx, ny, kick, rng=np.random.default_rng(seed))
        except Exception as ex:
            rep(f"raised {type(ex).__name__}: {ex}"); continue
        if not same_global:
            rep("the global numpy random state was disturbed although a generator was supplied"); continue
        if not np.array_equal(a, b):
            rep("not reproducible for the same seeded generator (depends on the global random state)"); continue
        if a.ndim != 2 or a.shape[1] != 2 or np.any(a <= 0) or np.any(a >= 1) or len(a) > nx * ny:
            rep("points outside the open unit square / more points than cells"); continue
        if kick == 0.0 and len(a) < nx * ny - nx - ny:
            rep(f"only {len(a)} of {nx * ny} jittered grid points survive without kicks"); continue
        ctx.case((name,), nontrivial=len(a) > 1)
    # ---- interleaving: a call must not depend on the call before it.  Shapes with equal nx*ny (the natural key of a careless cache) alternate; the result for a
    #      shape right after another shape is compared with the result of the same call repeated immediately
    interleaved = []
    for (a, b) in [((3, 4), (4, 3)), ((2, 8), (4, 4)), ((2, 6), (3, 4)), ((1, 12), (12, 1)), ((5, 2), (2, 5)), ((6, 6), (4, 9))]:
        for fn_name in ("hyperuniform", "bluenoise"):
            seed = int(rng.integers(2 ** 31))
            call = (lambda shp: psets.hyperuniform(shp[0], shp[1], 0.01, rng=np.random.default_rng(seed))) if fn_name == "hyperuniform" else \
                   (lambda shp: psets.bluenoise(5, shp[0], shp[1], rng=np.random.default_rng(seed)))
            name = f"{fn_name} {a} then {b} (seed={seed})"
            try:
                call(a); r1 = call(b); r2 = call(b); call(b); r3 = call(a); r4 = call(a)
            except Exception as ex:
                ctx.impl_violation(f"{name}: raised {type(ex).__name__}: {ex}", dict(case=name, fn=fn_name, shapes=[list(a), list(b)], seed=seed)); continue
            if np.shape(r1) != np.shape(r2) or not np.array_equal(r1, r2) or np.shape(r3) != np.shape(r4) or not np.array_equal(r3, r4):
                ctx.impl_violation(f"{name}: the same seeded call gives different points depending on the call made before it", dict(case=name, fn=fn_name, shapes=[list(a), list(b)], seed=seed))
            expr = (lambda shp: f"psets.hyperuniform({shp[0]}, {shp[1]}, 0.01, rng=np.random.default_rng({seed}))") if fn_name == "hyperuniform" else \
                   (lambda shp: f"psets.bluenoise(5, {shp[0]}, {shp[1]}, rng=np.random.default_rng({seed}))")
            interleaved.append((name, fn_name, a, b, seed, r1, r3, expr(b), expr(a)))
            ctx.case((name,), nontrivial=True)
    # the same calls, each as the first call of a fresh interpreter: the history-free reference
    refs = core.fresh_eval([x for it in interleaved for x in (it[7], it[8])], preamble="import numpy as np\nfrom koala import pointsets as psets")
    for k, (name, fn_name, a, b, seed, r1, r3, _, _) in enumerate(interleaved):
        fb, fa = refs[2 * k], refs[2 * k + 1]
        if isinstance(fb, Exception) or isinstance(fa, Exception):
            ctx.notes.append(f"{name}: fresh-interpreter reference not available"); continue
        if np.shape(fb) != np.shape(r1) or not np.array_equal(fb, r1) or np.shape(fa) != np.shape(r3) or not np.array_equal(fa, r3):
            ctx.impl_violation(f"{name}: the seeded call made after another shape differs from the same call made first in a fresh interpreter: the result depends on the "
                               "calls made before it", dict(case=name, fn=fn_name, shapes=[list(a), list(b)], seed=seed))
        ctx.count("interleaved_calls_compared_with_fresh_interpreter")
    # ---- hyperuniform on tiny grids with strong kicks (few or no survivors of the crop): same contract
    for nx in range(1, 5):
        for ny in range(1, 5):
            for kick in (1e-3, 0.1, 0.3):
                for t in range(3 if quick else 12):
                    seed = int(rng.integers(2 ** 31))
                    name = f"hyperuniform(nx={nx}, ny={ny}, kick={kick}, seed={seed})"
                    rep = lambda what, **kw: ctx.impl_violation(f"{name}: {what}", dict(case=name, fn="hyperuniform", nx=nx, ny=ny, kick=kick, seed=seed, **kw))
                    try:
                        np.random.seed(int(rng.integers(2 ** 31))); g0 = np.random.get_state()[1].copy()
                        a = psets.hyperuniform(nx, ny, kick, rng=np.random.default_rng(seed))
                        same_global = np.array_equal(np.random.get_state()[1], g0)
                        np.random.seed(int(rng.integers(2 ** 31)))
                        b = psets.hyperuniform(nx, ny, kick, rng=np.random.default_rng(seed))
                    except Exception as ex:
                        rep(f"raised {type(ex).__name__}: {ex}"); continue
                    if not same_global:
                        rep("the global numpy random state was disturbed although a generator was supplied"); continue
                    if np.shape(a) != np.shape(b) or not np.array_equal(a, b):
                        rep(f"not reproducible for the same seeded generator: {len(a)} and {len(b)} points on two runs"); continue
                    if len(a) and (np.ndim(a) != 2 or np.shape(a)[1] != 2 or np.any(a <= 0) or np.any(a >= 1) or len(a) > nx * ny):
                        rep("points outside the open unit square / more points than cells"); continue
                    ctx.case((name,), nontrivial=len(a) > 1)
    # ---- uniform: exactly n points also for large n (two draws may come arbitrarily close)
    for n in ([5000, 20000, 100000] if quick else [5000, 20000, 50000, 100000, 300000]):
        for t in range(2 if quick else 6):
            seed = int(rng.integers(2 ** 31))
            a = psets.uniform(n, rng=np.random.default_rng(seed))
            name = f"uniform(n={n}, seed={seed})"
            if np.shape(a) != (n, 2) or np.any(a < 0) or np.any(a >= 1):
                ctx.impl_violation(f"{name}: returned an array of shape {np.shape(a)}, expected exactly {n} points of the unit square", dict(case=name, fn="uniform", n=n, seed=seed))
            ctx.case((name,), nontrivial=True)
    # ---- uniform with n given as a numpy integer of any width (arithmetic on n must not be done in n's own dtype)
    for n in (np.uint8(200), np.uint8(255), np.int8(127), np.uint16(65535), np.int16(300), np.int32(1000), np.int64(77)):
        seed = int(rng.integers(2 ** 31))
        name = f"uniform(n={type(n).__name__}({int(n)}), seed={seed})"
        try:
            a = psets.uniform(n, rng=np.random.default_rng(seed)); b = psets.uniform(int(n), rng=np.random.default_rng(seed))
            if np.shape(a) != (int(n), 2) or not np.array_equal(a, b):
                ctx.impl_violation(f"{name}: returned an array of shape {np.shape(a)}, not the {int(n)} points returned for the Python integer {int(n)}", dict(case=name, fn="uniform", n=int(n), dtype=type(n).__name__, seed=seed))
        except Exception as ex:
            ctx.impl_violation(f"{name}: raised {type(ex).__name__}: {ex}", dict(case=name, fn="uniform", n=int(n), dtype=type(n).__name__, seed=seed))
        ctx.case((name,), nontrivial=True)
    # ---- uniform
    for n in ([0, 1, 2, 7, 100, 1000] if quick else list(range(0, 1001, 7)) + [1000]):
        seed = int(rng.integers(2 ** 31))
        name = f"uniform(n={n}, seed={seed})"
        rep = lambda what, **kw: ctx.impl_violation(f"{name}: {what}", dict(case=name, fn="uniform", n=n, seed=seed, **kw))
        np.random.seed(1); g0 = np.random.get_state()[1].copy()
        a = psets.uniform(n, rng=np.random.default_rng(seed)); ok_g = np.array_equal(np.random.get_state()[1], g0)
        np.random.seed(2)
        b = psets.uniform(n, rng=np.random.default_rng(seed))
        if a.shape != (n, 2) or np.any(a < 0) or np.any(a > 1) or not np.array_equal(a, b) or not ok_g:
            rep("uniform does not return exactly n reproducible points in the unit square")
        ctx.case((name,), nontrivial=n > 1)
    # ---- model
    outs = core.Driver().run_parallel(reqs)
    for (name, pts, nx, ny, S), o in zip(meta, outs):
        brk = lambda what: ctx.corr_break(f"{name}: {what}", dict(case=name))
        if "err" in o:
            brk(f"model error {o['err']}"); continue
        m = np.array(o["samples"], dtype=float) / float(S) / np.array([nx, ny])
        if m.shape != pts.shape or not np.allclose(m, pts, atol=1e-12, rtol=0):
            brk(f"the model, fed with the recorded draws, returns {len(m)} samples, koala {len(pts)} (or different points)"); continue
        ctx.count("draw_streams_replayed_through_model")
    ctx.assumptions += ["numpy Generator streams are reproducible for equal seeds (trusted)",
                        "'reaches all four sides for k >= 20' is probabilistic: judged over 5 seeds, not provable for every stream",
                        "termination of the dart-throwing loop is probabilistic; every call runs under a 60 s limit"]


def replay(ctx, path):
    j = json.loads(open(path).read())["replay"]
    fn = j.get("fn")
    if fn == "bluenoise":
        try:
            pts = with_timeout(lambda: psets.bluenoise(j["k"], j["nx"], j["ny"], rng=np.random.default_rng(j["seed"])), 60)
        except Timeout:
            print("hang reproduced"); return 1
        ok = judge_bluenoise(ctx, "replay", pts, j["k"], j["nx"], j["ny"], lambda what, **kw: ctx.impl_violation(what, kw))
        print("violations:", [v["what"] for v in ctx.violations]); return 0 if ok and not ctx.violations else 1
    print("replay: rerun", j); return 0
