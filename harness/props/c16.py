"""C16 - plots draw the periodic lattice completely, once, and in the right colours.

L1: Props/C16.lean (segment-intersection helper <=> existence of a common point for non-parallel segments over any ordered field; division-free test of
    the model; label broadcasting: per-element = per-subset-element; image j of edge i carries colour i; meets_visible / drawn_fractions_sum_one: the images the mask `vis` selects show the whole edge exactly once;
    needed_copies_drawn / polyOffsets_nodup: every copy of a plaquette whose extent meets the cell is drawn, none twice).
L2: exact correspondence of `line_intersection` with the integer model on random rational segment pairs in general position; of the visibility helpers with
    `Plot.visible` on the nine images of every edge; of the copies `plot_plaquettes` draws with `Plot.polyOffsets`; of `_broadcast_args` with `Plot.broadcast`.
L3: the statement on the real matplotlib artists: every drawn segment is an integer translate of a selected edge, no segment twice, the parts inside the
    unit cell of the drawn images of each edge cover the edge exactly once (exact Liang-Barsky clipping in rational arithmetic: fractions sum to 1), colours by
    label; polygons: every sample point of the cell inside a selected plaquette is covered by exactly one drawn polygon of that plaquette's colour; vertices at
    their positions; labels scalar / full-size / subset-size and subsets as slice / mask / index list give identical artists; arrows follow `directions`.
"""
from __future__ import annotations

import json
import warnings
from fractions import Fraction

import numpy as np

import core
import zoo
from koala import example_graphs as eg
from koala import plotting as pl
from koala import graph_utils as gu
from koala.lattice import Lattice, cut_boundaries


DEFAULT_SCHEME = []     # the library's default colour scheme as a fresh interpreter sees it
CLIPLOG = []          # (start, displacement, fraction) of judged images: compared with the Lean model `Plot.frac` (theorem fractions_sum_one)


def clip_fraction(p, q):
    """exact fraction of the segment p->q (pairs of Fractions) that lies inside the closed unit square (Liang-Barsky)"""
    t0, t1 = Fraction(0), Fraction(1)
    for k in (0, 1):
        d = q[k] - p[k]
        for lo, sign in ((Fraction(0), -1), (Fraction(1), 1)):
            # sign * (p + t d) <= sign * lo  (for sign=-1: p + t d >= 0 ; sign=+1: p + t d <= 1)
            a = sign * d; b = sign * (lo - p[k])
            if a == 0:
                if b < 0:
                    return Fraction(0)
            else:
                t = b / a
                if a > 0:
                    t1 = min(t1, t)
                else:
                    t0 = max(t0, t)
    return max(Fraction(0), t1 - t0)


def fr(x):
    return Fraction(float(x))


def rgba(c):
    import matplotlib.colors as mc
    return tuple(np.round(mc.to_rgba(c), 6))


def edge_artists(l, **kw):
    import matplotlib.pyplot as plt
    fig, ax = plt.subplots()
    try:
        with warnings.catch_warnings():
            warnings.simplefilter("ignore")
            pl.plot_edges(l, ax=ax, **kw)
        lc = ax.collections[0]
        segs = [np.asarray(s) for s in lc.get_segments()]
        cols = [rgba(c) for c in lc.get_colors()]
        if len(cols) == 1 and len(segs) > 1:
            cols = cols * len(segs)
        arrows = [p for p in ax.patches]
        return segs, cols, arrows
    finally:
        plt.close(fig)


def judge_edges(ctx, name, l, subset_idx, labels_full, scheme, segs, cols, rep, check_colours=True):
    """segments / colours of one plot_edges call against the statement"""
    P = l.vertices.positions; E = l.edges.indices; C = l.edges.crossing
    base = {int(i): (P[E[i][0]] - C[i], P[E[i][1]]) for i in subset_idx}
    cover = {int(i): Fraction(0) for i in subset_idx}
    seen = set()
    for s, c in zip(segs, cols):
        owner = None
        for i, (a, b) in base.items():
            k = s[0] - a
            if np.allclose(k, np.round(k), atol=1e-12) and np.allclose(s[1] - b, np.round(k), atol=1e-12):
                owner = (i, tuple(int(x) for x in np.round(k))); break
        if owner is None:
            rep("a drawn segment is not a periodic image of a selected edge", segment=s.tolist()); return False
        if owner in seen:
            rep(f"image {owner[1]} of edge {owner[0]} is drawn twice"); return False
        seen.add(owner)
        i, k = owner
        a, b = base[i]
        p = (fr(a[0]) + k[0], fr(a[1]) + k[1]); q = (fr(b[0]) + k[0], fr(b[1]) + k[1])
        f = clip_fraction(p, q)
        cover[i] += f
        if len(CLIPLOG) < 4000:
            CLIPLOG.append((p, (q[0] - p[0], q[1] - p[1]), f))
        want = rgba(scheme[int(labels_full[i])])
        if check_colours and c != want:
            rep(f"image of edge {i} is drawn in colour {c}, its label {int(labels_full[i])} selects {want}"); return False
    bad = [i for i, f in cover.items() if f != 1]
    if bad:
        rep(f"the drawn pieces of edge {bad[0]} inside the unit cell cover {float(cover[bad[0]])} of its length (expected exactly 1)", edge=bad[0]); return False
    return True


def clip_area_exact(pts, off):
    """exact area (Fractions) of the part of the polygon pts + off that lies in the closed unit cell (Sutherland-Hodgman against the four walls)"""
    poly = [(Fraction(float(x)) + off[0], Fraction(float(y)) + off[1]) for x, y in pts]
    for axis, bound, keep_less in ((0, Fraction(0), False), (0, Fraction(1), True), (1, Fraction(0), False), (1, Fraction(1), True)):
        out = []
        for k in range(len(poly)):
            a, b = poly[k - 1], poly[k]
            ina = a[axis] <= bound if keep_less else a[axis] >= bound
            inb = b[axis] <= bound if keep_less else b[axis] >= bound
            if ina != inb:
                t = (bound - a[axis]) / (b[axis] - a[axis])
                out.append((a[0] + t * (b[0] - a[0]), a[1] + t * (b[1] - a[1])))
            if inb:
                out.append(b)
        poly = out
        if not poly:
            return Fraction(0)
    return abs(sum(poly[k - 1][0] * poly[k][1] - poly[k][0] * poly[k - 1][1] for k in range(len(poly)))) / 2


def judge_polygons(idx, ref, drawn, rep):
    """every periodic image of a selected plaquette that meets the cell in positive area is drawn, each drawn polygon is such an image, none twice"""
    by = {}
    for i, col, path in drawn:
        by.setdefault(i, []).append(np.asarray(path.vertices, dtype=float))
    for i, pts in ref:
        offs = []
        for V in by.get(i, []):
            o = np.round(V.mean(axis=0) - pts.mean(axis=0)) if len(V) == len(pts) else None
            if o is None or sorted(map(tuple, np.round(V - o, 9))) != sorted(map(tuple, np.round(pts, 9))):
                rep(f"a polygon drawn for plaquette {i} is not a periodic image of that plaquette"); return False
            offs.append((int(o[0]), int(o[1])))
        if len(set(offs)) != len(offs):
            rep(f"plaquette {i} is drawn twice at the same place (image offsets {sorted(offs)})"); return False
        lo, hi = pts.min(axis=0), pts.max(axis=0)
        for ox in range(-3, 4):
            for oy in range(-3, 4):
                if lo[0] + ox >= 1 or hi[0] + ox <= 0 or lo[1] + oy >= 1 or hi[1] + oy <= 0 or (ox, oy) in offs:
                    continue
                a = clip_area_exact(pts, (ox, oy))
                if a > 0:
                    rep(f"the image of plaquette {i} shifted by {(ox, oy)} meets the unit cell in area {float(a):.3e} (exact clipping) but is not drawn: points of the "
                        f"cell inside a selected plaquette are covered by no polygon", plaquette=int(i), offset=[ox, oy]); return False
    return True


def q4(x):
    f = Fraction(float(x))
    return [f.numerator, f.denominator]


def vis_margin(s, e):
    """smallest distance of any quantity the code's visibility test compares from its threshold, in exact arithmetic (pairs of Fractions): the tie excludes
    images for which a float rounding could change a comparison"""
    m = min(abs(c - w) for c in (*s, *e) for w in (0, 1))
    for a in (0, 1):
        b = 1 - a
        for l in (0, 1):
            if s[a] == e[a]:
                continue
            t = (l - e[a]) / (s[a] - e[a])
            other = s[b] * t + (1 - t) * e[b]
            m = min(m, abs(t), abs(t - 1))
            if 0 < t <= 1:
                m = min(m, abs(other), abs(other - 1))
    return m


def tie_visibility(ctx, lats):
    """`_lines_cross_unit_cell | _line_fully_in_unit_cell` on the nine images of every edge, and the copies `plot_plaquettes` draws of every plaquette, against the
    Lean models `Plot.visible` / `Plot.polyOffsets` (theorems meets_visible, drawn_fractions_sum_one, needed_copies_drawn, polyOffsets_nodup)"""
    import matplotlib.pyplot as plt
    if not (hasattr(pl, "_lines_cross_unit_cell") and hasattr(pl, "_line_fully_in_unit_cell")):
        ctx.count("tie_downgraded_visibility_helpers_not_found")
    else:
        cases, meta = [], []
        for name, l in lats:
            ev = l.vertices.positions[l.edges.indices].astype(float)
            ev[:, 0, :] -= l.edges.crossing
            offs = np.array([[i, j] for i in (-1, 0, 1) for j in (-1, 0, 1)], dtype=float)[:, None, None, :]
            lines = (ev[None, ...] + offs).reshape(-1, 2, 2)
            try:
                got = np.asarray(pl._lines_cross_unit_cell(lines.copy())) | np.asarray(pl._line_fully_in_unit_cell(lines.copy()))
            except Exception as ex:
                ctx.corr_break(f"{name}: the visibility helpers raised {type(ex).__name__}: {ex}", dict(case=name)); continue
            for k, ln in enumerate(lines):
                S = (Fraction(float(ln[0, 0])), Fraction(float(ln[0, 1]))); E_ = (Fraction(float(ln[1, 0])), Fraction(float(ln[1, 1])))
                if vis_margin(S, E_) < Fraction(1, 10 ** 9):
                    ctx.count("visibility_images_excluded_non_generic"); continue
                cases.append(q4(ln[0, 0]) + q4(ln[0, 1]) + q4(ln[1, 0]) + q4(ln[1, 1])); meta.append((name, k, bool(got[k]), ln))
        if cases:
            o = core.Driver().run([dict(op="visible", cases=cases)])[0]
            if "err" in o:
                ctx.corr_break(f"visibility model error {o['err']}", dict(case="visible"))
            else:
                nvis = 0
                for (name, k, g, ln), m in zip(meta, o["vis"]):
                    nvis += bool(m)
                    if g != bool(m):
                        ctx.corr_break(f"{name}: image #{k} {ln.tolist()} - the code's mask says {'drawn' if g else 'not drawn'}, the model Plot.visible says {'drawn' if m else 'not drawn'}",
                                       dict(case=name, image=ln.tolist())); break
                ctx.count("visibility_images_compared_with_model", len(cases)); ctx.count("visibility_images_visible", nvis)
    polys, meta = [], []
    for name, l in lats:
        try:
            F = l.n_plaquettes
        except Exception:
            continue
        if not F:
            continue
        fig, ax = plt.subplots()
        try:
            with warnings.catch_warnings():
                warnings.simplefilter("ignore")
                colls = pl.plot_plaquettes(l, ax=ax)
            for i, cc in enumerate(colls):
                p = l.plaquettes[i]
                vec = l.edges.vectors[p.edges] * p.directions[:, None]
                pts = l.vertices.positions[p.vertices[0]] + np.cumsum(vec, 0)
                if min(abs(float(c) - w) for c in pts.flatten() for w in (0, 1)) < 1e-9:
                    ctx.count("polygon_copies_excluded_corner_on_a_wall_line"); continue
                offs = []
                for path in cc.get_paths():
                    V = path.vertices[:-1] if len(path.vertices) == len(pts) + 1 else path.vertices
                    offs.append([int(x) for x in np.round(V.mean(axis=0) - pts.mean(axis=0))])
                polys.append([q4(x) + q4(y) for x, y in pts]); meta.append((name, i, sorted(offs)))
        except Exception as ex:
            ctx.corr_break(f"{name}: plot_plaquettes raised {type(ex).__name__}: {ex}", dict(case=name))
        finally:
            plt.close(fig)
    if polys:
        o = core.Driver().run([dict(op="polyoffsets", polys=polys)])[0]
        if "err" in o:
            ctx.corr_break(f"polygon-copies model error {o['err']}", dict(case="polyoffsets"))
        else:
            multi = 0
            for (name, i, offs), m in zip(meta, o["offsets"]):
                multi += len(m) > 1
                if offs != sorted(m):
                    ctx.corr_break(f"{name}: plaquette {i} is drawn at offsets {offs}, the model Plot.polyOffsets gives {sorted(m)}", dict(case=name, plaquette=i)); break
            ctx.count("polygon_copy_sets_compared_with_model", len(polys)); ctx.count("polygons_drawn_more_than_once", multi)


def subsets_for(rng, n):
    k = max(1, n // 3)
    idx = np.sort(rng.choice(n, size=k, replace=False))
    mask = np.zeros(n, dtype=bool); mask[idx] = True
    perm = rng.permutation(n)
    uns = rng.permutation(idx)
    return [("all", slice(None, None, None), np.arange(n)), ("slice", slice(1, n, 2), np.arange(n)[1:n:2]), ("mask", mask, idx), ("indices", idx, idx),
            ("mask as a list of bools", mask.tolist(), idx), ("indices as a list", idx.tolist(), idx),          # (a tuple is a multi-axis index for numpy, not a subset)
            ("indices uint8", idx.astype(np.uint8) if n <= 256 else idx.astype(np.uint16), idx),
            ("all-permuted", perm, perm), ("all-reversed", np.arange(n)[::-1].copy(), np.arange(n)[::-1].copy()), ("indices-unsorted", uns, uns),
            ("reversed-slice", slice(None, None, -1), np.arange(n)[::-1])]


def check_lattice(ctx, rng, name, l):
    import matplotlib.pyplot as plt
    scheme = np.array(["#1b9e77", "#d95f02", "#7570b3", "#e7298a"])
    nE = l.n_edges
    labels_full = rng.integers(0, 4, size=nE)
    if np.any(np.abs(l.edges.vectors) >= 1):
        ctx.count("precondition_excluded_edge_spanning_a_cell"); return
    for sname, subset, idx in subsets_for(rng, nE):
        rep = lambda what, **kw: ctx.impl_violation(f"{name} [edges, subset={sname}]: {what}", dict(case=name, what="edges", subset=sname, lattice=zoo.lat_to_json(l), **kw))
        variants = {"full": labels_full, "subset": labels_full[idx], "scalar": 2}
        results = {}
        for vname, lab in variants.items():
            try:
                segs, cols, _ = edge_artists(l, labels=lab, color_scheme=scheme, subset=subset)
            except Exception as ex:
                rep(f"plot_edges raised {type(ex).__name__}: {ex} (labels given as {vname})"); results = None; break
            results[vname] = (segs, cols)
        if results is None:
            continue
        lf = labels_full if True else None
        if not judge_edges(ctx, name, l, idx, labels_full, scheme, *results["full"], rep):
            continue
        if len(idx) != nE:
            a = sorted((tuple(np.round(s.flatten(), 12)), c) for s, c in zip(*results["full"]))
            b = sorted((tuple(np.round(s.flatten(), 12)), c) for s, c in zip(*results["subset"]))
            if a != b:
                rep("labels given per subset element draw something different from labels given per element"); continue
        if not judge_edges(ctx, name, l, idx, np.full(nE, 2), scheme, *results["scalar"], rep):
            continue
        ctx.case((name, "edges", sname), nontrivial=bool(np.any(l.edges.crossing[idx] != 0)), sample=dict(case=name, subset=sname, drawn=len(results["full"][0])))
    # ---- colour schemes in the other forms matplotlib understands: translucent hex strings, RGBA rows, RGB rows, names, grey levels - each piece carries
    #      exactly the selected colour, alpha included
    for cname, sch in (("#RRGGBBAA strings", np.array(["#1b9e7780", "#d95f02ff", "#7570b340", "#e7298a01"])), ("RGBA rows", np.array([[0.1, 0.2, 0.3, 0.5], [0.9, 0.1, 0.1, 1.0], [0.0, 0.5, 0.5, 0.25], [0.3, 0.3, 0.3, 0.0]])),
                       ("RGB rows", np.array([[0.1, 0.2, 0.3], [0.9, 0.1, 0.1], [0.0, 0.5, 0.5], [0.3, 0.3, 0.3]])), ("names", np.array(["tab:blue", "k", "orange", "xkcd:sky blue"])),
                       ("a list of RGBA tuples", [(0.1, 0.2, 0.3, 0.5), (0.9, 0.1, 0.1, 1.0), (0.0, 0.5, 0.5, 0.25), (0.3, 0.3, 0.3, 0.125)])):
        rep = lambda what, **kw: ctx.impl_violation(f"{name} [edges, colour scheme given as {cname}]: {what}", dict(case=name, what="edges", scheme=cname, lattice=zoo.lat_to_json(l), **kw))
        try:
            segs, cols, _ = edge_artists(l, labels=labels_full, color_scheme=sch)
        except Exception as ex:
            ctx.count("colour_scheme_form_rejected"); continue      # a form the library does not take is outside the input space
        judge_edges(ctx, name, l, np.arange(nE), labels_full, list(sch), segs, cols, rep)
        ctx.case((name, "edges-scheme", cname), nontrivial=True)
    # arrows
    dirs = rng.choice([-1, 1], size=nE)
    rep = lambda what, **kw: ctx.impl_violation(f"{name} [arrows]: {what}", dict(case=name, what="arrows", lattice=zoo.lat_to_json(l), **kw))
    try:
        segs, cols, arrows = edge_artists(l, labels=labels_full, color_scheme=scheme, directions=dirs)
        if len(arrows) != len(segs):
            rep(f"{len(arrows)} arrows for {len(segs)} drawn segments")
        # the direction arrows are an extra: the segments drawn with them are judged exactly like those drawn without (a scalar direction as well)
        elif judge_edges(ctx, name, l, np.arange(nE), labels_full, scheme, segs, cols, rep):
            segs1, cols1, _ = edge_artists(l, labels=labels_full, color_scheme=scheme, directions=1)
            judge_edges(ctx, name, l, np.arange(nE), labels_full, scheme, segs1, cols1, rep)
        ctx.case((name, "arrows"), nontrivial=True)
    except Exception as ex:
        rep(f"plot_edges with directions raised {type(ex).__name__}: {ex}")
    # ---- the default colour scheme, before and after calls that use the color= override (with the default scheme, a list scheme and an array scheme):
    #      the override applies to that call only
    rep = lambda what, **kw: ctx.impl_violation(f"{name} [default scheme / color=]: {what}", dict(case=name, what="color-override", lattice=zoo.lat_to_json(l), **kw))
    try:
        default = [rgba(c) for c in DEFAULT_SCHEME]
        lab3 = labels_full % min(3, len(default))
        seq_ok = True
        user_list = ["#1b9e77", "#d95f02", "#7570b3", "#e7298a"]; user_arr = np.array(user_list)
        for step, kw in enumerate((dict(), dict(color="black"), dict(), dict(color="#123456", color_scheme=user_list), dict(color_scheme=user_list), dict(color="k", color_scheme=user_arr),
                                   dict(color_scheme=user_arr), dict())):
            segs, cols, _ = edge_artists(l, labels=lab3, **kw)
            want_scheme = [rgba(c) for c in kw.get("color_scheme", DEFAULT_SCHEME)]
            # what color= does to the colours of its own call is not part of the statement (matplotlib applies it to the whole collection): only the geometry of
            # those calls is judged; the calls after them must again show the colours selected by the labels
            if not judge_edges(ctx, name, l, np.arange(nE), lab3, want_scheme, segs, cols, rep, check_colours="color" not in kw):
                seq_ok = False; break
        if seq_ok and (user_list != ["#1b9e77", "#d95f02", "#7570b3", "#e7298a"] or user_arr.tolist() != user_list):
            rep("a colour scheme passed by the caller was modified by the color= override")
        ctx.case((name, "color-override"), nontrivial=True)
    except Exception as ex:
        rep(f"raised {type(ex).__name__}: {ex}")
    # ---- plaquettes
    try:
        F = l.n_plaquettes
    except Exception:
        F = 0
    if F:
        plab = rng.integers(0, 4, size=F)
        for sname, subset, idx in subsets_for(rng, F):
            rep = lambda what, **kw: ctx.impl_violation(f"{name} [plaquettes, subset={sname}]: {what}", dict(case=name, what="plaquettes", subset=sname, lattice=zoo.lat_to_json(l), **kw))
            fig, ax = plt.subplots()
            try:
                with warnings.catch_warnings():
                    warnings.simplefilter("ignore")
                    colls = pl.plot_plaquettes(l, labels=plab, color_scheme=scheme, subset=subset, ax=ax)
                from matplotlib.path import Path as MPath
                drawn = []
                for i, c in zip(idx, colls):
                    col = rgba(c.get_facecolor()[0])
                    for path in c.get_paths():
                        drawn.append((int(i), col, MPath(path.vertices[:-1] if np.allclose(path.vertices[0], path.vertices[-1]) else path.vertices)))
                # reference: periodic images of the selected plaquettes
                ref = []
                for i in idx:
                    p = l.plaquettes[i]
                    vec = l.edges.vectors[p.edges] * p.directions[:, None]
                    pts = l.vertices.positions[p.vertices[0]] + np.cumsum(vec, 0)
                    ref.append((int(i), pts))
                G = 17
                samples = [((a + 0.37) / G, (b + 0.61) / G) for a in range(G) for b in range(G)]
                ok = judge_polygons(idx, ref, drawn, rep)
                if not ok:
                    samples = []
                for pt in samples:
                    want = [i for i, pts in ref for ox in (-1, 0, 1) for oy in (-1, 0, 1) if MPath(pts + np.array([ox, oy])).contains_point(pt)]
                    got = [(i, col) for i, col, path in drawn if path.contains_point(pt)]
                    if sorted(want) != sorted(i for i, _ in got):
                        rep(f"point {pt} lies in plaquette(s) {sorted(want)} of the selection but is covered by drawn polygons of {sorted(i for i, _ in got)}"); ok = False; break
                    if any(col != rgba(scheme[int(plab[i])]) for i, col in got):
                        rep(f"polygon covering {pt} has the wrong colour"); ok = False; break
                if ok:
                    ctx.case((name, "plaquettes", sname), nontrivial=True)
            except Exception as ex:
                rep(f"plot_plaquettes raised {type(ex).__name__}: {ex}")
            finally:
                plt.close(fig)
    # ---- vertices
    fig, ax = plt.subplots()
    try:
        vlab = rng.integers(0, 4, size=l.n_vertices)
        for vname, idx in (("half", np.sort(rng.choice(l.n_vertices, size=max(1, l.n_vertices // 2), replace=False))), ("all-permuted", rng.permutation(l.n_vertices)),
                           ("all-reversed", np.arange(l.n_vertices)[::-1].copy())):
            ax.clear()
            with warnings.catch_warnings():
                warnings.simplefilter("ignore")
                pl.plot_vertices(l, labels=vlab, color_scheme=scheme, subset=idx, ax=ax)
            sc = ax.collections[0]
            if not np.array_equal(np.asarray(sc.get_offsets()), l.vertices.positions[idx]) or [rgba(c) for c in sc.get_facecolors()] != [rgba(scheme[int(vlab[i])]) for i in idx]:
                ctx.impl_violation(f"{name} [vertices, subset={vname}]: vertices are not drawn at their positions in their label's colour", dict(case=name, what="vertices", subset=idx.tolist(), lattice=zoo.lat_to_json(l)))
            ctx.case((name, "vertices", vname), nontrivial=True)
    finally:
        plt.close(fig)


def run(ctx):
    import matplotlib
    matplotlib.use("Agg")
    ctx.rule = ("one evaluation = one plotting call (lattice, element kind, subset form, label form) judged on its matplotlib artists, or one segment pair of the "
                "intersection helper compared with the exact model; non-trivial = selection containing boundary-crossing elements; distinct by the call")
    ctx.run_audit()
    global DEFAULT_SCHEME
    ref = core.fresh_eval(["np.array(list(pl.colourblind_friendly_scheme) if hasattr(pl, 'colourblind_friendly_scheme') else [])"], preamble="import numpy as np\nfrom koala import plotting as pl")[0]
    DEFAULT_SCHEME = [str(x) for x in ref] if not isinstance(ref, Exception) and len(ref) else [str(x) for x in getattr(pl, "colourblind_friendly_scheme", [])]
    rng = np.random.default_rng(ctx.seed)
    quick = ctx.tier == "quick"
    lats = [("honey2", eg.honeycomb_lattice(2)), ("hso1", eg.hex_square_oct_lattice(1)), ("square23", eg.square_lattice(2, 3)), ("trinon2", eg.tri_non_lattice(2)),
            ("two_triangles", eg.two_triangles()), ("ladder5", eg.n_ladder(5, True))]
    for N in ([4, 9, 16] if quick else [3, 4, 6, 9, 12, 16, 25, 40]):
        l = zoo.voronoi(rng, N)
        lats += [(f"vor{N}", l), (f"vor{N}-xy", cut_boundaries(l)), (f"vor{N}-x", cut_boundaries(l, [True, False]))]
    for name, l in lats:
        l = zoo.rebuild(l)
        if zoo.has_self_loop(l) or l.n_edges < 3:
            continue
        ctx.count("lattices")
        check_lattice(ctx, rng, name, l)
    # ---- geometry classes that few lattices contain: edges through a cell corner with crossing (+1,-1) / (-1,+1) / (+-1,+-1), plaquettes that wrap round a cell
    #      corner (meeting three or four of the cells there).  Many Voronoi lattices and their duals, full selection only (cheap), counted by class.
    import matplotlib.pyplot as plt
    scheme = np.array(["#1b9e77", "#d95f02", "#7570b3", "#e7298a"])
    extra = []
    for t in range(14 if quick else 80):
        l = zoo.voronoi(rng, int(rng.integers(12, 36)))
        extra.append((f"vor-geo#{t}", l))
        if t % 4 == 0:
            try:
                extra.append((f"dual-geo#{t}", gu.make_dual(zoo.voronoi(rng, int(rng.integers(16, 36))))))
            except Exception:
                pass
    found = 0
    for t in range(300):                                  # make sure the rarest class (anti-diagonal corner edges) is present whatever the seed
        if found >= (3 if quick else 12):
            break
        l = zoo.voronoi(rng, int(rng.integers(10, 36)))
        c = l.edges.crossing
        if np.any(c[:, 0] * c[:, 1] == -1):
            extra.append((f"vor-antidiag#{found}", l)); found += 1
    # non-convex plaquettes lying across the cell walls (a wall meets their boundary four or more times): rings through random star-shaped polygons and combs
    for t in range(10 if quick else 60):
        extra.append((f"star-ring#{t}", zoo.star_ring(rng)))
        if t % 2 == 0:
            extra.append((f"comb-ring#{t}", zoo.comb_ring(rng)))
    # plaquettes that are large compared with the cell (corners more than half a cell from the centroid): big rings, the library's concave example, sheared cells
    for t in range(6 if quick else 40):
        extra.append((f"big-ring#{t}", zoo.big_ring(rng)))
    extra += [("concave", eg.concave_plaquette()), ("trinon2-sheared", zoo.sheared(eg.tri_non_lattice(2))), ("honey2-sheared", zoo.sheared(eg.honeycomb_lattice(2), 1)),
              ("hso2-sheared", zoo.sheared(eg.hex_square_oct_lattice(2), 1))]
    for name, l in extra:
        l = zoo.rebuild(l)
        if np.any(np.abs(l.edges.vectors) >= 1):
            ctx.count("extra_lattices_excluded_edge_spanning_a_cell"); continue
        c = l.edges.crossing
        if np.any(c[:, 0] * c[:, 1] == -1): ctx.count("lattices_with_antidiagonal_corner_edges")
        if np.any(c[:, 0] * c[:, 1] == 1): ctx.count("lattices_with_diagonal_corner_edges")
        labels_full = rng.integers(0, 4, size=l.n_edges)
        rep = lambda what, **kw: ctx.impl_violation(f"{name} [edges, all]: {what}", dict(case=name, what="edges", subset="all", lattice=zoo.lat_to_json(l), **kw))
        try:
            segs, cols, _ = edge_artists(l, labels=labels_full, color_scheme=scheme)
            if judge_edges(ctx, name, l, np.arange(l.n_edges), labels_full, scheme, segs, cols, rep):
                ctx.case((name, "edges", "all"), nontrivial=bool(np.any(c != 0)))
        except Exception as ex:
            rep(f"plot_edges raised {type(ex).__name__}: {ex}")
        F = l.n_plaquettes
        plab = rng.integers(0, 4, size=F)
        rep = lambda what, **kw: ctx.impl_violation(f"{name} [plaquettes, all]: {what}", dict(case=name, what="plaquettes", subset="all", lattice=zoo.lat_to_json(l), **kw))
        fig, ax = plt.subplots()
        try:
            with warnings.catch_warnings():
                warnings.simplefilter("ignore")
                colls = pl.plot_plaquettes(l, labels=plab, color_scheme=scheme, ax=ax)
            drawn, ref = [], []
            for i, cc in zip(range(F), colls):
                for path in cc.get_paths():
                    V = path.vertices[:-1] if np.allclose(path.vertices[0], path.vertices[-1]) else path.vertices
                    drawn.append((i, rgba(cc.get_facecolor()[0]), type("P", (), dict(vertices=V))()))
                if rgba(cc.get_facecolor()[0]) != rgba(scheme[int(plab[i])]):
                    rep(f"plaquette {i} is drawn in the wrong colour"); break
            for i in range(F):
                p = l.plaquettes[i]
                vec = l.edges.vectors[p.edges] * p.directions[:, None]
                ref.append((i, l.vertices.positions[p.vertices[0]] + np.cumsum(vec, 0)))
            ncell = sum(1 for i, pts in ref if (np.floor(pts.min(axis=0)) != np.floor(pts.max(axis=0))).all())
            if ncell: ctx.count("plaquettes_wrapping_round_a_cell_corner", ncell)
            nbig = sum(1 for i, pts in ref if np.any(np.abs(pts - np.asarray(l.plaquettes[i].center)) > 0.5))
            if nbig: ctx.count("plaquettes_with_a_corner_more_than_half_a_cell_from_the_centre", nbig)
            nmulti = 0
            for i, pts in ref:
                q = np.vstack([pts, pts[:1]])
                for ax_ in (0, 1):
                    for w in (0, 1):
                        if np.sum((q[:-1, ax_] - w) * (q[1:, ax_] - w) < 0) > 2:
                            nmulti += 1
            if nmulti: ctx.count("plaquette_walls_crossed_more_than_twice", nmulti)
            if judge_polygons(range(F), ref, drawn, rep):
                ctx.case((name, "plaquettes", "all"), nontrivial=True)
        except Exception as ex:
            rep(f"plot_plaquettes raised {type(ex).__name__}: {ex}")
        finally:
            plt.close(fig)
    # ---- the visible-image rules against the Lean models
    tie_visibility(ctx, [(n, zoo.rebuild(l)) for n, l in lats if not zoo.has_self_loop(l) and l.n_edges >= 3] +
                   [(n, zoo.rebuild(l)) for n, l in extra if not np.any(np.abs(l.edges.vectors) >= 1)])
    # ---- label broadcasting (`_broadcast_args`) against the model, on the function itself: scalar / full-size / subset-size / wrong-size arguments x subsets
    #      given as slice, mask, sorted / unsorted / permuted index lists, empty selections
    bc_cases, bc_meta = [], []
    for t in range(60 if quick else 600):
        N = int(rng.integers(1, 9))
        kind = int(rng.integers(6))
        if kind == 0: subset = slice(None, None, None)
        elif kind == 1: subset = slice(int(rng.integers(0, N)), None, int(rng.integers(1, 3)))
        elif kind == 2: subset = rng.random(N) < 0.5
        elif kind == 3: subset = np.sort(rng.choice(N, size=int(rng.integers(0, N + 1)), replace=False))
        elif kind == 4: subset = rng.permutation(N)
        else: subset = rng.permutation(N)[: int(rng.integers(0, N + 1))]
        idx = np.arange(N)[subset]
        form = int(rng.integers(4))
        if form == 0: arg = int(rng.integers(-3, 9)); jarg = dict(x=arg)
        elif form == 1: arg = rng.integers(-3, 9, size=N); jarg = dict(xs=arg.tolist())
        elif form == 2: arg = rng.integers(-3, 9, size=len(idx)); jarg = dict(xs=arg.tolist())
        else: arg = rng.integers(-3, 9, size=int(rng.integers(0, N + 3))); jarg = dict(xs=arg.tolist())
        try:
            got = [int(x) for x in pl._broadcast_args(arg if form == 0 else arg.copy(), subset, N, int)]
        except ValueError:
            got = None
        except Exception as ex:
            got = ("EXC", type(ex).__name__)
        bc_cases.append(dict(N=N, subset=[int(i) for i in idx], **jarg)); bc_meta.append((N, subset, arg, got))
    if hasattr(pl, "_broadcast_args"):
        o = core.Driver().run([dict(op="broadcast", cases=bc_cases)])[0]
        if "err" in o:
            ctx.corr_break(f"broadcast model error {o['err']}", dict(case="broadcast"))
        else:
            for (N, subset, arg, got), want in zip(bc_meta, o["out"]):
                if got != want:
                    ctx.corr_break(f"_broadcast_args(N={N}, subset={np.asarray(subset).tolist() if not isinstance(subset, slice) else subset}, arg={np.asarray(arg).tolist()}) gives {got}, the model {want}",
                                   dict(case="broadcast", N=N, arg=np.asarray(arg).tolist())); break
            else:
                ctx.count("broadcast_cases_compared_with_model", len(bc_cases))
    # ---- the oracle's clip fractions against the model's `frac` (exact on both sides)
    if CLIPLOG:
        cases = [[p[0].numerator, p[0].denominator, p[1].numerator, p[1].denominator, d[0].numerator, d[0].denominator, d[1].numerator, d[1].denominator] for p, d, _ in CLIPLOG]
        o = core.Driver().run([dict(op="clipfrac", cases=cases)])[0]
        if "err" in o:
            ctx.corr_break(f"clip model error {o['err']}", dict(case="clipfrac"))
        else:
            bad = [k for k, ((_, _, f), (n, dd)) in enumerate(zip(CLIPLOG, o["frac"])) if f != Fraction(int(n), int(dd))]
            if bad:
                p0, d0, f0 = CLIPLOG[bad[0]]
                ctx.corr_break(f"the harness's clip fraction {f0} of the segment {p0} + t {d0} differs from the model's {o['frac'][bad[0]]}", dict(case="clipfrac"))
            else:
                ctx.count("clip_fractions_compared_with_model", len(CLIPLOG))
    # ---- intersection helper on rational segments in general position
    G = 64
    n = 200 if quick else 3000
    pts = rng.integers(-G, 2 * G, size=(n, 4, 2))
    # a few designed cases: touching at an end point, T-junctions, far apart, crossing at the middle
    special = [[[0, 0], [G, G], [0, G], [G, 0]], [[0, 0], [G, 0], [G // 2, 0], [G // 2, G]], [[0, 0], [G, 0], [0, 1], [G, 2]], [[0, 0], [G, G], [G, G], [2 * G, 0]],
               [[0, 0], [1, G], [2, 0], [3, G + 1]]]
    # exactly vertical / horizontal segments, as first argument, as second, and as both (perpendicular)
    axis = []
    for t in range(40 if quick else 400):
        x0, y0, y1 = int(rng.integers(-G, 2 * G)), int(rng.integers(-G, 2 * G)), int(rng.integers(-G, 2 * G))
        if y0 == y1:
            continue
        vert = [[x0, y0], [x0, y1]]
        other = rng.integers(-G, 2 * G, size=(2, 2)).tolist() if t % 3 else [[x0 - int(rng.integers(1, G)), (y0 + y1) // 2], [x0 + int(rng.integers(1, G)), (y0 + y1) // 2 + int(t % 2)]]
        pair = [vert, other] if t % 2 else [other, vert]
        if t % 5 == 0:                                               # the same with x and y exchanged: horizontal segments
            pair = [[[p[1], p[0]] for p in seg] for seg in pair]
        axis.append(pair[0] + pair[1])
    special = special + axis
    allp = np.concatenate([np.array(special), pts])
    lines1 = allp[:, 0:2, :] / G; lines2 = allp[:, 2:4, :] / G
    got = [bool(pl.line_intersection(lines1[i:i + 1], lines2[i:i + 1])[0, 0]) for i in range(len(allp))]
    # the same segments with integer coordinates (scaled by G: the verdict does not depend on the scale), as integer arrays, both arguments and one of them
    ints = np.asarray(allp, dtype=np.int64)
    for i in range(len(allp)):
        for lab, a1, a2 in (("int64 / int64", ints[i:i + 1, 0:2, :], ints[i:i + 1, 2:4, :]), ("int32 / float", ints[i:i + 1, 0:2, :].astype(np.int32), ints[i:i + 1, 2:4, :].astype(float))):
            try:
                gi = bool(pl.line_intersection(a1, a2)[0, 0])
            except Exception as ex:
                ctx.impl_violation(f"line_intersection raised {type(ex).__name__}: {ex} for {lab} segment arrays", dict(case=f"pair#{i}", pair=allp[i].tolist(), dtype=lab)); break
            if gi != got[i]:
                s1_, e1_, s2_, e2_ = [tuple(Fraction(int(x)) for x in allp[i][k]) for k in range(4)]
                d1_ = (e1_[0] - s1_[0], e1_[1] - s1_[1]); d2_ = (e2_[0] - s2_[0], e2_[1] - s2_[1]); den_ = d1_[0] * d2_[1] - d1_[1] * d2_[0]
                if den_ != 0:
                    a_ = ((s2_[0] - s1_[0]) * d2_[1] - (s2_[1] - s1_[1]) * d2_[0]) / den_; b_ = ((s2_[0] - s1_[0]) * d1_[1] - (s2_[1] - s1_[1]) * d1_[0]) / den_
                    if min(abs(a_), abs(1 - a_), abs(b_), abs(1 - b_)) > Fraction(1, 10 ** 9):
                        ctx.impl_violation(f"line_intersection gives {gi} for a segment pair with integer coordinates passed as {lab} arrays and {got[i]} for the same pair as floats (scaled by 1/{G})",
                                           dict(case=f"pair#{i}", pair=allp[i].tolist(), dtype=lab)); break
        else:
            continue
        break
    ctx.count("intersection_pairs_as_integer_arrays", len(allp))
    o = core.Driver().run([dict(op="intersect", pairs=allp.tolist())])[0]
    for i, (g, m) in enumerate(zip(got, o["hit"])):
        if m is None:
            ctx.count("intersection_parallel_pairs_excluded"); continue
        # independent exact evaluation (Fractions): do the closed segments share a point?
        s1, e1, s2, e2 = [tuple(Fraction(int(x), G) for x in allp[i][k]) for k in range(4)]
        d1 = (e1[0] - s1[0], e1[1] - s1[1]); d2 = (e2[0] - s2[0], e2[1] - s2[1])
        den = d1[0] * d2[1] - d1[1] * d2[0]
        a = ((s2[0] - s1[0]) * d2[1] - (s2[1] - s1[1]) * d2[0]) / den
        b = ((s2[0] - s1[0]) * d1[1] - (s2[1] - s1[1]) * d1[0]) / den
        exact = 0 <= a <= 1 and 0 <= b <= 1
        tight = min(abs(a), abs(1 - a), abs(b), abs(1 - b)) < Fraction(1, 10 ** 9)
        if exact != m:
            ctx.corr_break(f"segment pair #{i}: the model's verdict {m} differs from exact arithmetic {exact}", dict(pair=allp[i].tolist()))
        elif g != exact and not tight:
            ctx.impl_violation(f"line_intersection gives {g} for a segment pair that {'shares' if exact else 'shares no'} point in exact arithmetic",
                               dict(case=f"pair#{i}", pair=(allp[i] / G).tolist()))
        elif g != m and tight:
            ctx.count("intersection_end_point_contacts_excluded")
        ctx.case(("intersect", i), nontrivial=exact)
    ctx.count("intersection_pairs_compared", len(allp))
    # the same pairs scaled down by exact powers of two (coordinates of order 1e-3 .. 1e-4): the verdict of exact arithmetic does not change, the helper's fixed
    # tolerance (1e-14 on cross products of order 1e-11 and larger here) must not change it either
    for sh in (10, 12, 13):
        sc = 2.0 ** -sh
        for i in range(len(special), min(len(allp), len(special) + (80 if quick else 600))):
            if o["hit"][i] is None:
                continue
            s1, e1, s2, e2 = [tuple(Fraction(int(x), G) for x in allp[i][k]) for k in range(4)]
            d1 = (e1[0] - s1[0], e1[1] - s1[1]); d2 = (e2[0] - s2[0], e2[1] - s2[1])
            den = d1[0] * d2[1] - d1[1] * d2[0]
            a = ((s2[0] - s1[0]) * d2[1] - (s2[1] - s1[1]) * d2[0]) / den
            b = ((s2[0] - s1[0]) * d1[1] - (s2[1] - s1[1]) * d1[0]) / den
            if min(abs(a), abs(1 - a), abs(b), abs(1 - b)) < Fraction(1, 10 ** 6) or abs(den) * Fraction(sc) ** 2 < Fraction(1, 10 ** 12):
                continue                                       # end-point contacts, and pairs that this scale makes parallel within the helper's own tolerance
            g = bool(pl.line_intersection(lines1[i:i + 1] * sc, lines2[i:i + 1] * sc)[0, 0])
            if g != bool(o["hit"][i]):
                ctx.impl_violation(f"line_intersection gives {g} for a segment pair scaled by 2^-{sh} that {'shares a' if o['hit'][i] else 'shares no'} point in exact arithmetic",
                                   dict(case=f"pair#{i}@2^-{sh}", pair=(allp[i] / G * sc).tolist())); break
            ctx.case(("intersect-scaled", sh, i), nontrivial=bool(o["hit"][i]))
    ctx.assumptions += ["matplotlib renders the artists it is handed (LineCollection segments, PolyCollection paths, scatter offsets) - the artists, not pixels, are judged",
                        "the visible-image rule is proved for generic images (meets_visible); images with a compared quantity within 1e-9 of its threshold are excluded from the model tie and judged by exact clipping only",
                        "polygon coverage is decided by exact clipping (Fractions) of every periodic image of every selected plaquette against the unit cell - each image of positive area must be drawn, once - and on a 17x17 generic sample grid with float point-in-polygon tests"]


def replay(ctx, path):
    import matplotlib
    matplotlib.use("Agg")
    j = json.loads(open(path).read())["replay"]
    if "lattice" not in j:
        a = np.array(j["pair"])
        print("line_intersection:", pl.line_intersection(a[None, 0:2], a[None, 2:4])); return 0
    lat = j["lattice"]
    l = Lattice(np.array(lat["pos"], dtype=float) / lat["scale"], np.array(lat["edges"], dtype=int).reshape(-1, 2),
                np.array(lat["cross"], dtype=int).reshape(-1, 2))
    check_lattice(ctx, np.random.default_rng(0), "replay", l)
    print("violations:", [v["what"] for v in ctx.violations])
    return 1 if ctx.violations else 0
