"""C05 - plaquette fluxes are the oriented gauge-invariant product of bond variables.

L1: Props/C05.lean (definition, ±1, complex = real·i^n, labels (translated), gauge invariance for every
    loop-free lattice, single-bond locality, global product law).
L2: translator (fluxes_to_labels) + correspondence of `fluxes_from_ujk` (real/complex) and
    `fluxes_to_labels` with the model on the zoo x random/exhaustive u.
L3: the three consequences evaluated directly on the implementation.
"""
from __future__ import annotations

import itertools
import json

import numpy as np

import core
import zoo
from koala.flux_finder import flux_finder as ff
from koala.lattice import INVALID
from koala import example_graphs as eg
import translate
from props.c01 import min_gap, GAP_MIN


def cases_for(ctx, rng):
    cases = list(zoo.fixed_examples())
    if ctx.tier == "quick":
        cases += zoo.random_cases(rng, 70, max_seeds=30)
        cases += list(zoo.edge_subsets(rng, 60))
    else:
        cases += zoo.random_cases(rng, 500, max_seeds=90)
        cases += list(zoo.edge_subsets(rng, 1500))
    out = []
    for name, fam, l in cases:
        if zoo.has_self_loop(l):
            continue
        try:
            if l.n_plaquettes == 0:
                ctx.count("skipped_no_plaquette")
                continue
        except Exception as ex:
            ctx.impl_violation(f"{name}: plaquettes raised {type(ex).__name__}", dict(case=name, lattice=zoo.lat_to_json(l)))
            continue
        if min_gap(l) < GAP_MIN:
            ctx.count("precondition_excluded_nongeneric"); continue          # the plaquettes themselves depend on a tie-break (C01's genericity margin)
        out.append((name, fam, l))
    return out


def us_for(ctx, rng, l):
    E = l.n_edges
    limit = 10 if ctx.tier == "quick" else 14
    if E <= limit:
        ctx.count("exhaustive_u_lattices")
        return [np.array(u) for u in itertools.product([1, -1], repeat=E)]
    k = 6 if ctx.tier == "quick" else 20
    us = [np.ones(E, dtype=int), -np.ones(E, dtype=int)]
    us += [1 - 2 * rng.integers(0, 2, size=E) for _ in range(k)]
    return us


def oracle(ctx, name, l, u, fl):
    """the statement of C05 on the implementation's own plaquettes / tables"""
    rep = lambda what, **kw: ctx.impl_violation(f"{name}: {what}", dict(case=name, lattice=zoo.lat_to_json(l), u=u.tolist(), **kw))
    # definition
    for i, p in enumerate(l.plaquettes):
        want = 1
        for e, d in zip(p.edges, p.directions):
            want *= -int(u[e]) * int(d)
        if int(fl[i]) != want:
            rep(f"flux of plaquette {i} is {fl[i]}, the oriented product is {want}")
            return False
    return True


def consequences(ctx, rng, name, l, u):
    rep = lambda what, **kw: ctx.impl_violation(f"{name}: {what}", dict(case=name, lattice=zoo.lat_to_json(l), u=u.tolist(), **kw))
    lat_fp = core.lattice_fingerprint(l)
    base = ff.fluxes_from_ujk(l, u)
    ff.fluxes_from_ujk(l, u, real=False)
    if core.lattice_fingerprint(l) != lat_fp:
        rep("fluxes_from_ujk modified the lattice it was given"); return
    # gauge moves (all vertices on small lattices, a sample otherwise)
    vs = range(l.n_vertices) if l.n_vertices <= 40 else rng.choice(l.n_vertices, 25, replace=False)
    for v in vs:
        g = u.copy()
        g[np.any(l.edges.indices == v, axis=1)] *= -1
        if not np.array_equal(ff.fluxes_from_ujk(l, g), base):
            rep(f"gauge move at vertex {v} changes the fluxes", vertex=int(v)); return
    es = range(l.n_edges) if l.n_edges <= 60 else rng.choice(l.n_edges, 40, replace=False)
    adj = l.edges.adjacent_plaquettes
    for e in es:
        f = u.copy(); f[e] *= -1
        changed = set(np.nonzero(ff.fluxes_from_ujk(l, f) != base)[0].tolist())
        want = set(int(p) for p in adj[e] if p != INVALID)
        if changed != want:
            rep(f"flipping bond {e} changed plaquettes {sorted(changed)}, adjacent ones are {sorted(want)}", edge=int(e)); return
    # closed lattice: every dart lies on a plaquette
    if np.all(adj != INVALID) and sum(p.n_sides for p in l.plaquettes) == 2 * l.n_edges:
        ctx.count("closed_lattices_global_product")
        if int(np.prod(base)) != (-1) ** l.n_edges:
            rep(f"product of all fluxes is {int(np.prod(base))}, expected (-1)^E = {(-1) ** l.n_edges}")


def run(ctx):
    ctx.rule = ("zoo lattices with >=1 plaquette x bond configurations (exhaustive for small E, random otherwise), real and complex variant; "
                "non-trivial = lattice with >=2 plaquettes and a u with both signs; distinct by (lattice, u)")
    rep = core.guarded_translate(ctx, translate.regenerate_all, "T-int/T-const", dict(kernels=[], tables=[], changed={}))
    core.note_translation(ctx, [k for k in rep["kernels"] if k["kernel"] == "fluxes_to_labels"])
    ctx.run_audit()
    rng = np.random.default_rng(ctx.seed)
    cases = cases_for(ctx, rng)
    reqs, meta = [], []
    for name, fam, l in cases:
        us = us_for(ctx, rng, l)
        lat = zoo.lat_to_json(l)
        for variant in ("real", "complex"):
            reqs.append(dict(op="fluxes", variant=variant, us=[u.tolist() for u in us], **lat))
            meta.append((name, fam, l, us, variant))
    outs = core.Driver().run_parallel(reqs)
    for (name, fam, l, us, variant), o in zip(meta, outs):
        if "err" in o:
            ctx.corr_break(f"{name}: model error {o['err']}", dict(case=name, lattice=zoo.lat_to_json(l)))
            continue
        for k, (u, mf) in enumerate(zip(us, o["fluxes"])):
            try:
                fl = ff.fluxes_from_ujk(l, u, real=(variant == "real"))
            except Exception as ex:
                ctx.impl_violation(f"{name}: fluxes_from_ujk raised {type(ex).__name__}: {ex}", dict(case=name, lattice=zoo.lat_to_json(l), u=u.tolist()))
                break
            if variant == "real":
                ok = [int(x) for x in fl] == mf
                if not oracle(ctx, name, l, u, fl):
                    break
                lab = ff.fluxes_to_labels(fl)
                if [int(x) for x in lab] != [(1 - int(x)) // 2 for x in fl] or lab.dtype != np.int8:
                    ctx.impl_violation(f"{name}: fluxes_to_labels does not map +1->0, -1->1", dict(case=name, fluxes=[int(x) for x in fl], labels=[int(x) for x in lab]))
                    break
            else:
                ok = all(abs(complex(x) - complex(a, b)) < 1e-12 for x, (a, b) in zip(fl, mf)) and len(fl) == len(mf)
                # statement: complex = real * i^n_sides
                real = ff.fluxes_from_ujk(l, u, real=True)
                for x, r, p in zip(fl, real, l.plaquettes):
                    if abs(complex(x) - int(r) * (1j) ** int(p.n_sides)) > 1e-12:
                        ctx.impl_violation(f"{name}: complex flux {x} != real flux {r} * i^{p.n_sides}", dict(case=name, lattice=zoo.lat_to_json(l), u=u.tolist()))
                        ok = True
                        break
            if not ok:
                ctx.corr_break(f"{name}: {variant} fluxes differ from the model", dict(case=name, lattice=zoo.lat_to_json(l), u=u.tolist(), impl=[str(x) for x in fl], model=mf))
                break
            ctx.case((name, variant, tuple(u.tolist()) if len(u) <= 40 else hash(u.tobytes())),
                     nontrivial=l.n_plaquettes >= 2 and len(set(u.tolist())) == 2,
                     sample=dict(case=name, variant=variant, u=u.tolist()[:12], fluxes=[str(x) for x in fl][:8]))
        if variant == "real":
            u = us[int(rng.integers(len(us)))]
            consequences(ctx, rng, name, l, u)
            ctx.count("family:" + fam)
            if any(p.n_sides % 2 for p in l.plaquettes): ctx.count("lattices_with_odd_plaquettes")
            if any(-1 in p.directions for p in l.plaquettes): ctx.count("lattices_with_backward_darts")
    # ---- one value, many representations: dtype, memory layout, writability, container of the bond configuration must not matter and must be left untouched
    import variants
    for name, fam, l in cases[:: max(1, len(cases) // (25 if ctx.tier == "quick" else 200))]:
        u = 1 - 2 * rng.integers(0, 2, size=l.n_edges)
        try:
            base_r, base_c = ff.fluxes_from_ujk(l, u), ff.fluxes_from_ujk(l, u, real=False)
        except Exception:
            continue
        # the flag selecting the variant in other spellings of the same truth value (the result of a numpy comparison, 0 / 1)
        for lab, flag, want in (("np.False_", np.False_, base_c), ("np.bool_(False)", np.bool_(False), base_c), ("0", 0, base_c), ("np.True_", np.True_, base_r), ("1", 1, base_r)):
            try:
                got = ff.fluxes_from_ujk(l, u, real=flag)
            except Exception as ex:
                ctx.impl_violation(f"{name}: fluxes_from_ujk(real={lab}) raises {type(ex).__name__}: {ex}", dict(case=name, lattice=zoo.lat_to_json(l), u=u.tolist(), real=lab)); break
            if np.iscomplexobj(got) != np.iscomplexobj(want) or not np.allclose(got, want, atol=1e-12):
                ctx.impl_violation(f"{name}: fluxes_from_ujk(real={lab}) is not the {'complex' if np.iscomplexobj(want) else 'real'} variant", dict(case=name, lattice=zoo.lat_to_json(l), u=u.tolist(), real=lab)); break
            ctx.case((name, "flag", lab), nontrivial=True)
        for lab, uv in variants.of_array(u):
            keep = np.array(uv).copy()
            try:
                r, c = ff.fluxes_from_ujk(l, uv), ff.fluxes_from_ujk(l, uv, real=False)
            except Exception as ex:
                ctx.impl_violation(f"{name}: fluxes_from_ujk raises {type(ex).__name__}: {ex} when the bonds are passed as {lab}", dict(case=name, lattice=zoo.lat_to_json(l), u=u.tolist(), representation=lab)); break
            if not (np.array_equal(r, base_r) and np.allclose(c, base_c, atol=1e-12)):
                ctx.impl_violation(f"{name}: fluxes change when the same bonds are passed as {lab}", dict(case=name, lattice=zoo.lat_to_json(l), u=u.tolist(), representation=lab)); break
            if not variants.untouched(lab, keep, uv):
                ctx.impl_violation(f"{name}: fluxes_from_ujk modified its bond argument ({lab})", dict(case=name, lattice=zoo.lat_to_json(l), u=u.tolist(), representation=lab)); break
            ctx.case((name, "repr", lab), nontrivial=True)
    # ---- churn: lattices built, used once and dropped, so that object addresses are re-used (stale state keyed on identity, e.g. id(lattice), shows up
    #      here and nowhere else: everything above keeps its lattices alive)
    import gc
    for t in range(60 if ctx.tier == "quick" else 600):
        l = zoo.voronoi(rng, int(rng.integers(3, 16)))
        name = f"churn#{t}(V={l.n_vertices})"
        for _ in range(2):
            u = 1 - 2 * rng.integers(0, 2, size=l.n_edges)
            try:
                fl = ff.fluxes_from_ujk(l, u)
                flc = ff.fluxes_from_ujk(l, u, real=False)
            except Exception as ex:
                ctx.impl_violation(f"{name}: fluxes_from_ujk raised {type(ex).__name__}: {ex} on a freshly built lattice", dict(case=name, lattice=zoo.lat_to_json(l), u=u.tolist()))
                break
            if len(fl) != l.n_plaquettes or not oracle(ctx, name, l, u, fl):
                if len(fl) != l.n_plaquettes:
                    ctx.impl_violation(f"{name}: {len(fl)} fluxes for {l.n_plaquettes} plaquettes on a freshly built lattice", dict(case=name, lattice=zoo.lat_to_json(l), u=u.tolist()))
                break
            if any(abs(complex(x) - int(r) * (1j) ** int(p.n_sides)) > 1e-12 for x, r, p in zip(flc, fl, l.plaquettes)):
                ctx.impl_violation(f"{name}: complex flux differs from real flux * i^sides on a freshly built lattice", dict(case=name, lattice=zoo.lat_to_json(l), u=u.tolist()))
                break
            ctx.case((name, tuple(u.tolist())), nontrivial=True)
        ctx.count("churn_lattices")
        del l
        gc.collect()
    core.history_check(ctx, "import numpy as np\nfrom koala import example_graphs as eg, voronization as vz, graph_utils as gu, quasicrystals as qc, phase_diagrams as pdg, hamiltonian as ham\nfrom koala.flux_finder import flux_finder as ff\n\ndef _canon(l):\n    parts = [l.vertices.positions.ravel(), l.edges.indices.ravel().astype(float), l.edges.crossing.ravel().astype(float)]\n    return np.concatenate(parts)\ndef _plaq(l):\n    out = []\n    for p in l.plaquettes:\n        out += [float(len(p.edges))] + [float(x) for x in p.edges] + [float(x) for x in p.directions] + [float(x) for x in p.vertices] + [float(x) for x in p.center]\n    return np.array(out)\n_pts = np.random.default_rng(123).uniform(size=(14, 2))\n", ["ff.fluxes_from_ujk(vz.generate_lattice(_pts), 1 - 2 * (np.arange(42) % 3 == 0))", "ff.fluxes_from_ujk(eg.honeycomb_lattice(3), np.ones(54, dtype=int), real=False)"],
                       label="flux call")
    # ---- the order of the first queries: on a twin the complex variant is asked for first, then the real one; both are what they are on the original
    for name, fam, l in cases[:: max(1, len(cases) // (15 if ctx.tier == "quick" else 100))]:
        u = (1 - 2 * rng.integers(0, 2, size=l.n_edges)).astype(np.int8)
        try:
            r0 = ff.fluxes_from_ujk(l, u); c0 = ff.fluxes_from_ujk(l, u, real=False)
            twin = zoo.rebuild(l)
            c1 = ff.fluxes_from_ujk(twin, u, real=False); r1 = ff.fluxes_from_ujk(twin, u); c2 = ff.fluxes_from_ujk(twin, u, real=False)
            if not (np.array_equal(r0, r1) and np.allclose(c0, c1, atol=1e-12) and np.allclose(c0, c2, atol=1e-12) and not np.iscomplexobj(r1)):
                ctx.impl_violation(f"{name}: the real / complex fluxes of a lattice on which the complex variant was queried first differ from those of a twin queried real first", dict(case=name, lattice=zoo.lat_to_json(l), u=u.tolist()))
        except Exception as ex:
            ctx.impl_violation(f"{name}: flux queries on a twin raised {type(ex).__name__}: {ex}", dict(case=name, lattice=zoo.lat_to_json(l), u=u.tolist()))
        ctx.case((name, "query order"), nontrivial=True)
    # ---- other operations on a freshly built lattice *before* its plaquettes are first computed: the fluxes are those of an untouched twin
    from koala import graph_utils as gu
    from koala.lattice import Lattice, cut_boundaries
    for name, fam, l in cases[:: max(1, len(cases) // (12 if ctx.tier == "quick" else 80))]:
        P, E, C = zoo.raw(l)
        u = (1 - 2 * rng.integers(0, 2, size=len(E))).astype(np.int8)
        try:
            want = ff.fluxes_from_ujk(Lattice(P.copy(), E.copy(), C.copy()), u)
        except Exception:
            continue
        near = np.nonzero(np.any((P < 0.1) | (P > 0.9), axis=1))[0]
        for oname, op in (("vertices_to_polygon (vertices near the cell walls)", lambda x: gu.vertices_to_polygon(x, near if len(near) else None)), ("vertices_to_polygon (all)", lambda x: gu.vertices_to_polygon(x)),
                          ("cut_boundaries", lambda x: cut_boundaries(x)), ("remove_trailing_edges", lambda x: gu.remove_trailing_edges(x)), ("vertex_neighbours / clockwise", lambda x: [gu.clockwise_edges_about(v, x) for v in range(min(4, x.n_vertices))]),
                          ("make_dual", lambda x: gu.make_dual(x)), ("make_dual (point averages)", lambda x: gu.make_dual(x, True)), ("make_dual twice", lambda x: [gu.make_dual(x), gu.make_dual(x)]),
                          ("plaquette_spanning_tree", lambda x: gu.plaquette_spanning_tree(x)), ("ujk_from_fluxes", lambda x: ff.ujk_from_fluxes(x, np.ones(x.n_plaquettes, dtype=np.int8))),
                          ("fluxes_from_ujk, then make_dual", lambda x: [ff.fluxes_from_ujk(x, u), gu.make_dual(x)]), ("adjacent-plaquette tables read, then make_dual", lambda x: [x.edges.adjacent_plaquettes, x.vertices.adjacent_plaquettes, gu.make_dual(x)])):
            lt = Lattice(P.copy(), E.copy(), C.copy())
            try:
                import warnings as _w
                with _w.catch_warnings():
                    _w.simplefilter("ignore")
                    op(lt)
            except Exception:
                continue
            try:
                got = ff.fluxes_from_ujk(lt, u)
            except Exception as ex:
                ctx.impl_violation(f"{name}: fluxes_from_ujk raised {type(ex).__name__}: {ex} on a lattice on which {oname} had been called first", dict(case=name, lattice=zoo.lat_to_json(l), u=u.tolist(), before=oname)); break
            if len(got) != len(want) or not np.array_equal(got, want):
                ctx.impl_violation(f"{name}: the fluxes of a freshly built lattice differ ({len(got)} values) from those of an untouched twin ({len(want)}) when {oname} is called on it first",
                                   dict(case=name, lattice=zoo.lat_to_json(l), u=u.tolist(), before=oname)); break
        ctx.case((name, "operations before the first plaquette access"), nontrivial=True)
    # ---- a lattice with more than 65 536 edges (and fewer vertices): bond indices beyond 16 bits.  Judged without the plaquettes' own edge lists: a flipped
    #      bond changes exactly two fluxes, both of plaquettes through its two end points; gauge moves change nothing; the global product is (-1)^E
    try:
        big = eg.square_lattice(182, 181)
        E_ = big.n_edges
        ub = (1 - 2 * rng.integers(0, 2, size=E_)).astype(np.int8)
        base = ff.fluxes_from_ujk(big, ub)
        rep = lambda what, **kw: ctx.impl_violation(f"square_lattice(182,181) [{big.n_vertices} vertices, {E_} edges]: {what}", dict(case="square_lattice(182,181)", seed=ctx.seed, **kw))
        ok = True
        if int(np.prod(base.astype(np.int64))) != (-1) ** E_:
            rep(f"product of all fluxes is {int(np.prod(base.astype(np.int64)))}, expected (-1)^E"); ok = False
        for e in ([E_ - 1, E_ - 2, 65536, 65537, 65535] + rng.integers(0, E_, size=6).tolist()) if ok else []:
            f = ub.copy(); f[e] *= -1
            changed = np.nonzero(ff.fluxes_from_ujk(big, f) != base)[0]
            a, b = (int(x) for x in big.edges.indices[e])
            if len(changed) != 2 or any(a not in big.plaquettes[int(q)].vertices or b not in big.plaquettes[int(q)].vertices for q in changed):
                rep(f"flipping bond {e} = ({a},{b}) changes the fluxes of plaquettes {changed.tolist()[:6]} - expected exactly the two plaquettes through both of its ends", edge=int(e)); ok = False; break
        for v in rng.integers(0, big.n_vertices, size=4).tolist() if ok else []:
            g = ub.copy(); g[np.any(big.edges.indices == v, axis=1)] *= -1
            if not np.array_equal(ff.fluxes_from_ujk(big, g), base):
                rep(f"gauge move at vertex {v} changes the fluxes", vertex=int(v)); break
        ctx.case(("square_lattice(182,181)",), nontrivial=True); ctx.count("lattices_with_more_than_65536_edges")
        del big
    except Exception as ex:
        ctx.impl_violation(f"square_lattice(182,181): raised {type(ex).__name__}: {ex}", dict(case="square_lattice(182,181)"))
    ctx.assumptions.append("numpy integer/complex products of ±1 and ±i are exact")


def replay(ctx, path):
    from koala.lattice import Lattice
    j = json.loads(open(path).read())["replay"]
    lat = j["lattice"]; S = lat["scale"]
    l = Lattice(np.array(lat["pos"], dtype=float) / S, np.array(lat["edges"], dtype=int).reshape(-1, 2), np.array(lat["cross"], dtype=int).reshape(-1, 2))
    u = np.array(j["u"])
    ok = oracle(ctx, "replay", l, u, ff.fluxes_from_ujk(l, u))
    consequences(ctx, np.random.default_rng(0), "replay", l, u)
    print("violations:", [v["what"] for v in ctx.violations])
    return 1 if ctx.violations else 0
