"""C11 - path finding returns valid (and, without early stopping, shortest) paths; flipping a plaquette path changes exactly its two ends;
the two metrics are metrics.

L1: Props/C11.lean (backward pass returns a valid chain goal -> start for every parent table satisfying the forward invariant, incl. termination;
    valid chains of the plaquette adjacency are C06 chains => two-ends flux law for both flux conventions; exact metric theorems: symmetric,
    non-negative, zero iff coincident, periodic <= Euclidean, periodic = minimum over the three images per coordinate).
L2: the executable A* model is run with IEEE doubles (bit-for-bit transport of koala's own distance values and adjacency) and must return exactly
    koala's path (nodes and edges), for plaquette and vertex paths, both metrics, early stopping on/off; the model's path passes the executable
    validity test proved sound in Lean; metrics compared exactly (squared, dyadic points).
L3: the statement on the implementation: found within maxits = n_edges, valid chain, ends, one edge per step, optimal cost against an
    independent Dijkstra when early_stopping=False, two-ends flux law, metric axioms.
"""
from __future__ import annotations

import heapq
import json
import struct

import numpy as np

import core
import zoo
from koala import example_graphs as eg
from koala import graph_utils as gu
from koala.flux_finder import flux_finder as ff
from koala.flux_finder import pathfinding as pf
from koala.lattice import INVALID, Lattice, cut_boundaries
from props.c14 import plaquette_graph_connected


def fbits(x):
    return struct.unpack("<Q", struct.pack("<d", float(x)))[0]


def dijkstra(adj, w, start, goal):
    dist = {start: 0.0}
    pq = [(0.0, start)]
    while pq:
        d, a = heapq.heappop(pq)
        if a == goal:
            return d
        if d > dist.get(a, np.inf):
            continue
        for b, e in adj[a]:
            nd = d + w(a, b)
            if nd < dist.get(b, np.inf):
                dist[b] = nd; heapq.heappush(pq, (nd, b))
    return None


def lattices(ctx, rng):
    quick = ctx.tier == "quick"
    out = [("honey2", eg.honeycomb_lattice(2)), ("honey3", eg.honeycomb_lattice(3)), ("hso2", eg.hex_square_oct_lattice(2)), ("square33", eg.square_lattice(3, 3)),
           ("trinon2", eg.tri_non_lattice(2)), ("tutte", eg.tutte_graph()), ("ladder6w", eg.n_ladder(6, True)),
           # few plaquettes / open cuts (the budget n_edges is tight), and pairs of vertices joined by two edges (a periodic direction only two vertices wide)
           ("square22-open", cut_boundaries(eg.square_lattice(2, 2))), ("square23-open", cut_boundaries(eg.square_lattice(2, 3))), ("square24", eg.square_lattice(2, 4)),
           ("square25-x", cut_boundaries(eg.square_lattice(2, 5), [False, True])), ("square32-y", cut_boundaries(eg.square_lattice(3, 2), [True, False])), ("honey2-x", cut_boundaries(eg.honeycomb_lattice(2), [True, False]))]
    for N in ([9, 12, 20, 40] if quick else [9, 10, 12, 16, 25, 40, 70, 120, 200, 400]):
        l = zoo.voronoi(rng, N)
        out.append((f"vor{N}", l)); out.append((f"vor{N}-x", cut_boundaries(l, [True, False]))); out.append((f"vor{N}-xy", cut_boundaries(l)))
    return [(n, zoo.rebuild(l)) for n, l in out]


def ref_metric(metric):
    """the harness's own straight-line / minimum-image length for koala's two metrics (any other callable is used as it is)"""
    if metric is pf.straight_line_length:
        return lambda a, b: float(np.hypot(*(np.asarray(a, dtype=float) - np.asarray(b, dtype=float))))
    if metric is pf.periodic_straight_line_length:
        return lambda a, b: min(float(np.hypot(*(np.asarray(a, dtype=float) - np.asarray(b, dtype=float) + np.array([i, j])))) for i in (-1, 0, 1) for j in (-1, 0, 1))
    return metric


def check_path(ctx, l, kind, adj, pos, metric, a, b, early, nodes, edges, rep):
    nodes = [int(x) for x in nodes]; edges = [int(x) for x in edges]
    if nodes[0] != b or nodes[-1] != a:
        rep(f"path ends are {nodes[0]}..{nodes[-1]}, requested goal {b} and start {a}"); return False
    if len(edges) != len(nodes) - 1:
        rep(f"{len(edges)} edges for {len(nodes)} nodes"); return False
    for i, e in enumerate(edges):
        x, y = nodes[i], nodes[i + 1]
        if kind == "plaquette":
            sides = set(int(p) for p in l.edges.adjacent_plaquettes[e])
            if sides != {x, y}:
                rep(f"consecutive plaquettes {x},{y} do not share edge {e}"); return False
        else:
            if set(int(v) for v in l.edges.indices[e]) != {x, y}:
                rep(f"consecutive vertices {x},{y} are not joined by edge {e}"); return False
    if a == b and (nodes != [a] or edges):
        rep("start == goal does not give the one-node path"); return False
    if not early:
        ref = ref_metric(metric)                                  # lengths are measured independently of koala's metric functions (the search itself gets koala's)
        cost = sum(ref(pos(nodes[i]), pos(nodes[i + 1])) for i in range(len(edges)))
        best = dijkstra(adj, lambda p, q: ref(pos(p), pos(q)), a, b)
        if best is None or cost > best + 1e-9 * max(1.0, best):
            rep(f"path cost {cost} is longer than the shortest {best} although early_stopping=False"); return False
    return True


def run(ctx):
    ctx.rule = ("one evaluation = one path query (lattice, plaquette|vertex, metric, start, goal, early stopping) judged against the statement and compared with the "
                "model, or one metric evaluation; non-trivial = start != goal; distinct by the query")
    ctx.run_audit()
    rng = np.random.default_rng(ctx.seed)
    quick = ctx.tier == "quick"
    reqs, meta = [], []
    for name, l in lattices(ctx, rng):
        try:
            F = l.n_plaquettes
        except Exception:
            continue
        plaq_ok = F >= 2 and plaquette_graph_connected(l)
        if not plaq_ok:
            ctx.count("precondition_excluded_disconnected_plaquette_graph")          # vertex paths are still judged
        ctx.count("lattices")
        lat_fp = core.lattice_fingerprint(l)
        for kind in ("plaquette", "vertex", "@fingerprint"):
            if kind == "@fingerprint":
                if core.lattice_fingerprint(l) != lat_fp:
                    ctx.impl_violation(f"{name}: the path finder modified the lattice it was given (positions / edges / crossings / plaquette data)", dict(case=name, lattice=zoo.lat_to_json(l)))
                continue
            if kind == "plaquette" and not plaq_ok:
                continue
            if kind == "plaquette":
                n = F
                # independent adjacency from the edge table (for the oracle); koala's own provider gives the neighbour order the search uses (for the model)
                tab = l.edges.adjacent_plaquettes
                adj_ref = [[(int(q), int(e)) for e in l.plaquettes[p].edges for q in tab[e] if int(q) != p and int(q) != INVALID] for p in range(n)]
                try:
                    adj = [[(int(q), int(e)) for q, e in zip(*gu.adjacent_plaquettes(l, p))] for p in range(n)]
                    provider_ok = all(sorted(x) == sorted(y) for x, y in zip(adj, adj_ref))
                except Exception as ex:
                    adj, provider_ok = adj_ref, False
                    ctx.count("adjacency_provider_raised")
                if not provider_ok:
                    ctx.count("adjacency_provider_differs_from_edge_table")
                    adj = adj_ref
                # what the adjacency provider hands out belongs to the caller: scramble it in place, the path finder must not notice
                try:
                    for p_ in range(n):
                        nb_, ed_ = gu.adjacent_plaquettes(l, p_)
                        if isinstance(nb_, np.ndarray) and nb_.ndim == 1 and nb_.flags.writeable: nb_.sort()
                        if isinstance(ed_, np.ndarray) and ed_.ndim == 1 and ed_.flags.writeable: ed_[:] = ed_[::-1].copy()
                except Exception:
                    pass
                centres = np.array([p.center for p in l.plaquettes])
                pos = lambda i: centres[i]
                finder = pf.path_between_plaquettes
            else:
                n = l.n_vertices
                # the vertex graph must be connected for the statement
                adj = [[(int(q), int(e)) for q, e in zip(*gu.vertex_neighbours(l, v))] for v in range(n)]
                seen = {0}; todo = [0]
                while todo:
                    x = todo.pop()
                    for y, _ in adj[x]:
                        if y not in seen: seen.add(y); todo.append(y)
                if len(seen) != n:
                    ctx.count("precondition_excluded_disconnected_vertex_graph"); continue
                pos = lambda i: l.vertices.positions[i]
                finder = pf.path_between_vertices
            for mname, metric in (("euclid", pf.straight_line_length), ("periodic", pf.periodic_straight_line_length)):
                if n <= 20 or (n <= 26 and mname == "periodic" and kind == "plaquette"):
                    pairs = [(a, b) for a in range(n) for b in range(n)]
                else:
                    pairs = [tuple(int(x) for x in rng.integers(0, n, size=2)) for _ in range(10 if quick else 40)] + [(0, 0), (n - 1, n - 1), (0, n - 1)]
                queries = []
                for a, b in pairs:
                    for early in (True, False):
                        tag = f"{name}:{kind}:{mname}:{a}->{b}:{'early' if early else 'full'}"
                        rep = lambda what, **kw: ctx.impl_violation(f"{tag}: {what}", dict(case=tag, lattice=zoo.lat_to_json(l), kind=kind, metric=mname, start=a, goal=b,
                                                                                           early=early, **kw))
                        try:
                            nodes, edges = finder(l, a, b, heuristic=metric, early_stopping=early, maxits=l.n_edges)
                        except Exception as ex:
                            rep(f"raised {type(ex).__name__}: {ex} with maxits = n_edges = {l.n_edges}"); continue
                        if not check_path(ctx, l, kind, adj, pos, metric, a, b, early, nodes, edges, rep):
                            continue
                        # two-ends flux law on plaquette paths (both conventions)
                        if kind == "plaquette":
                            u = (1 - 2 * rng.integers(0, 2, size=l.n_edges)).astype(np.int8)
                            v = u.copy(); v[edges] *= -1
                            import warnings
                            with warnings.catch_warnings():
                                warnings.simplefilter("ignore")
                                for fl in (ff.fluxes_from_ujk, ff.fluxes_from_bonds):
                                    changed = set(np.nonzero(fl(l, u) != fl(l, v))[0].tolist())
                                    want = {a, b} if a != b else set()
                                    if changed != want:
                                        rep(f"flipping the bonds on the path changed the fluxes of {sorted(changed)}, expected exactly the ends {sorted(want)}"); break
                        ctx.case((tag,), nontrivial=a != b, sample=dict(case=tag, length=len(edges)))
                        queries.append((a, b, early, [int(x) for x in nodes], [int(x) for x in edges]))
                # the hypothesis CostLaws.pos of the forward-pass theorem, monitored: every step between adjacent nodes has a positive length that
                # is not absorbed when added to a cost of the size of the whole lattice
                steps = [float(metric(pos(i), pos(q))) for i in range(n) for q, _ in adj[i]]
                if steps and not (min(steps) > 0 and (2.0 * n) + min(steps) > 2.0 * n):
                    ctx.count("cost_law_pos_not_met_nongeneric_geometry")
                else:
                    ctx.count("cost_law_pos_monitored_ok")
                # the hypothesis of heur_periodic_span / path_shortest_periodic_span, monitored: no two nodes more than a cell and a half apart in a coordinate
                if mname == "periodic" and n:
                    pts_ = np.array([pos(i) for i in range(n)], dtype=float)
                    span = float((pts_.max(axis=0) - pts_.min(axis=0)).max())
                    ctx.count("periodic_span_hypothesis_met" if span <= 1.5 else "periodic_span_hypothesis_not_met_nodes_more_than_1.5_apart")
                    if kind == "plaquette" and (pts_.min() < 0 or pts_.max() >= 1):
                        ctx.count("plaquette_lattices_with_a_centre_outside_the_unit_square")
                if kind == "plaquette" and not provider_ok:
                    ctx.corr_break(f"{name}: graph_utils.adjacent_plaquettes raises or differs from the edge table; paths are judged against the edge table", dict(case=name, lattice=zoo.lat_to_json(l)))
                    continue
                if n <= 130 and queries:
                    H = [[fbits(metric(pos(i), pos(j))) for j in range(n)] for i in range(n)]
                    reqs.append(dict(op="astar", adj=[[[q, e] for q, e in row] for row in adj], h=H,
                                     queries=[dict(start=a, goal=b, early=early, maxits=int(l.n_edges)) for a, b, early, _, _ in queries]))
                    meta.append((f"{name}:{kind}:{mname}", queries))
    # ---- 'always found when the budget is at least the number of edges': the pairs that need the most iterations (square tilings; counted with koala's own
    #      forward pass), both metrics, both early-stopping settings, plaquettes and vertices
    from props.c06 import hungry_pairs
    for s in ([(10, 10)] if quick else [(9, 9), (10, 10), (12, 12)]):
        l = zoo.rebuild(eg.square_lattice(*s))
        for its, a, b in hungry_pairs(l, 6 if quick else 30):
            for mname, metric in (("euclid", pf.straight_line_length), ("periodic", pf.periodic_straight_line_length)):
                for early in (True, False):
                    tag = f"square{s}:plaquette:{mname}:{a}->{b}:{'early' if early else 'full'}:budget"
                    try:
                        nodes, edges = pf.path_between_plaquettes(l, a, b, heuristic=metric, early_stopping=early, maxits=l.n_edges)
                        if int(nodes[0]) != b or int(nodes[-1]) != a or len(edges) != len(nodes) - 1:
                            raise ValueError("not a chain from start to goal")
                    except Exception as ex:
                        ctx.impl_violation(f"{tag}: {type(ex).__name__}: {ex} with maxits = n_edges = {l.n_edges} (the A* forward pass needs {its} iterations for this pair)",
                                           dict(case=tag, generator=f"square_lattice{s}", kind="plaquette", metric=mname, start=int(a), goal=int(b), early=early))
                    ctx.case((tag,), nontrivial=True)
    # ---- metrics on dyadic point pairs
    G = 2 ** 10
    pts = rng.integers(0, G, size=(60 if quick else 600, 2, 2))
    special = [[[0, 0], [0, 0]], [[G // 10, G // 10], [9 * G // 10, 2 * G // 10]], [[0, 5], [G - 1, 5]], [[G // 2, 0], [0, 0]], [[3, 3], [3 + G // 2, 3]], [[7, 9], [7, 9]]]
    allp = np.concatenate([np.array(special), pts])
    # distinct points that nearly coincide - directly or across the seam - at every scale down to one ulp: 'zero only for coincident points'
    for k in range(1, 53, 2 if quick else 1):
        d = 2.0 ** -k
        for base in ((0.3, 0.7), (0.0, 0.5), (1 - 2.0 ** -53, 0.25)):
            for delta in ((d, 0.0), (0.0, d), (d, d), (-d, d)):
                a = np.array(base); b = (a + np.array(delta)) % 1
                name = f"metric-near({a.tolist()},{b.tolist()})"
                if np.all(a == b):
                    continue
                dp, dq, de = pf.periodic_straight_line_length(a, b), pf.periodic_straight_line_length(b, a), pf.straight_line_length(a, b)
                if not (dp > 0 and dq > 0 and de > 0 and dp == dq and dp <= de * (1 + 1e-15)):
                    ctx.impl_violation(f"{name}: distinct points {2.0 ** -k:.1e} apart get periodic distance {dp}/{dq}, Euclidean {de}: zero only for coincident points / symmetric / "
                                       "not longer than Euclidean fails", dict(case=name, a=a.tolist(), b=b.tolist()))
                ctx.case((name,), nontrivial=True)
    for pq in allp:
        a, b = pq[0] / G, pq[1] / G
        name = f"metric({a.tolist()},{b.tolist()})"
        rep = lambda what: ctx.impl_violation(f"{name}: {what}", dict(case=name, a=a.tolist(), b=b.tolist()))
        dp, dq, de = pf.periodic_straight_line_length(a, b), pf.periodic_straight_line_length(b, a), pf.straight_line_length(a, b)
        if dp != dq or dp < 0 or de < 0 or (dp == 0) != bool(np.all(a == b)) or (de == 0) != bool(np.all(a == b)) or dp > de + 1e-15 or de != pf.straight_line_length(b, a):
            rep(f"metric axioms fail: periodic {dp}/{dq}, euclid {de}")
        images = min(np.linalg.norm(a - b + np.array([i, j])) for i in (-1, 0, 1) for j in (-1, 0, 1))
        if abs(dp - images) > 1e-12:
            rep(f"periodic distance {dp} is not the minimum-image distance {images}")
        ctx.case((name,), nontrivial=not np.all(a == b))
    reqs.append(dict(op="metric", S=G, pairs=allp.tolist())); meta.append(("metrics", allp))
    # ---- model
    # ---- churn: lattices built, queried once and dropped (re-used object addresses): a path on the new lattice is a valid chain of the new lattice
    for cname, lc in zoo.churn(rng, 30 if quick else 300, lo=5, hi=14):
        try:
            if lc.n_plaquettes < 2 or not plaquette_graph_connected(lc):
                continue
        except Exception:
            continue
        for kind, finder, nmax in (("vertex", pf.path_between_vertices, lc.n_vertices), ("plaquette", pf.path_between_plaquettes, lc.n_plaquettes)):
            if kind == "vertex":
                comp = {0}; todo = [0]; nb = [[] for _ in range(lc.n_vertices)]
                for a_, b_ in lc.edges.indices:
                    nb[int(a_)].append(int(b_)); nb[int(b_)].append(int(a_))
                while todo:
                    x = todo.pop()
                    for y in nb[x]:
                        if y not in comp: comp.add(y); todo.append(y)
                if len(comp) != lc.n_vertices:
                    continue
            a, b = (int(x) for x in rng.choice(nmax, 2, replace=False))
            rep = lambda what, **kw: ctx.impl_violation(f"{cname} [{kind} path {a}->{b}, lattice built after others were dropped]: {what}",
                                                        dict(case=cname, kind=kind, start=a, goal=b, lattice=zoo.lat_to_json(lc), **kw))
            try:
                nodes, edges = finder(lc, a, b, maxits=max(lc.n_edges, 1) * 4)
            except Exception as ex:
                rep(f"raised {type(ex).__name__}: {ex}"); continue
            check_path(ctx, lc, kind, None, None, None, a, b, True, nodes, edges, rep)
            ctx.case((cname, kind, a, b), nontrivial=True)
        ctx.count("churn_lattices")
    outs = core.Driver().run_parallel(reqs)
    for (name, queries), o in zip(meta, outs):
        brk = lambda what, **kw: ctx.corr_break(f"{name}: {what}", dict(case=name, **kw))
        if "err" in o:
            brk(f"model error {o['err']}"); continue
        if name == "metrics":
            for pq, (p2, e2) in zip(queries, o["d2"]):
                a, b = pq[0] / G, pq[1] / G
                if abs(pf.periodic_straight_line_length(a, b) ** 2 - p2 / G ** 2) > 1e-12 or abs(pf.straight_line_length(a, b) ** 2 - e2 / G ** 2) > 1e-12:
                    brk(f"metric values at {a.tolist()},{b.tolist()} differ from the exact model"); break
            else:
                ctx.count("metric_pairs_compared_exactly", len(queries))
            continue
        for (a, b, early, nodes, edges), mo in zip(queries, o["paths"]):
            if not mo["found"]:
                brk(f"model exhausts its budget for {a}->{b} where koala finds a path", start=a, goal=b); break
            if mo["nodes"] != nodes or mo["edges"] != edges:
                brk(f"path {a}->{b} (early={early}) differs from the model's", start=a, goal=b, impl=[nodes, edges], model=[mo["nodes"], mo["edges"]]); break
            if not mo["valid"]:
                brk(f"the model's path {a}->{b} fails the validity test"); break
        else:
            ctx.count("paths_reproduced_exactly_by_model", len(queries))
    if ctx.corr_breaks and not ctx.violations:
        # the search no longer behaves like the model: look for a pair on which the statement itself fails (all ordered pairs, no early stopping, vs Dijkstra)
        import time as _t
        t0 = _t.time(); tried = 0
        srng = np.random.default_rng(ctx.seed + 1)
        while _t.time() - t0 < (90 if quick else 600) and not ctx.violations:
            l = zoo.rebuild(zoo.voronoi(srng, int(srng.integers(8, 40))))
            try:
                F = l.n_plaquettes
                if F < 2 or not plaquette_graph_connected(l):
                    continue
                tab = l.edges.adjacent_plaquettes
                adj = [[(int(q), int(e)) for e in l.plaquettes[p].edges for q in tab[e] if int(q) != p and int(q) != INVALID] for p in range(F)]
                centres = np.array([p.center for p in l.plaquettes])
            except Exception:
                continue
            for mname, metric in (("euclid", pf.straight_line_length), ("periodic", pf.periodic_straight_line_length)):
                for a in range(F):
                    for b in range(F):
                        if a == b:
                            continue
                        tag = f"search:vor(V={l.n_vertices}):{mname}:{a}->{b}"
                        rep = lambda what, **kw: ctx.impl_violation(f"{tag}: {what}", dict(case=tag, lattice=zoo.lat_to_json(l), kind="plaquette", metric=mname, start=a, goal=b, early=False, **kw))
                        try:
                            nodes, edges = pf.path_between_plaquettes(l, a, b, heuristic=metric, early_stopping=False, maxits=l.n_edges)
                        except Exception as ex:
                            rep(f"raised {type(ex).__name__}: {ex} with maxits = n_edges"); break
                        tried += 1
                        if not check_path(ctx, l, "plaquette", adj, lambda i: centres[i], metric, a, b, False, nodes, edges, rep):
                            break
                    if ctx.violations:
                        break
                if ctx.violations:
                    break
        ctx.count("widened_search_pairs", tried)
    ctx.assumptions += ["path_valid is proved for every cost type obeying CostLaws (< a strict order, c < c + h(a,b)); for IEEE doubles these are assumptions about the hardware "
                        "arithmetic, the positivity part is monitored on every lattice (counter cost_law_pos_*); the model's returned path is additionally checked by the executable "
                        "validity test that is proved sound",
                        "IEEE double addition/comparison in the Lean driver equals numpy's (same hardware arithmetic); distances are computed by koala's own metric functions",
                        "optimality without early stopping (consistent heuristic) and the iteration budget maxits >= n_edges are decided on the implementation, not proved"]


def replay(ctx, path):
    j = json.loads(open(path).read())["replay"]
    if "lattice" not in j:
        a, b = np.array(j["a"]), np.array(j["b"])
        print(pf.periodic_straight_line_length(a, b), pf.periodic_straight_line_length(b, a), pf.straight_line_length(a, b)); return 0
    lat = j["lattice"]
    l = Lattice(np.array(lat["pos"], dtype=float) / lat["scale"], np.array(lat["edges"], dtype=int).reshape(-1, 2),
                np.array(lat["cross"], dtype=int).reshape(-1, 2))
    metric = pf.straight_line_length if j["metric"] == "euclid" else pf.periodic_straight_line_length
    finder = pf.path_between_plaquettes if j["kind"] == "plaquette" else pf.path_between_vertices
    try:
        nodes, edges = finder(l, j["start"], j["goal"], heuristic=metric, early_stopping=j["early"], maxits=l.n_edges)
    except Exception as ex:
        print("raised", type(ex).__name__, ex); return 1
    print("path:", [int(x) for x in nodes], [int(x) for x in edges])
    return 0
