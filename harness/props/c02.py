"""C02 - all adjacency tables of a lattice agree with its edges and plaquettes; access order irrelevant.

L1: Props/C02.lean.  L2: model op "tables" vs every table/helper of the implementation (exact).
L3: brute-force evaluation of the statement on the implementation; 24 access orders x {fresh, unpickled}.
"""
from __future__ import annotations

import itertools
import json
import pickle
from fractions import Fraction

import warnings

import numpy as np

import core
import oracle_faces as of
import zoo
from koala import graph_utils as gu
from koala import example_graphs as eg
from koala.lattice import INVALID, Lattice, cut_boundaries, permute_vertices
from props.c01 import min_gap, GAP_MIN


def inv(x):
    return None if int(x) == INVALID else int(x)


def tables_of(l):
    """canonical, order-defined rendering of every table of the implementation"""
    V, E = l.n_vertices, l.n_edges
    t = {}
    t["coordination"] = [int(x) for x in l.vertices.coordination_numbers]
    t["rot"] = [np.asarray(a, dtype=int).tolist() for a in l.vertices.adjacent_edges]
    t["edge_neighbours"] = [np.asarray(a, dtype=int).tolist() for a in l.edges.adjacent_edges]
    adj = l.adjacency_matrix
    t["adj_shape"] = list(adj.shape)
    t["joined"] = [[int(a), int(b)] for a, b in zip(*np.nonzero(adj))]
    t["adj_symmetric"] = bool(np.array_equal(adj, adj.T))
    ps = l.plaquettes
    t["plaq"] = [dict(e=[int(x) for x in p.edges], d=[int(x) for x in p.directions]) for p in ps]
    t["plaq_vertices"] = [[int(x) for x in p.vertices] for p in ps]
    t["n_sides"] = [int(p.n_sides) for p in ps]
    t["edge_plaq"] = [[inv(a), inv(b)] for a, b in l.edges.adjacent_plaquettes] if E else []
    vp = l.vertices.adjacent_plaquettes
    t["vertex_plaq_raw"] = [[inv(x) for x in row] for row in vp]
    t["vertex_plaq"] = [[x for x in row if x is not None] for row in t["vertex_plaq_raw"]]
    t["plaq_neighbours"] = [[inv(x) for x in p.adjacent_plaquettes] for p in ps]
    t["n_plaquettes"] = int(l.n_plaquettes)
    return t


def helpers_of(l):
    h = {}
    h["vertex_neighbours"] = []
    for v in range(l.n_vertices):
        vi, ei = gu.vertex_neighbours(l, v)
        h["vertex_neighbours"].append([[int(a), int(b)] for a, b in zip(vi, ei)])
    h["edge_neighbours"] = [np.asarray(gu.edge_neighbours(l, e), dtype=int).tolist() for e in range(l.n_edges)]
    h["clockwise_about"] = []
    h["clockwise_about_v"] = []
    for v in range(l.n_vertices):
        if len(l.vertices.adjacent_edges[v]) == 0:
            h["clockwise_about"].append([]); h["clockwise_about_v"].append([])
            continue
        ov, oe = gu.clockwise_about(v, l)
        h["clockwise_about"].append([int(x) for x in np.atleast_1d(oe)])
        h["clockwise_about_v"].append([int(x) for x in np.atleast_1d(ov)])
    h["adjacent_plaquettes"] = []
    for p in range(l.n_plaquettes):
        q, e = gu.adjacent_plaquettes(l, p)
        h["adjacent_plaquettes"].append([[int(a), int(b)] for a, b in zip(np.atleast_1d(q), np.atleast_1d(e))])
    return h


def is_cyclic_rotation(a, b):
    if len(a) != len(b):
        return False
    if not a:
        return True
    for i in range(len(a)):
        if a[i:] + a[:i] == b:
            return True
    return False


def oracle(l, t, h):
    """the statement of C02, brute force, on the implementation's own output.  Returns failures."""
    f = []
    V, E = l.n_vertices, l.n_edges
    idx = np.asarray(l.edges.indices, dtype=int)
    cr = np.asarray(l.edges.crossing, dtype=int)
    # coordination numbers count the edge ends at every vertex
    want = [int(np.sum(idx == v)) for v in range(V)]
    if t["coordination"] != want:
        f.append(f"coordination_numbers {t['coordination'][:8]}.. (len {len(t['coordination'])}) != edge-end counts (len {V})")
    # incident edges complete, clockwise cyclic order starting after 12 o'clock
    fs = of.face_structure(l)
    for v in range(V):
        inc = sorted(int(e) for e in np.nonzero(np.any(idx == v, axis=1))[0])
        row = t["rot"][v]
        if sorted(row) != inc:
            f.append(f"vertex {v}: incident-edge list {row} is not complete/exact ({inc})"); break
        vecs = []
        for e in row:
            a, b = idx[e]
            ve = fs["vec"][e]
            vecs.append(ve if a == v else (-ve[0], -ve[1]))
        # clockwise from 12 with an edge exactly at 12 o'clock last: strictly increasing clockwise angle in (0, 2pi]
        def key_lt(p, q):   # angle(p) < angle(q), clockwise from 12, range (0, 2pi]
            def half(w):
                x, y = w
                if x > 0 or (x == 0 and y < 0): return 0     # (0, pi]
                return 1                                      # (pi, 2pi]  (12 o'clock itself = 2pi)
            hp, hq = half(p), half(q)
            if hp != hq: return hp < hq
            if p[0] == 0 and p[1] > 0: return False           # p at 2pi is last
            if q[0] == 0 and q[1] > 0: return True
            return p[0] * q[1] - p[1] * q[0] < 0
        for i in range(len(vecs) - 1):
            if not key_lt(vecs[i], vecs[i + 1]):
                f.append(f"vertex {v}: incident edges {row} are not in clockwise order starting after 12 o'clock"); break
    # edge vectors
    pos = np.asarray(l.vertices.positions, dtype=float)
    if E and np.max(np.abs(l.edges.vectors - (pos[idx[:, 1]] - pos[idx[:, 0]] + cr))) > 1e-12:
        f.append("edge vectors != end - start + crossing")
    # edge neighbours
    for e in range(E):
        a, b = idx[e]
        want = sorted(int(m) for m in range(E) if m != e and (a in idx[m] or b in idx[m]))
        if t["edge_neighbours"][e] != want:
            f.append(f"edge {e}: adjacent_edges {t['edge_neighbours'][e]} != {want}"); break
    # edge -> plaquettes (directed)
    fwd, bwd = {}, {}
    for n, p in enumerate(t["plaq"]):
        for e, d in zip(p["e"], p["d"]):
            (fwd if d == 1 else bwd).setdefault(e, []).append(n)
    for e in range(E):
        want = [fwd.get(e, [None])[-1], bwd.get(e, [None])[-1]]
        if t["edge_plaq"][e] != want:
            f.append(f"edge {e}: adjacent_plaquettes {t['edge_plaq'][e]} but forwards/backwards plaquettes are {want}"); break
    # vertex -> plaquettes
    for v in range(V):
        want = sorted(n for n, vs in enumerate(t["plaq_vertices"]) if v in vs)
        row = t["vertex_plaq_raw"][v]
        got = [x for x in row if x is not None]
        if sorted(got) != want or len(set(got)) != len(got):
            f.append(f"vertex {v}: adjacent_plaquettes {got} != plaquettes containing it {want}"); break
        if None in row and any(x is not None for x in row[row.index(None):]):
            f.append(f"vertex {v}: INVALID padding is not at the end of the row"); break
    # plaquette neighbours: across its edges in edge order
    for n, p in enumerate(t["plaq"]):
        want = []
        for e, d in zip(p["e"], p["d"]):
            want.append((bwd if d == 1 else fwd).get(e, [None])[-1])
        if t["plaq_neighbours"][n] != want:
            f.append(f"plaquette {n}: adjacent_plaquettes {t['plaq_neighbours'][n]} != plaquettes across its edges {want}"); break
    # adjacency matrix
    joined = sorted(set((int(a), int(b)) for a, b in idx) | set((int(b), int(a)) for a, b in idx))
    if sorted(map(tuple, t["joined"])) != joined or not t["adj_symmetric"] or t["adj_shape"] != [V, V]:
        f.append("adjacency matrix is not symmetric with True exactly at joined pairs")
    if t["n_plaquettes"] != len(t["plaq"]):
        f.append("n_plaquettes != len(plaquettes)")
    # helpers agree with the tables
    for v in range(V):
        pairs = h["vertex_neighbours"][v]
        if sorted(e for _, e in pairs) != sorted(t["rot"][v]):
            f.append(f"vertex_neighbours({v}) edges {pairs} != table row {t['rot'][v]}"); break
        for w, e in pairs:
            a, b = idx[e]
            if not ((a == v and b == w) or (b == v and a == w)):
                f.append(f"vertex_neighbours({v}): neighbour {w} is not the far end of edge {e}"); break
        ca = h["clockwise_about"][v]
        if sorted(ca) != sorted(t["rot"][v]):
            f.append(f"clockwise_about({v}) edges {ca} != table row"); break
        if not is_cyclic_rotation(ca[::-1], t["rot"][v]):
            f.append(f"clockwise_about({v}) = {ca} is not the mirror image of the table's cyclic order {t['rot'][v]}"); break
        for w, e in zip(h["clockwise_about_v"][v], ca):
            a, b = idx[e]
            if not ((a == v and b == w) or (b == v and a == w)):
                f.append(f"clockwise_about({v}): vertex {w} is not the far end of edge {e}"); break
    for e in range(E):
        if h["edge_neighbours"][e] != t["edge_neighbours"][e]:
            f.append(f"edge_neighbours({e}) != edges.adjacent_edges[{e}]"); break
    for n, p in enumerate(t["plaq"]):
        want = []
        for i, e in enumerate(p["e"]):
            row = t["edge_plaq"][e]
            if None in row: continue
            want.append([t["plaq_neighbours"][n][i], e])
        if h["adjacent_plaquettes"][n] != want:
            f.append(f"adjacent_plaquettes(l,{n}) = {h['adjacent_plaquettes'][n]} != table {want}"); break
    return f


ATTRS = ["plaquettes", "n_plaquettes", "edges.adjacent_plaquettes", "vertices.adjacent_plaquettes"]


def read_attr(l, a):
    if a == "plaquettes":
        return [(tuple(int(x) for x in p.edges), tuple(int(x) for x in p.directions), tuple(int(x) for x in p.vertices), int(p.n_sides),
                 tuple(float(x) for x in p.center), tuple(inv(x) for x in p.adjacent_plaquettes)) for p in l.plaquettes]
    if a == "n_plaquettes":
        return int(l.n_plaquettes)
    if a == "edges.adjacent_plaquettes":
        return [tuple(inv(x) for x in r) for r in l.edges.adjacent_plaquettes]
    return [tuple(inv(x) for x in r) for r in l.vertices.adjacent_plaquettes]


def access_orders(ctx, name, l):
    """all 24 orders of first access x {fresh, unpickled, pickled after two accesses}: every observed value
    equals the reference.  Positions are rounded to float32 first, so that a pickle round trip is exact."""
    pos, ed, cr = zoo.raw(l)
    raw = (np.asarray(pos, dtype=np.float32).astype(float), ed, cr)
    ref_l = Lattice(*raw)
    ref = {}
    for a in ["plaquettes", "edges.adjacent_plaquettes", "vertices.adjacent_plaquettes", "n_plaquettes"]:
        try:
            ref[a] = read_attr(ref_l, a)
        except Exception as ex:
            ctx.impl_violation(f"{name}: on a fresh lattice, reading {a} (after {list(ref)}) gives an unusable value: {type(ex).__name__}: {ex}",
                               dict(case=name, order=list(ref) + [a], mode="fresh", lattice=zoo.lat_to_json(l)))
            return 0
    # the reference must not depend on the order it was read in either: a second reference lattice read in the opposite order
    ref_l2 = Lattice(*raw)
    for a in ["n_plaquettes", "vertices.adjacent_plaquettes", "edges.adjacent_plaquettes", "plaquettes"]:
        try:
            if read_attr(ref_l2, a) != ref[a]:
                ctx.impl_violation(f"{name}: the value of {a} depends on the order of first access", dict(case=name, order="reversed reference", mode="fresh", lattice=zoo.lat_to_json(l)))
                return 0
        except Exception as ex:
            ctx.impl_violation(f"{name}: on a fresh lattice, reading {a} in the reversed order gives an unusable value: {type(ex).__name__}: {ex}",
                               dict(case=name, order="reversed reference", mode="fresh", lattice=zoo.lat_to_json(l)))
            return 0
    n = 0
    for order in itertools.permutations(ATTRS):
        for mode in ("fresh", "unpickled", "pickled-midway"):
            x = Lattice(*raw)
            if mode == "unpickled":
                x = pickle.loads(pickle.dumps(x))
            for i, a in enumerate(order):
                try:
                    if mode == "pickled-midway" and i == 2:
                        x = pickle.loads(pickle.dumps(x))
                    val = read_attr(x, a)
                except Exception as ex:
                    ctx.impl_violation(f"{name}: access order {order} ({mode}): reading {a} raised {type(ex).__name__}: {ex}",
                                       dict(case=name, order=order, mode=mode, lattice=zoo.lat_to_json(l)))
                    return n
                if val != ref[a]:
                    ctx.impl_violation(f"{name}: access order {order} ({mode}): value of {a} differs from the reference order",
                                       dict(case=name, order=order, mode=mode, lattice=zoo.lat_to_json(l)))
                    return n
            n += 1
    return n


def model_vs_impl(ctx, name, l, t, h, o):
    if "err" in o:
        ctx.corr_break(f"{name}: model error {o['err']}", dict(case=name, lattice=zoo.lat_to_json(l))); return
    S = zoo.lat_to_json(l)["scale"]
    pairs = [("coordination", t["coordination"], o["coordination"]), ("rot", t["rot"], o["rot"]),
             ("edge_neighbours", t["edge_neighbours"], o["edge_neighbours"]),
             ("joined", sorted(map(tuple, t["joined"])), sorted(map(tuple, o["joined"]))),
             ("plaquettes", t["plaq"], o["plaq"]), ("plaquette vertices", t["plaq_vertices"], o["plaq_vertices"]),
             ("edges.adjacent_plaquettes", t["edge_plaq"], o["edge_plaq"]),
             ("vertices.adjacent_plaquettes", t["vertex_plaq"], o["vertex_plaq"]),
             ("plaquette.adjacent_plaquettes", t["plaq_neighbours"], o["plaq_neighbours"]),
             ("vertex_neighbours", h["vertex_neighbours"], o["vertex_neighbours"]),
             ("clockwise_about", h["clockwise_about"], o["clockwise_about"]),
             ("adjacent_plaquettes()", h["adjacent_plaquettes"], o["adjacent_plaquettes"])]
    for what, a, b in pairs:
        if a != b:
            ctx.corr_break(f"{name}: {what} differs from the model", dict(case=name, lattice=zoo.lat_to_json(l), table=what, impl=str(a)[:400], model=str(b)[:400]))
            return
    ev = np.array(o["evec"], dtype=object)
    if l.n_edges and max(abs(float(Fraction(int(m), S)) - float(x)) for mrow, xrow in zip(o["evec"], l.edges.vectors) for m, x in zip(mrow, xrow)) > 1e-12:
        ctx.corr_break(f"{name}: edge vectors differ from the model", dict(case=name, lattice=zoo.lat_to_json(l)))


def x_axis_generic(l):
    """clockwise_about sorts from the +x axis with a float comparison `angles > 0`: exclude edges within 1e-9 of the axis"""
    v = l.edges.vectors
    return not np.any((np.abs(v[:, 1]) < 1e-12) & (np.abs(v[:, 1]) > 0)) if l.n_edges else True


def run(ctx):
    ctx.rule = ("zoo lattices incl. isolated (highest-index) vertices, degree 0..12; every table and helper compared for every vertex/edge/plaquette; "
                "24 access orders x {fresh, unpickled}; non-trivial = >=1 plaquette and >=3 edges; distinct by (V,E,plaquettes,family)")
    ctx.run_audit()
    rng = np.random.default_rng(ctx.seed)
    cases = list(zoo.fixed_examples())
    # corpus: D1 witness (triangle + isolated highest vertex)
    cases.append(("D1-triangle-isolated", "corpus", Lattice(np.array([[.1, .1], [.8, .2], [.4, .9], [.5, .5]]), np.array([[0, 1], [1, 2], [2, 0]]), np.zeros((3, 2), dtype=int))))
    if ctx.tier == "quick":
        cases += zoo.random_cases(rng, 90, max_seeds=30)
        cases += list(zoo.edge_subsets(rng, 150))
        n_orders = 6
    else:
        cases += zoo.random_cases(rng, 600, max_seeds=100)
        cases += list(zoo.edge_subsets(rng, 3000))
        n_orders = 40
    cases = [(n, f, l) for n, f, l in cases if not zoo.has_self_loop(l) and l.n_edges > 0]
    keep = []
    for name, fam, l in cases:
        if min_gap(l) < GAP_MIN:
            ctx.count("precondition_excluded_nongeneric"); continue
        keep.append((name, fam, l))
    outs = core.Driver().run_parallel([dict(op="tables", **zoo.lat_to_json(l)) for _, _, l in keep])
    orders_done = 0
    for i, ((name, fam, l), o) in enumerate(zip(keep, outs)):
        try:
            t = tables_of(l); h = helpers_of(l)
        except Exception as ex:
            ctx.impl_violation(f"{name}: reading the tables raised {type(ex).__name__}: {ex}", dict(case=name, lattice=zoo.lat_to_json(l)))
            continue
        fails = oracle(l, t, h)
        if fails:
            ctx.impl_violation(f"{name}: {fails[0]}", dict(case=name, failures=fails[:5], lattice=zoo.lat_to_json(l)))
        model_vs_impl(ctx, name, l, t, h, o)
        if orders_done < n_orders and (fam in ("example", "corpus") or i % 7 == 0) and l.n_edges <= 200:
            k = access_orders(ctx, name, l)
            ctx.count("access_order_runs", k); orders_done += 1
        ctx.count("family:" + fam)
        deg = t["coordination"]
        if deg and deg[-1] == 0: ctx.count("lattices_isolated_highest_vertex")
        if deg and max(deg) >= 5: ctx.count("lattices_degree_ge5")
        if any(None in r for r in t["edge_plaq"]): ctx.count("lattices_with_INVALID_sides")
        ctx.case((l.n_vertices, l.n_edges, str(t["plaq"])[:200], fam), nontrivial=len(t["plaq"]) >= 1 and l.n_edges >= 3,
                 sample=dict(case=name, V=l.n_vertices, E=l.n_edges, F=len(t["plaq"]), coordination=t["coordination"][:10]))
    # the constructor arguments in other representations (crossing as float64 - what make_dual hands over -, int32 / int8 indices and crossings, column-major,
    # read-only): same edges, crossings, vectors, tables and plaquettes, and the arrays handed over are left untouched
    for name, fam, l in keep[:: max(1, len(keep) // (12 if ctx.tier == "quick" else 80))]:
        P, E, C = zoo.raw(l)
        try:
            base = Lattice(P.copy(), E.copy(), C.copy())
            tb = tables_of(base)
        except Exception:
            continue
        narrow = [(f"indices {np.dtype(dt).name}", (P.copy(), E.astype(dt), C.copy())) for dt in (np.uint8, np.int8, np.int16, np.uint16, np.uint32)
                  if len(P) - 1 <= np.iinfo(dt).max]
        for lab, (Pv, Ev, Cv) in narrow + [("crossing float64", (P.copy(), E.copy(), C.astype(np.float64))), ("indices int32, crossing int8", (P.copy(), E.astype(np.int32), C.astype(np.int8))),
                                   ("column-major", (np.asfortranarray(P), np.asfortranarray(E), np.asfortranarray(C))), ("crossing float64, column-major", (P.copy(), E.copy(), np.asfortranarray(C.astype(np.float64))))]:
            keepP, keepE, keepC = np.array(Pv).copy(), np.array(Ev).copy(), np.array(Cv).copy()
            rep = lambda what: ctx.impl_violation(f"{name}: built from ({lab}) arrays, {what}", dict(case=name, representation=lab, lattice=zoo.lat_to_json(l)))
            try:
                lv = Lattice(Pv, Ev, Cv)
                if not (np.array_equal(lv.edges.crossing, C) and np.array_equal(lv.edges.indices, E) and np.allclose(lv.edges.vectors, base.edges.vectors, atol=1e-12, rtol=0)):
                    rep("the lattice has different edges / crossings / edge vectors than the same lattice built from int64 arrays"); continue
                if tables_of(lv) != tb:
                    rep("the adjacency tables / plaquettes differ from those of the same lattice built from int64 arrays"); continue
                if not (np.array_equal(Pv, keepP) and np.array_equal(Ev, keepE) and np.array_equal(Cv, keepC)):
                    rep("the constructor modified an array it was handed"); continue
            except Exception as ex:
                rep(f"raised {type(ex).__name__}: {ex}"); continue
            ctx.case((name, "constructor", lab), nontrivial=True)
    # narrow index dtypes on lattices large enough for products of indices to leave the dtype (uint8: 17 vertices, int16: 182, uint16: 257)
    for name, lb in [("honey4", eg.honeycomb_lattice(4)), ("honey10", eg.honeycomb_lattice(10)), ("vor130", zoo.voronoi(rng, 130))]:
        P, E, C = zoo.raw(lb)
        try:
            tb = tables_of(Lattice(P.copy(), E.copy(), C.copy()))
        except Exception:
            continue
        for dt in (np.uint8, np.int8, np.int16, np.uint16, np.uint32, np.int32):
            if len(P) - 1 > np.iinfo(dt).max:
                continue
            rep = lambda what: ctx.impl_violation(f"{name}: built from {np.dtype(dt).name} edge indices, {what}", dict(case=name, representation=np.dtype(dt).name, lattice=zoo.lat_to_json(lb)))
            try:
                if tables_of(Lattice(P.copy(), E.astype(dt), C.copy())) != tb:
                    rep("the adjacency tables / plaquettes differ from those of the same lattice built from int64 arrays")
            except Exception as ex:
                rep(f"raised {type(ex).__name__}: {ex}")
            ctx.case((name, "index dtype", np.dtype(dt).name), nontrivial=True)
            # the neighbour helpers asked with the vertex / edge index in every integer form a caller has (a Python int, the items of np.arange, of the edge table itself)
            try:
                ln = Lattice(P.copy(), E.astype(dt), C.copy())
                ends = np.asarray(E, dtype=int)
                for v in sorted({0, 1, len(P) // 2, len(P) - 2, len(P) - 1}):
                    want = None
                    for form in (int, np.int64, np.intp, np.int32, dt, np.uint64):
                        vi, ei = gu.vertex_neighbours(ln, form(v))
                        got = sorted((int(a), int(b)) for a, b in zip(vi, ei))
                        if want is None:
                            want = sorted((int(ends[e_, 0] + ends[e_, 1] - v) if ends[e_, 0] != ends[e_, 1] else v, e_) for e_ in range(len(ends)) if v in ends[e_])
                        if got != want:
                            rep(f"vertex_neighbours(l, {form.__name__}({v})) = {got} is not the list of (far end, edge) pairs of the edges at vertex {v} ({want})"); break
                    ctx.count("vertex_neighbours_index_forms")
            except Exception as ex:
                rep(f"vertex_neighbours raised {type(ex).__name__}: {ex}")
    # a lattice with more than a thousand edges: edge-neighbour table against the helper and against the definition, coordination, adjacency matrix
    for name, lb in [("honey21", eg.honeycomb_lattice(21))] + ([] if ctx.tier == "quick" else [("vor900", zoo.voronoi(rng, 900))]):
        lb = zoo.rebuild(lb)
        idx = np.asarray(lb.edges.indices, dtype=int)
        at = [[] for _ in range(lb.n_vertices)]
        for e_, (a, b) in enumerate(idx):
            at[a].append(e_); at[b].append(e_)
        bad = None
        for e_, (a, b) in enumerate(idx):
            want = sorted(set(at[a] + at[b]) - {e_})
            if sorted(int(x) for x in lb.edges.adjacent_edges[e_]) != want:
                bad = f"edges.adjacent_edges[{e_}] = {sorted(int(x) for x in lb.edges.adjacent_edges[e_])[:8]}.. is not the set of other edges sharing a vertex with edge {e_} ({want[:8]}..)"; break
            if e_ % 37 == 0 and sorted(int(x) for x in gu.edge_neighbours(lb, e_)) != want:
                bad = f"edge_neighbours(l, {e_}) disagrees with the edges sharing a vertex with edge {e_}"; break
        adj = lb.adjacency_matrix
        if bad is None and (adj.sum() != 2 * len(set(map(tuple, np.sort(idx, axis=1)))) or not np.array_equal(adj, adj.T)):
            bad = "the adjacency matrix is not symmetric with True exactly at joined pairs"
        if bad is None and [int(x) for x in lb.vertices.coordination_numbers] != [len(x) for x in at]:
            bad = "coordination numbers do not count the edge ends"
        if bad:
            ctx.impl_violation(f"{name} ({lb.n_edges} edges): {bad}", dict(case=name, generator=name))
        ctx.case((name, "large"), nontrivial=True); ctx.count("lattices_with_more_than_1024_edges")
    # every table read again after a panel of other operations on the same lattice object: the tables still agree with the edges and plaquettes
    from koala.flux_finder import flux_finder as ff
    for name, fam, l in keep[:: max(1, len(keep) // (10 if ctx.tier == "quick" else 60))]:
        l = zoo.rebuild(l)
        try:
            before = tables_of(l)
        except Exception:
            continue
        ran = []
        raw0 = [np.array(a).copy() for a in (l.vertices.positions, l.edges.indices, l.edges.crossing, l.edges.vectors)]
        panel_ops = lambda l: (("make_dual", lambda: gu.make_dual(l)), ("make_dual(point averages)", lambda: gu.make_dual(l, True)), ("plaquette_spanning_tree", lambda: gu.plaquette_spanning_tree(l)),
                          ("plaquette_spanning_tree(False)", lambda: gu.plaquette_spanning_tree(l, False)), ("vertices_to_polygon", lambda: gu.vertices_to_polygon(l)),
                          ("remove_trailing_edges", lambda: gu.remove_trailing_edges(l)), ("cut_boundaries", lambda: cut_boundaries(l)),
                          ("fluxes_from_ujk", lambda: ff.fluxes_from_ujk(l, np.ones(l.n_edges, dtype=np.int8))), ("ujk_from_fluxes", lambda: ff.ujk_from_fluxes(l, np.ones(l.n_plaquettes, dtype=np.int8))),
                          ("permute_vertices", lambda: permute_vertices(l, rng.permutation(l.n_vertices))), ("lloyd_relaxation", lambda: gu.lloyd_relaxation(l, 1) if fam == "vor" else None))
        for oname, op in panel_ops(l):
            try:
                with warnings.catch_warnings():
                    warnings.simplefilter("ignore")
                    op()
                ran.append(oname)
            except Exception:
                continue                                          # an operation that does not apply to this lattice (too small, open, ...) is not this property's business
            try:
                after = tables_of(l)
            except Exception as ex:
                ctx.impl_violation(f"{name}: reading the tables after {oname} raised {type(ex).__name__}: {ex}", dict(case=name, after=oname, lattice=zoo.lat_to_json(l))); break
            if after != before:
                key = [k for k in before if before[k] != after[k]]
                ctx.impl_violation(f"{name}: after {oname}(lattice) the lattice's own table(s) {key} differ from what they were (and from the edge / plaquette lists)",
                                   dict(case=name, after=oname, tables=key, lattice=zoo.lat_to_json(l))); break
            raw1 = (l.vertices.positions, l.edges.indices, l.edges.crossing, l.edges.vectors)
            changed = [nm for nm, a, b in zip(("positions", "edge indices", "crossings", "edge vectors"), raw0, raw1) if a.dtype != b.dtype or not np.array_equal(a, b)]
            if changed:
                ctx.impl_violation(f"{name}: {oname}(lattice) changed the lattice's own {changed}: the cached tables were computed from other arrays than the lattice now has",
                                   dict(case=name, after=oname, arrays=changed, lattice=zoo.lat_to_json(l))); break
        # the same operations, each on a fresh copy whose tables have not been read yet: the tables read afterwards are those of the untouched lattice
        for k_, (oname, _) in enumerate(panel_ops(l)):
            l2 = zoo.rebuild(l)
            try:
                with warnings.catch_warnings():
                    warnings.simplefilter("ignore")
                    panel_ops(l2)[k_][1]()
            except Exception:
                continue
            try:
                after = tables_of(l2)
            except Exception as ex:
                ctx.impl_violation(f"{name}: reading the tables for the first time after {oname} raised {type(ex).__name__}: {ex}", dict(case=name, after=oname, first_access=True, lattice=zoo.lat_to_json(l))); break
            if after != before:
                key = [k for k in before if before[k] != after[k]]
                ctx.impl_violation(f"{name}: table(s) {key} read for the first time after {oname}(lattice) are not those of the same lattice left alone",
                                   dict(case=name, after=oname, first_access=True, tables=key, lattice=zoo.lat_to_json(l))); break
            ctx.count("operations_before_first_table_access")
        ctx.case((name, "tables after operations"), nontrivial=len(ran) >= 4)
        ctx.count("operation_panels_run")
    # two lattices alive at once, their tables read in turns: each lattice's tables are its own
    pool = [(n_, l_) for n_, f_, l_ in keep if l_.n_edges >= 3][:: max(1, len(keep) // (8 if ctx.tier == "quick" else 40))]
    for (na, la), (nb, lb_) in zip(pool, pool[1:] + pool[:1]):
        try:
            ta, tb_ = tables_of(zoo.rebuild(la)), tables_of(zoo.rebuild(lb_))
        except Exception:
            continue
        for order in ("plaquettes of both first", "one table at a time"):
            A, B = zoo.rebuild(la), zoo.rebuild(lb_)
            try:
                if order == "plaquettes of both first":
                    _ = A.plaquettes; _ = B.plaquettes
                    got_a, got_b = tables_of(A), tables_of(B)
                else:
                    _ = A.plaquettes; _ = B.plaquettes; x1 = A.vertices.adjacent_plaquettes; _ = B.n_plaquettes; x2 = B.edges.adjacent_plaquettes; x3 = A.edges.adjacent_plaquettes; x4 = B.vertices.adjacent_plaquettes
                    got_b, got_a = tables_of(B), tables_of(A)
            except Exception as ex:
                ctx.impl_violation(f"{na} and {nb} alive together ({order}): reading the tables raised {type(ex).__name__}: {ex}", dict(case=na, other=nb, order=order, lattice=zoo.lat_to_json(la), other_lattice=zoo.lat_to_json(lb_))); break
            for nm, got, want in ((na, got_a, ta), (nb, got_b, tb_)):
                if got != want:
                    key = [k for k in want if want[k] != got[k]]
                    ctx.impl_violation(f"{nm}: with a second lattice alive ({order}) its table(s) {key} are not its own", dict(case=na, other=nb, order=order, tables=key, lattice=zoo.lat_to_json(la), other_lattice=zoo.lat_to_json(lb_)))
            ctx.case((na, nb, "interleaved", order), nontrivial=True)
    # the same graph (vertex count, edge indices, crossings) drawn differently, one lattice right after the other in the same process: mirror images and rotated
    # copies of open lattices have the same arrays except for the positions, and a different cyclic order round every vertex
    for name, lb in [("wheel12", eg.higher_coordination_number_example(12)), ("two_triangles", eg.two_triangles()), ("tutte", eg.tutte_graph()), ("tri_square_pent", eg.tri_square_pent()),
                     ("vor20-xy", cut_boundaries(zoo.voronoi(rng, 20)))]:
        P, E, C = zoo.raw(lb)
        if np.any(C != 0):
            continue
        th = 0.7
        R = np.array([[np.cos(th), -np.sin(th)], [np.sin(th), np.cos(th)]])
        variants_ = [("as given", P), ("mirrored", np.stack([1 - P[:, 0], P[:, 1]], axis=1)), ("rotated", 0.5 + 0.6 * (P - 0.5) @ R.T), ("as given again", P.copy())]
        for lab, Pv in variants_:
            if Pv.min() < 0 or Pv.max() >= 1:
                continue
            lv = Lattice(Pv.copy(), E.copy(), C.copy())
            if min_gap(lv) < GAP_MIN:
                continue
            try:
                fails = oracle(lv, tables_of(lv), helpers_of(lv))
            except Exception as ex:
                fails = [f"reading the tables raised {type(ex).__name__}: {ex}"]
            if fails:
                ctx.impl_violation(f"{name} ({lab}, built right after the same graph in another drawing): {fails[0]}", dict(case=name, drawing=lab, failures=[str(f) for f in fails[:5]], lattice=zoo.lat_to_json(lv)))
            ctx.case((name, "redrawn", lab), nontrivial=True)
    # exactly 256 plaquettes (16 x 16 squares): every table of the lattice pickled after its plaquettes were computed, and of a copy, against the oracle
    import copy as _copy
    lb = eg.square_lattice(16, 16)
    try:
        _ = lb.plaquettes; _ = lb.edges.adjacent_plaquettes; _ = lb.vertices.adjacent_plaquettes
        for lab, lv in (("unpickled", pickle.loads(pickle.dumps(lb))), ("deep copy", _copy.deepcopy(lb))):
            fails = oracle(lv, tables_of(lv), helpers_of(lv))
            if fails:
                ctx.impl_violation(f"square_lattice(16,16) [256 plaquettes, {lab} after the plaquette tables were computed]: {fails[0]}", dict(case="square16x16", what=lab, failures=[str(f) for f in fails[:5]]))
            ctx.case(("square16x16", lab), nontrivial=True)
    except Exception as ex:
        ctx.impl_violation(f"square_lattice(16,16): raised {type(ex).__name__}: {ex}", dict(case="square16x16"))
    # churn: fresh lattices that are dropped after use (re-used object addresses), judged by the table oracle
    for name, l in zoo.churn(rng, 40 if ctx.tier == "quick" else 400):
        if min_gap(l) < GAP_MIN:
            continue
        try:
            fails = oracle(l, tables_of(l), helpers_of(l))
        except Exception as ex:
            fails = [f"reading the tables raised {type(ex).__name__}: {ex}"]
        if fails:
            ctx.impl_violation(f"{name}: on a freshly built lattice {fails[0]}", dict(case=name, failures=[str(f) for f in fails[:5]], lattice=zoo.lat_to_json(l)))
        ctx.case((name, l.n_vertices, l.n_edges), nontrivial=l.n_edges >= 3)
        ctx.count("churn_lattices")
    ctx.assumptions += ["clockwise_about is read as anticlockwise-from-+x (pinned by koala's own test): agreement = same edge set, far ends, mirror cyclic order",
                        "CPython pickle and functools.cached_property behave as documented (the cache state machine of Props/C02 models them)"]


def replay(ctx, path):
    j = json.loads(open(path).read())["replay"]
    lat = j["lattice"]; S = lat["scale"]
    l = Lattice(np.array(lat["pos"], dtype=float) / S, np.array(lat["edges"], dtype=int).reshape(-1, 2), np.array(lat["cross"], dtype=int).reshape(-1, 2))
    fails = oracle(l, tables_of(l), helpers_of(l))
    print("oracle failures:", fails)
    return 1 if fails else 0
