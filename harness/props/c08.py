"""C08 - the Bloch Hamiltonian of a unit cell reproduces the spectrum of the tiled system.

L1: Props/C08.lean (plane waves intertwine the tiled matrix with the Bloch matrix for every commutative ring, finite abelian group of cells,
    multiplicative phase and list of bonds - parallel bonds included; eigenvectors lift; Bloch = real-space matrix at the trivial character;
    Hermitian for unitary characters; koala's characters exp(i k.d) are multiplicative, 2*pi-periodic and trivial on whole-system translations at
    the allowed momenta).
L2: entries of `k_hamiltonian` at momenta in (pi/2)Z^2 (fourth roots of unity, dyadic couplings) are compared with the exact Gaussian-integer model.
L3: the statement on the implementation: union over allowed momenta of eigvalsh(H_k) vs eigvalsh of the Majorana Hamiltonian of koala's own
    tiling, Hermiticity, periodicity, k = 0, and the three analysis helpers against an independent evaluation.
"""
from __future__ import annotations

import json

import numpy as np

import core
import zoo
from koala import example_graphs as eg
from koala import hamiltonian as ham
from koala import phase_space as ps
from koala.lattice import Lattice

SJ = 64


def unit_cells(ctx, rng):
    quick = ctx.tier == "quick"
    out = [("honey1", eg.honeycomb_lattice(1)), ("honey2", eg.honeycomb_lattice(2)), ("hso1", eg.hex_square_oct_lattice(1)),
           ("trinon1", eg.tri_non_lattice(1)), ("square11", eg.square_lattice(1, 1)), ("square22", eg.square_lattice(2, 2)),
           ("trinon2", eg.tri_non_lattice(2))]
    for N in ([3, 4, 6, 10] if quick else [3, 3, 4, 5, 6, 8, 10, 15, 20, 30]):
        out.append((f"vor{N}", zoo.voronoi(rng, N)))
    # every kind of crossing must occur: single-axis, corner (+1,+1)/(-1,-1) and anti-diagonal corner (+1,-1)/(-1,+1) edges
    out.append(("all-crossings", Lattice(np.array([[0.2, 0.3], [0.7, 0.6], [0.4, 0.8]]),
                                         np.array([[0, 1], [1, 2], [2, 0], [0, 1], [1, 2], [2, 0], [0, 2], [1, 0]]),
                                         np.array([[0, 0], [0, 0], [0, 0], [1, -1], [-1, 1], [1, 1], [-1, 0], [0, 1]]))))
    found = 0
    for t in range(200):
        if found >= (2 if quick else 6):
            break
        l = zoo.voronoi(rng, int(rng.integers(3, 12)))
        c = l.edges.crossing
        if np.any((c[:, 0] * c[:, 1]) == -1):
            out.append((f"vor-antidiag#{found}", l)); found += 1
    small = zoo.voronoi(rng, 3)
    out.append(("tiled-vor3", eg.tile_unit_cell(small.vertices.positions, small.edges.indices, small.edges.crossing, [2, 1])))
    return out


def independent_helpers(Hk, kx_n, ky_n):
    ks = [(2 * np.pi * a / kx_n, 2 * np.pi * b / ky_n) for b in range(ky_n) for a in range(kx_n)]
    ev = np.array([np.linalg.eigvalsh(Hk(np.array(k))) for k in ks])
    n = ev.shape[1]
    lower = ev[:, : n // 2]
    return np.array(ks), lower.mean(), np.abs(ev).min(), np.abs(ev).min(axis=1).reshape(ky_n, kx_n)


def run(ctx):
    ctx.rule = ("one evaluation = one (unit cell, u, J, colouring-or-None, n_x x n_y) comparison of the union of Bloch spectra with the tiled spectrum, "
                "one Bloch matrix compared with the exact model, or one analysis-helper call; non-trivial = cell with a crossing edge and tiling larger "
                "than 1x1; distinct by (cell, u, J, colouring, tiling | momentum | helper)")
    ctx.run_audit()
    rng = np.random.default_rng(ctx.seed)
    quick = ctx.tier == "quick"
    tilings = [(1, 1), (2, 2), (2, 3), (3, 1), (4, 4), (1, 4)] if quick else [(a, b) for a in range(1, 5) for b in range(1, 5)]
    reqs, meta = [], []
    for name, l in unit_cells(ctx, rng):
        n, E = l.n_vertices, l.n_edges
        P, Ed, C = zoo.raw(l)
        ctx.count("unit_cells")
        if "lat_fp_prev" in dir() and lat_fp_prev is not None and core.lattice_fingerprint(lat_fp_prev[1], with_plaquettes=False) != lat_fp_prev[0]:
            ctx.impl_violation(f"{lat_fp_prev[2]}: a Bloch-Hamiltonian call modified the lattice it was given", dict(case=lat_fp_prev[2], lattice=zoo.lat_to_json(lat_fp_prev[1])))
        lat_fp_prev = (core.lattice_fingerprint(l, with_plaquettes=False), l, name)
        for trial in range(1 if quick else 3):
            u = (1 - 2 * rng.integers(0, 2, size=E)).astype(np.int8)
            J = rng.integers(1, 4 * SJ, size=3) / SJ
            col = rng.integers(0, 3, size=E).astype(np.int8)
            for c in (col, None):
                tag = f"{name}#{trial}{'c' if c is not None else 'n'}"
                rep = lambda what, **kw: ctx.impl_violation(f"{tag}: {what}", dict(case=tag, lattice=zoo.lat_to_json(l), u=u.tolist(), J=J.tolist(),
                                                                                   coloring=None if c is None else c.tolist(), **kw))
                try:
                    Hk = ps.k_hamiltonian_generator(l, c, u, J)
                    H0 = Hk(np.array([0.0, 0.0]))
                except Exception as ex:
                    rep(f"k_hamiltonian raised {type(ex).__name__}: {ex}"); continue
                if not np.array_equal(H0, ham.majorana_hamiltonian(l, c, u, J)):
                    rep("Bloch Hamiltonian at k=0 is not the real-space Majorana Hamiltonian of the cell"); continue
                # couplings of unusual magnitude / nearly equal couplings (exact dyadic numbers): k = 0 must still be the real-space Hamiltonian, entry by entry
                if trial == 0 and c is not None:
                    for Jx in (np.array([1.0, 2.0, 3.0]) * 2.0 ** -30, np.array([1.0, 1.0 + 2.0 ** -18, 1.0 - 2.0 ** -18]), np.array([2.0 ** 20, 2.0 ** 20 + 1, 2.0 ** 20 - 2])):
                        wantx = np.zeros((n, n), dtype=complex)
                        for (a, b), jj, uu in zip(Ed, Jx[c], u):
                            wantx[b, a] += 0.5j * jj * uu
                            wantx[a, b] -= 0.5j * jj * uu
                        try:
                            gotx = ps.k_hamiltonian_generator(l, c, u, Jx)(np.array([0.0, 0.0]))
                        except Exception as ex:
                            rep(f"k_hamiltonian raised {type(ex).__name__}: {ex} for J = {Jx.tolist()}"); break
                        if not np.array_equal(gotx, wantx):
                            rep(f"with couplings J = {Jx.tolist()} the Bloch Hamiltonian at k=0 is not the sum of the J[colour] bond terms (max deviation {np.abs(gotx - wantx).max():.3e})"); break
                # the same with the bonds written as doubles and the very same arrays used for both Hamiltonians, in both orders of construction
                uf = u.astype(np.float64); keep = uf.copy()
                Hkf = ps.k_hamiltonian_generator(l, c, uf, J)
                Hreal = ham.majorana_hamiltonian(l, c, uf, J)
                if not (np.array_equal(Hkf(np.array([0.0, 0.0])), Hreal) and np.array_equal(Hreal, H0) and np.array_equal(uf, keep)):
                    rep("with float64 bond variables shared between the two constructions, the Bloch Hamiltonian at k=0 differs from the real-space one (or the bonds were modified)"); continue
                k = rng.uniform(-4, 4, size=2)
                H0_keep = H0.copy()
                Hr = Hk(k)
                Hr_keep = Hr.copy()
                if trial == 0:
                    import variants
                    for argname, base_arg in (("ujk", u), ("coloring", c), ("J", J), ("k", k)):
                        if base_arg is None:
                            continue
                        for lab, av in variants.of_array(base_arg, floats=(argname != "coloring")):
                            keep = np.array(av).copy()
                            args = dict(ujk=u, coloring=c, J=J, k=k); args[argname] = av
                            try:
                                Hv = ps.k_hamiltonian_generator(l, args["coloring"], args["ujk"], args["J"])(args["k"])
                            except Exception as ex:
                                rep(f"k_hamiltonian raises {type(ex).__name__}: {ex} when {argname} is passed as {lab}", representation=lab); break
                            if not np.array_equal(Hv, Hr):
                                rep(f"the Bloch Hamiltonian changes when the same {argname} is passed as {lab}", representation=lab); break
                            if not variants.untouched(lab, keep, av):
                                rep(f"k_hamiltonian modified its {argname} argument ({lab})", representation=lab); break
                sc = max(1.0, np.abs(Hr).max())
                if not np.allclose(Hr, Hr.conj().T, atol=1e-13 * sc, rtol=0):
                    rep("Bloch Hamiltonian is not Hermitian", k=k.tolist()); continue
                if not (np.allclose(Hk(k + [2 * np.pi, 0]), Hr, atol=1e-12 * sc, rtol=0) and np.allclose(Hk(k + [0, -2 * np.pi]), Hr, atol=1e-12 * sc, rtol=0)):
                    rep("Bloch Hamiltonian is not 2*pi-periodic", k=k.tolist()); continue
                # matrices handed out earlier are still what they were (a list [H(k) for k in grid] holds that many different matrices)
                if not (np.array_equal(H0, H0_keep) and np.array_equal(Hr, Hr_keep)):
                    rep("a Bloch matrix returned by an earlier call changed when the generated function was called again: [H(k) for k in grid] does not hold the matrices of the grid", k=k.tolist()); continue
                # ---- union of Bloch spectra vs tiled system
                for nx, ny in tilings:
                    if n * nx * ny > 400:
                        continue
                    t = eg.tile_unit_cell(P, Ed, C, [nx, ny])
                    ut = np.tile(u, nx * ny); ct = None if c is None else np.tile(c, nx * ny)
                    want = np.linalg.eigvalsh(ham.majorana_hamiltonian(t, ct, ut, J))
                    got = np.sort(np.concatenate([np.linalg.eigvalsh(Hk(2 * np.pi * np.array([a / nx, b / ny]))) for a in range(nx) for b in range(ny)]))
                    if got.shape != want.shape or not np.allclose(got, want, atol=1e-9 * max(1.0, np.abs(want).max()), rtol=0):
                        rep(f"union of Bloch spectra over the {nx}x{ny} allowed momenta differs from the spectrum of the tiled system by "
                            f"{np.abs(got - want).max() if got.shape == want.shape else 'shape'}", nx=nx, ny=ny); break
                    ctx.case((tag, nx, ny), nontrivial=bool(np.any(C != 0)) and nx * ny > 1, sample=dict(case=tag, tiling=[nx, ny], n_sites=n))
                # ---- analysis helpers
                if n % 2 == 1:
                    ctx.count("helpers_precondition_excluded_odd_number_of_bands")      # 'lower half' of an odd spectrum is not defined by the statement
                for knum in () if n % 2 == 1 else (3, [2, 5]) if quick else (1, 4, [2, 5], [3, 1]):
                    kx_n, ky_n = (knum, knum) if np.isscalar(knum) else knum
                    ks, mean_lower, gap, gaps = independent_helpers(Hk, kx_n, ky_n)
                    try:
                        gs, gp, klist, en = ps.analyse_hk(Hk, knum, return_all_results=True)
                        gs2, gp2 = ps.analyse_hk(Hk, knum)
                    except Exception as ex:
                        rep(f"analyse_hk raised {type(ex).__name__}: {ex}", k_num=knum); break
                    ok = (np.allclose(klist, ks, atol=1e-12) and abs(gs - mean_lower) < 1e-9 * sc and abs(gp - gap) < 1e-9 * sc and gs == gs2 and gp == gp2
                          and en.shape == (kx_n * ky_n, n // 2))
                    if not ok:
                        rep(f"analyse_hk(k_num={knum}) does not report the mean of the lower half / the smallest |E| on the 2*pi*m/n grid", k_num=knum); break
                    if np.isscalar(knum):
                        g, kv = ps.gap_over_phase_space(Hk, knum, return_k_values=True)
                        if g.shape != (knum, knum) or not np.allclose(g, gaps, atol=1e-9 * sc, rtol=0) or not np.allclose(kv.reshape(-1, 2), ks, atol=1e-12):
                            rep(f"gap_over_phase_space(k_num={knum}) is not the per-momentum minimum |E|", k_num=knum); break
                    ctx.case((tag, "helpers", str(knum)), nontrivial=True)
                # ---- model: momenta on the (pi/2) grid
                qs = [[0, 0], [1, 0], [0, 1], [2, 3], [-1, 2], [3, 3]]
                Js = J[c] if c is not None else np.full(E, J[0])
                w = [int(round(jj * SJ)) * int(uu) for jj, uu in zip(Js, u)]
                reqs.append(dict(op="bloch", nV=n, edges=Ed.tolist(), cross=C.tolist(), w=w, qs=qs))
                meta.append((tag, l, Hk, qs))
    # ---- the momentum grid for every sampling number up to 130 per axis (one axis at a time, on a two-site cell): exactly k_num points 2*pi*m/k_num per axis
    l2 = eg.honeycomb_lattice(1)
    u2 = np.ones(l2.n_edges, dtype=np.int8)
    Hk2 = ps.k_hamiltonian_generator(l2, None, u2, np.array([1.0, 1.0, 1.0]))
    for nk in range(1, 131 if quick else 401):
        for knum in ([nk, 1], [1, nk]) + (() if nk > 12 else (nk,)):
            kx_n, ky_n = (knum, knum) if np.isscalar(knum) else knum
            rep = lambda what, **kw: ctx.impl_violation(f"grid k_num={knum}: {what}", dict(case=f"grid{knum}", generator="honeycomb_lattice(1)", k_num=knum, **kw))
            try:
                gs, gp, klist, en = ps.analyse_hk(Hk2, knum, return_all_results=True)
            except Exception as ex:
                rep(f"analyse_hk raised {type(ex).__name__}: {ex}"); continue
            ks = np.array([(2 * np.pi * a / kx_n, 2 * np.pi * b / ky_n) for b in range(ky_n) for a in range(kx_n)])
            if np.shape(klist) != ks.shape or not np.allclose(klist, ks, atol=1e-12) or np.shape(en)[0] != kx_n * ky_n:
                rep(f"analyse_hk samples {np.shape(klist)[0]} momenta, the grid 2*pi*m/k_num has {kx_n * ky_n} (or the momenta differ from the grid)"); continue
            ev = np.array([np.linalg.eigvalsh(Hk2(k)) for k in ks])
            if abs(gs - ev[:, : ev.shape[1] // 2].mean()) > 1e-9 or abs(gp - np.abs(ev).min()) > 1e-9:
                rep("analyse_hk does not report the mean of the lower half / the smallest |E| on the grid"); continue
            ctx.case(("grid", str(knum)), nontrivial=True)
    # ---- grids of more than a thousand momenta that are not a multiple of 1024 (scalar k_num = 33, 40; [40, 30]) on the two-site cell
    for knum in (33, 40, [40, 30], [30, 40]):
        kx_n, ky_n = (knum, knum) if np.isscalar(knum) else knum
        rep = lambda what, **kw: ctx.impl_violation(f"grid k_num={knum}: {what}", dict(case=f"grid{knum}", generator="honeycomb_lattice(1)", k_num=knum, **kw))
        try:
            gs, gp, klist, en = ps.analyse_hk(Hk2, knum, return_all_results=True)
            gs_b, gp_b = ps.analyse_hk(Hk2, knum)
        except Exception as ex:
            rep(f"analyse_hk raised {type(ex).__name__}: {ex}"); continue
        ks = np.array([(2 * np.pi * a / kx_n, 2 * np.pi * b / ky_n) for b in range(ky_n) for a in range(kx_n)])
        ev = np.array([np.linalg.eigvalsh(Hk2(k)) for k in ks])
        if abs(gs - ev[:, : ev.shape[1] // 2].mean()) > 1e-9 or abs(gp - np.abs(ev).min()) > 1e-9 or abs(gs_b - gs) > 1e-12 or abs(gp_b - gp) > 1e-12:
            rep("analyse_hk does not report the mean of the lower half / the smallest |E| on the grid (grid of more than 1024 momenta)"); continue
        ctx.case(("grid-large", str(knum)), nontrivial=True)
    # ---- unit cells whose index arrays have a narrow dtype (uint8 with 18 and 32 sites, uint16 with 288): k = 0 is still the real-space Hamiltonian, entry by entry
    for name_, lb, dt in (("honey3[uint8]", eg.honeycomb_lattice(3), np.uint8), ("honey4[uint8]", eg.honeycomb_lattice(4), np.uint8), ("honey12[uint16]", eg.honeycomb_lattice(12), np.uint16), ("honey3[int8]", eg.honeycomb_lattice(3), np.int8)):
        P_, E_, C_ = zoo.raw(lb)
        ln = Lattice(P_.copy(), E_.astype(dt), C_.copy())
        un = (1 - 2 * rng.integers(0, 2, size=len(E_))).astype(np.int8); Jn = np.array([1.0, 0.5, 2.0]); cn_ = rng.integers(0, 3, size=len(E_)).astype(np.int8)
        want = np.zeros((len(P_), len(P_)), dtype=complex)
        for (a, b), jj, uu in zip(E_, Jn[cn_], un):
            want[b, a] += 0.5j * jj * uu; want[a, b] -= 0.5j * jj * uu
        try:
            got_r = ham.majorana_hamiltonian(ln, cn_, un, Jn)
            got_k = ps.k_hamiltonian_generator(ln, cn_, un, Jn)(np.array([0.0, 0.0]))
            if not (np.array_equal(got_r, want) and np.array_equal(got_k, want)):
                ctx.impl_violation(f"{name_}: on a lattice built from {np.dtype(dt).name} edge indices the real-space / k=0 Hamiltonian is not the sum of the bond terms", dict(case=name_, dtype=np.dtype(dt).name))
        except Exception as ex:
            ctx.impl_violation(f"{name_}: raised {type(ex).__name__}: {ex}", dict(case=name_, dtype=np.dtype(dt).name))
        ctx.case((name_, "narrow dtype"), nontrivial=True)
    # ---- churn: unit cells built, used once and dropped (object addresses are re-used): the Bloch matrix at a generic k is the sum of this cell's bond terms
    for name_, lc in zoo.churn(rng, 40 if ctx.tier == "quick" else 400, lo=4, hi=7):
        P_, E_, C_ = zoo.raw(lc)
        un = (1 - 2 * rng.integers(0, 2, size=len(E_))).astype(np.int8); Jn = np.array([1.0, 0.5, 2.0]); cn_ = rng.integers(0, 3, size=len(E_)).astype(np.int8)
        kk = rng.uniform(-3, 3, size=2)
        want = np.zeros((len(P_), len(P_)), dtype=complex)
        for (a, b), cr, jj, uu in zip(E_, C_, Jn[cn_], un):
            t_ = 0.5j * jj * uu * np.exp(1j * float(cr @ kk))
            want[b, a] += t_; want[a, b] += np.conj(t_)
        try:
            got_k = ps.k_hamiltonian_generator(lc, cn_, un, Jn)(kk)
            if got_k.shape != want.shape or not np.allclose(got_k, want, atol=1e-12, rtol=0):
                ctx.impl_violation(f"{name_} ({len(P_)} sites, {len(E_)} bonds, built after other cells were dropped): the Bloch matrix at k = {kk.tolist()} is not the sum of this cell's bond terms",
                                   dict(case=name_, k=kk.tolist(), lattice=zoo.lat_to_json(lc)))
        except Exception as ex:
            ctx.impl_violation(f"{name_}: raised {type(ex).__name__}: {ex}", dict(case=name_, lattice=zoo.lat_to_json(lc)))
        ctx.case((name_, len(P_), len(E_), "churn"), nontrivial=True); ctx.count("churn_cells")
        del lc
    outs = core.Driver().run_parallel(reqs)
    for (tag, l, Hk, qs), o in zip(meta, outs):
        brk = lambda what: ctx.corr_break(f"{tag}: {what}", dict(case=tag, lattice=zoo.lat_to_json(l)))
        if "err" in o:
            brk(f"model error {o['err']}"); continue
        for q, M in zip(qs, o["H2"]):
            want = np.array([[complex(a, b) for a, b in row] for row in M]) / (2 * SJ)
            got = Hk(np.pi / 2 * np.array(q, dtype=float))
            if not np.allclose(got, want, atol=1e-12 * max(1.0, np.abs(want).max()), rtol=0):
                brk(f"Bloch matrix at k = (pi/2)*{q} differs from the exact model"); break
        else:
            ctx.count("bloch_matrices_compared", len(qs))
    ctx.assumptions += ["LAPACK eigvalsh is trusted for the spectrum comparisons (1e-9 relative)",
                        "exp at multiples of pi/2 is compared with the exact fourth roots of unity to 1e-12",
                        "the tiled system is built by koala's own tile_unit_cell (decided by C10)"]


def replay(ctx, path):
    j = json.loads(open(path).read())["replay"]
    lat = j["lattice"]
    l = Lattice(np.array(lat["pos"], dtype=float) / lat["scale"], np.array(lat["edges"], dtype=int).reshape(-1, 2),
                np.array(lat["cross"], dtype=int).reshape(-1, 2))
    u = np.array(j["u"], dtype=np.int8); J = np.array(j["J"]); c = None if j["coloring"] is None else np.array(j["coloring"], dtype=np.int8)
    nx, ny = j.get("nx", 2), j.get("ny", 2)
    Hk = ps.k_hamiltonian_generator(l, c, u, J)
    P, Ed, C = zoo.raw(l)
    t = eg.tile_unit_cell(P, Ed, C, [nx, ny])
    want = np.linalg.eigvalsh(ham.majorana_hamiltonian(t, None if c is None else np.tile(c, nx * ny), np.tile(u, nx * ny), J))
    got = np.sort(np.concatenate([np.linalg.eigvalsh(Hk(2 * np.pi * np.array([a / nx, b / ny]))) for a in range(nx) for b in range(ny)]))
    d = np.abs(got - want).max()
    print("max spectral difference:", d)
    return 1 if d > 1e-9 * max(1.0, np.abs(want).max()) else 0
