"""C04 - SAT-based colourings and dimerisations are sound, complete and exact.

L1: Props/C04.lean (semantics of the pairwise exactly-one encoding, sat <-> proper assignment, decode,
    completeness, models <-> assignments bijection, dimers, color_lattice's fixed colours).
L2: the CNF koala actually hands to the SAT solver (recorded by wrapping `Solver` inside koala's modules) is
    compared clause-for-clause with the model's encoder; every model the solver returned is evaluated and
    decoded by the Lean model and compared with koala's decoded output; the Lean brute-force model counter is
    compared with an independent backtracking counter on small instances.
L3: the statement itself on koala's outputs against an independent exhaustive search (validity, verdicts,
    exactly-once enumeration, first-n, fixed colours, color_lattice's convention).
"""
from __future__ import annotations

import itertools
import json

import numpy as np

import core
import zoo
import koala.graph_color as gc
import koala.graph_utils as gu
from koala import example_graphs as eg
from koala.lattice import Lattice
from pysat.solvers import Solver as RealSolver

COUNT_LIMIT = 200_000       # node budget of the independent backtracking counter


# ------------------------------------------------------------------------------------------------
# recording proxy for the SAT solver (third-party object wrapped in the harness process; no source hook)

class RecSolver:
    log = []

    def __init__(self, *a, **k):
        self.s = RealSolver(*a, **k)
        self.clauses, self.models, self.result = [], [], None
        RecSolver.log.append(self)

    def __enter__(self):
        return self

    def __exit__(self, *a):
        self.s.delete()

    def append_formula(self, f, *a, **k):
        cl = [list(map(int, c)) for c in getattr(f, "clauses", f)]
        self.clauses += cl
        return self.s.append_formula(cl, *a, **k)

    def add_clause(self, c, *a, **k):
        self.clauses.append(list(map(int, c)))
        return self.s.add_clause(c, *a, **k)

    def solve(self, *a, **k):
        self.result = self.s.solve(*a, **k)
        return self.result

    def get_model(self):
        m = self.s.get_model()
        if m is not None:
            self.models.append(list(m))
        return m

    def enum_models(self, *a, **k):
        for m in self.s.enum_models(*a, **k):
            self.models.append(list(m))
            yield m

    def __getattr__(self, name):
        return getattr(self.s, name)


def recorded(fn, *a, **k):
    """run a koala call with the recording solver; returns (result | exception, solver-record)"""
    RecSolver.log = []
    old = gc.Solver, gu.Solver
    gc.Solver = gu.Solver = RecSolver
    try:
        try:
            res = fn(*a, **k)
        except Exception as ex:
            res = ex
    finally:
        gc.Solver, gu.Solver = old
    recs = [r for r in RecSolver.log if r.clauses or r.result is not None]
    return res, (recs[-1] if recs else None)


def canon_cnf(cl):
    return sorted(set(tuple(sorted(c)) for c in cl))


# ------------------------------------------------------------------------------------------------
# independent exhaustive search (the oracle of L3)

def count_assignments(n, k, conflicts, fixed=(), limit=COUNT_LIMIT, collect=False):
    """number of maps c: range(n) -> range(k) with c[i] != c[j] for (i, j) in conflicts and c[e] == col for (col, e) in fixed.
    returns (count | None if budget exhausted, list of assignments if collect)"""
    nb = [set() for _ in range(n)]
    for i, j in conflicts:
        if i == j:
            return 0, []          # an item conflicting with itself can take no colour
        nb[i].add(j); nb[j].add(i)
    forced = {}
    for col, e in fixed:
        if forced.setdefault(e, col) != col:
            return 0, []
    c = [-1] * n
    nodes = [0]
    sols = []
    cnt = [0]

    def rec(i):
        nodes[0] += 1
        if nodes[0] > limit:
            raise TimeoutError
        if i == n:
            cnt[0] += 1
            if collect:
                sols.append(tuple(c))
            return
        cols = [forced[i]] if i in forced else range(k)
        for col in cols:
            if col >= k:
                continue
            if all(c[j] != col for j in nb[i]):
                c[i] = col
                rec(i + 1)
                c[i] = -1
    try:
        rec(0)
    except TimeoutError:
        return None, []
    return cnt[0], sols


def count_matchings(nV, edges, limit=COUNT_LIMIT, collect=False):
    """perfect matchings as 0/1 vectors over the edge list (multi-edges distinguished)"""
    inc = [[] for _ in range(nV)]
    for e, (a, b) in enumerate(edges):
        inc[a].append(e); inc[b].append(e)
    sel = [0] * len(edges)
    covered = [False] * nV
    nodes = [0]; cnt = [0]; sols = []

    def rec(v):
        nodes[0] += 1
        if nodes[0] > limit:
            raise TimeoutError
        while v < nV and covered[v]:
            v += 1
        if v == nV:
            cnt[0] += 1
            if collect:
                sols.append(tuple(sel))
            return
        for e in inc[v]:
            a, b = edges[e]
            w = b if a == v else a
            if w == v or covered[w]:
                continue
            covered[v] = covered[w] = True; sel[e] = 1
            rec(v + 1)
            covered[v] = covered[w] = False; sel[e] = 0
    try:
        rec(0)
    except TimeoutError:
        return None, []
    return cnt[0], sols


def edge_conflicts(edges):
    out = []
    for i, (a, b) in enumerate(edges):
        for j, (c, d) in enumerate(edges):
            if i < j and len({a, b} & {c, d}) > 0:
                out.append((i, j))
    return out


def other_solver_sat(n, k, conflicts, fixed):
    """second opinion for UNSAT on large instances: an independently built CNF on a different solver"""
    cl = []
    v = lambda i, c: i * k + c + 1
    for i in range(n):
        cl.append([v(i, c) for c in range(k)])
    for i, j in conflicts:
        for c in range(k):
            cl.append([-v(i, c), -v(j, c)])
    for col, e in fixed:
        cl.append([v(e, col)])
    with RealSolver(name="cadical153", bootstrap_with=cl) as s:
        return bool(s.solve())


# ------------------------------------------------------------------------------------------------
# inputs

PAR_CROSS = [(0, 0), (1, 0), (0, 1), (1, 1), (-1, 0), (-1, 1), (1, -1)]


def embed(nV, edges, rng=None):
    """a Lattice for an abstract multigraph: vertices on a jittered circle, parallel copies get different crossings"""
    ang = 2 * np.pi * (np.arange(nV) + 0.137) / max(nV, 1)
    pos = 0.5 + 0.31 * np.stack([np.cos(ang), np.sin(ang)], axis=1) * (1 + 0.07 * np.arange(nV))[:, None]
    pos = np.round(pos * 2**20) / 2**20
    seen = {}
    cr = []
    for a, b in edges:
        key = (min(a, b), max(a, b))
        t = seen.get(key, 0); seen[key] = t + 1
        c = PAR_CROSS[t % len(PAR_CROSS)]
        cr.append(c if a < b else (-c[0], -c[1]))
    return Lattice(pos, np.array(edges, dtype=int).reshape(-1, 2), np.array(cr, dtype=int).reshape(-1, 2))


def simple_graphs(n):
    pairs = list(itertools.combinations(range(n), 2))
    for mask in range(1, 2 ** len(pairs)):
        es = [p for i, p in enumerate(pairs) if (mask >> i) & 1]
        if max(max(e) for e in es) == n - 1:       # vertex_color infers n_vertices = max + 1
            yield es


def multigraphs(nV, max_edges):
    pairs = list(itertools.combinations(range(nV), 2))
    for m in range(1, max_edges + 1):
        for combo in itertools.combinations_with_replacement(range(len(pairs)), m):
            es = [pairs[i] for i in combo]
            if len(set(combo)) < m and max(max(e) for e in es) == nV - 1:   # genuinely multi
                yield es


def random_graph(rng, n):
    p = rng.uniform(0.25, 0.7)
    es = [(a, b) for a, b in itertools.combinations(range(n), 2) if rng.random() < p]
    if not es or max(max(e) for e in es) != n - 1:
        es.append((int(rng.integers(0, n - 1)), n - 1))
    return es


def small_inputs(ctx, rng):
    """(name, family, nV, edge list) of the abstract graphs"""
    out = []
    quick = ctx.tier == "quick"
    for n in (2, 3, 4):
        for es in simple_graphs(n):
            out.append((f"simple{n}:{es}", "simple<=4", n, es))
    g5 = list(simple_graphs(5))
    if quick:
        idx = rng.choice(len(g5), 60, replace=False)
        g5 = [g5[i] for i in idx]
    out += [(f"simple5:{es}", "simple5", 5, es) for es in g5]
    mg = [(nV, es) for nV in (2, 3, 4) for es in multigraphs(nV, 6)]
    if quick:
        idx = rng.choice(len(mg), 70, replace=False)
        mg = [mg[i] for i in idx]
    out += [(f"multi{nV}:{es}", "multigraph", nV, es) for nV, es in mg]
    for t in range(25 if quick else 250):
        n = int(rng.integers(6, 10))
        es = random_graph(rng, n)
        out.append((f"rand{n}#{t}", "random6-9", n, es))
    ctx.exhaustive = not quick
    return out


def cubic_lattices(ctx, rng):
    quick = ctx.tier == "quick"
    out = [("tutte", eg.tutte_graph()), ("honey1", eg.honeycomb_lattice(1)), ("honey2", eg.honeycomb_lattice(2)),
           ("honey3", eg.honeycomb_lattice(3)), ("hso1", eg.hex_square_oct_lattice(1)), ("hso2", eg.hex_square_oct_lattice(2)),
           ("trinon1", eg.tri_non_lattice(1)), ("trinon2", eg.tri_non_lattice(2)), ("multi_graph", eg.multi_graph()),
           ("bridge", eg.bridge_graph()), ("square22", eg.square_lattice(2, 2)), ("two_triangles", eg.two_triangles()),
           ("ladder6w", eg.n_ladder(6, True)), ("ladder4", eg.n_ladder(4, False)), ("ladder5", eg.n_ladder(5, False)), ("ladder7w", eg.n_ladder(7, True)),
           ("brick_wall42", zoo.brick_wall(4, 2)), ("brick_wall44", zoo.brick_wall(4, 4)), ("brick_wall64", zoo.brick_wall(6, 4))]
    Ns = [2, 3, 4, 5, 6, 9, 16, 30, 60] if quick else [2, 3, 4, 5, 6, 7, 8, 9, 12, 16, 25, 40, 60, 90, 130, 200]
    reps = 1 if quick else 3
    for N in Ns:
        for r in range(reps):
            l = zoo.voronoi(rng, N)
            out.append((f"vor{N}#{r}", l))
            if N >= 4 and r == 0:
                k = int(rng.integers(1, 4))
                try:
                    out.append((f"vor{N}-trunc", gu.vertices_to_polygon(l, rng.choice(l.n_vertices, k, replace=False))))
                except Exception:
                    pass
    return [(n, "cubic", zoo.rebuild(l)) for n, l in out]


# ------------------------------------------------------------------------------------------------
# the checks

class Job:
    """one koala call, its recorded CNF/models, and what the property demands of its result"""

    def __init__(self, name, fam, kind, mode, req, n, k, conflicts, fixed, lattice=None, edges=None, nV=None):
        self.__dict__.update(locals())
        self.res = self.rec = None


def as_rows(x):
    a = np.asarray(x)
    return [tuple(int(v) for v in row) for row in (a if a.ndim == 2 else a[None, :])]


def run_job(ctx, job):
    """execute the koala call; evaluate the property on its result (L3); return the driver request (L2)"""
    rep = lambda what, **kw: ctx.impl_violation(f"{job.name} [{job.kind} k={job.k} {job.mode}]: {what}",
                                                dict(case=job.name, kind=job.kind, k=job.k, mode=job.mode, nV=job.nV,
                                                     edges=job.edges, fixed=job.fixed,
                                                     lattice=(zoo.lat_to_json(job.lattice) if job.lattice is not None else None), **kw))
    kind, k, mode = job.kind, job.k, job.mode
    if kind == "vertex":
        call = lambda: gc.vertex_color(np.array(job.edges, dtype=int), n_colors=k, all_solutions=(mode == "all"))
    elif kind == "edge":
        kw = dict(n_colors=k, fixed=list(job.fixed))
        if mode == "all": kw["all_solutions"] = True
        elif mode.startswith("first"): kw["n_solutions"] = int(mode[5:])
        call = lambda: gc.edge_color(job.lattice, **kw)
    elif kind == "lattice":
        call = lambda: gc.color_lattice(job.lattice)
    else:
        call = lambda: gu.dimerise(job.lattice, n_solutions=(1 if mode == "single" else int(mode[5:])))
    res, rec = recorded(call)
    job.res, job.rec = res, rec
    # ---- independent verdict
    if kind == "dimer":
        count, sols = count_matchings(job.nV, job.edges, collect=True)
    else:
        count, sols = count_assignments(job.n, k, job.conflicts, job.fixed, collect=True)
    ctx.count(f"{kind}:{'unsat' if count == 0 else 'sat' if count else 'count-unknown'}")
    # ---- classify the implementation's answer
    unsolvable = False
    rows = None
    if isinstance(res, Exception):
        if isinstance(res, ValueError) and kind in ("lattice", "dimer"):
            unsolvable = True
        else:
            rep(f"raised {type(res).__name__}: {res}")
            return None
    elif kind in ("vertex", "edge"):
        ok, payload = res
        if not ok:
            unsolvable = True
        else:
            rows = as_rows(payload)
    else:
        rows = as_rows(res)
    # ---- the statement
    if unsolvable:
        if count is None:
            if other_solver_sat(job.n, k, job.conflicts, job.fixed) if kind != "dimer" else False:
                rep("reported unsolvable, a second solver finds a valid assignment")
            ctx.count("unsat_verdict_checked_by_second_solver")
        elif count > 0:
            rep(f"reported unsolvable although {count} valid assignment(s) exist", witness=list(sols[0]))
    else:
        if count == 0:
            rep("returned an assignment although none is valid", returned=list(rows[0]))
        for r in rows:
            if len(r) != job.n:
                rep(f"assignment has {len(r)} entries for {job.n} items"); break
            if kind == "dimer":
                deg = [0] * job.nV
                for e, (a, b) in enumerate(job.edges):
                    if r[e] not in (0, 1):
                        rep("dimer vector entry not in {0,1}", returned=list(r)); break
                    deg[a] += r[e]; deg[b] += r[e]
                if any(d != 1 for d in deg):
                    rep("a vertex does not touch exactly one dimer", returned=list(r), dimers_per_vertex=deg); break
            else:
                if any(not (0 <= c < k) for c in r):
                    rep("colour out of range", returned=list(r)); break
                bad = [(i, j) for i, j in job.conflicts if r[i] == r[j]]
                if bad:
                    rep(f"items {bad[0]} are in conflict but share colour {r[bad[0][0]]}", returned=list(r)); break
                badf = [(c, e) for c, e in job.fixed if r[e] != c]
                if badf:
                    rep(f"fixed colour {badf[0]} not honoured", returned=list(r)); break
        if len(set(rows)) != len(rows):
            rep("enumeration returned the same assignment twice", returned=[list(r) for r in rows])
        if count is not None:
            if mode == "all" and len(rows) != count:
                rep(f"all-solutions mode returned {len(rows)} assignments, {count} exist")
            if mode.startswith("first") and len(rows) != min(int(mode[5:]), count):
                rep(f"first-n mode returned {len(rows)} assignments, expected min(n, {count})")
            if mode in ("single",) and len(rows) != 1:
                rep(f"single mode returned {len(rows)} rows")
        if kind == "lattice":
            order = [int(e) for e in gu.clockwise_edges_about(vertex_index=0, g=job.lattice)]
            got = [rows[0][e] for e in order]
            if got != list(range(len(order))):
                rep(f"edges about vertex 0 in the helper's order {order} got colours {got}, expected 0,1,2")
            if np.asarray(res).dtype != np.int8:
                rep("color_lattice result is not int8")
    job.count = count
    job.rows = rows
    job.unsolvable = unsolvable
    # ---- request for the model
    req = dict(job.req)
    req["models"] = [m for m in (rec.models if rec else [])][:400]
    req["count"] = True
    return req


def compare(ctx, job, o):
    """correspondence: recorded CNF / models / decoded output vs the Lean model"""
    brk = lambda what, **kw: ctx.corr_break(f"{job.name} [{job.kind} k={job.k} {job.mode}]: {what}",
                                            dict(case=job.name, kind=job.kind, k=job.k, mode=job.mode, nV=job.nV, edges=job.edges,
                                                 fixed=job.fixed, **kw))
    if "err" in o:
        brk(f"model error {o['err']}"); return
    rec = job.rec
    complete_cnf = rec is not None and rec.result is not None      # the call got as far as solve()
    if complete_cnf:
        a, b = canon_cnf(rec.clauses), canon_cnf(o["cnf"])
        if a != b:
            only_impl = [c for c in a if c not in set(b)][:5]
            only_model = [c for c in b if c not in set(a)][:5]
            brk("clause set handed to the solver differs from the model's encoding", only_impl=only_impl, only_model=only_model)
            return
        ctx.count("cnf_compared")
        ctx.count("clauses_compared", len(a))
        if not all(o["sat"]):
            brk("a model returned by the solver does not satisfy the model's formula")
        if job.rows is not None:
            dec = [tuple(r) for r in o["decoded"]]
            if dec[:len(job.rows)] != list(job.rows)[:len(dec)]:
                brk("decoded output differs from the model's decode", impl=[list(r) for r in job.rows[:3]], model=[list(r) for r in dec[:3]])
        if any(max(abs(l) for l in c) > o["nvars"] for c in rec.clauses if c):
            brk("the solver was handed auxiliary variables beyond the reserved block")
    if o.get("count") is not None and job.count is not None:
        ctx.count("lean_bruteforce_counts_compared")
        if o["count"] != job.count:
            brk(f"Lean brute-force model count {o['count']} != independent backtracking count {job.count}")


def jobs_for_graph(ctx, rng, name, fam, nV, es, l):
    E = len(es)
    lat = zoo.lat_to_json(l)
    jobs = []
    conf = edge_conflicts(es)
    ks = range(1, 6)
    for k in ks:
        # vertex colouring
        for mode in ("single", "all"):
            if mode == "all" and k ** nV > 4000:
                continue
            jobs.append(Job(name, fam, "vertex", mode, dict(op="cnf", kind="vertex", adj=[list(e) for e in es], k=k), nV, k, list(es), []))
        # edge colouring
        if E > 9 and k > 3:
            continue
        fixeds = [[]]
        f = [(int(rng.integers(k)), int(rng.integers(E))) for _ in range(int(rng.integers(1, 4)))]
        fixeds.append(f)
        for fixed in fixeds:
            modes = ["single"]
            if k ** E <= 3000:
                modes += ["all", f"first{int(rng.integers(1, 6))}"]
            for mode in modes:
                jobs.append(Job(name, fam, "edge", mode, dict(op="cnf", kind="edge", k=k, fixed=[list(p) for p in fixed], **lat),
                                E, k, conf, fixed, lattice=l, edges=es, nV=nV))
    for mode in ("single", "first50"):
        jobs.append(Job(name, fam, "dimer", mode, dict(op="cnf", kind="dimer", **lat), E, 0, [], [], lattice=l, edges=es, nV=nV))
    for j in jobs:
        j.edges = [list(e) for e in es]; j.nV = nV
    return jobs


def run(ctx):
    ctx.rule = ("one evaluation = one koala call (vertex_color / edge_color / color_lattice / dimerise) on one graph with one n_colors, "
                "one fixed list and one mode, its recorded CNF compared with the model and its result judged against exhaustive search; "
                "non-trivial = graph with >= 3 edges; distinct by (graph, kind, k, fixed, mode)")
    ctx.run_audit()
    rng = np.random.default_rng(ctx.seed)
    jobs = []
    for name, fam, nV, es in small_inputs(ctx, rng):
        l = embed(nV, es)
        jobs += jobs_for_graph(ctx, rng, name, fam, nV, es, l)
        ctx.count("graphs:" + fam)
    for name, fam, l in cubic_lattices(ctx, rng):
        es = [tuple(int(x) for x in e) for e in l.edges.indices]
        nV, E = l.n_vertices, l.n_edges
        lat = zoo.lat_to_json(l)
        conf = edge_conflicts(es)
        ctx.count("graphs:" + fam)
        deg0 = int(np.sum(l.edges.indices == 0))
        for k in (2, 3, 4):
            f = [(int(rng.integers(k)), int(rng.integers(E)))]
            for fixed in ([], f):
                for mode in ("single", "first4"):
                    jobs.append(Job(name, fam, "edge", mode, dict(op="cnf", kind="edge", k=k, fixed=[list(p) for p in fixed], **lat),
                                    E, k, conf, fixed, lattice=l, edges=[list(e) for e in es], nV=nV))
        if 1 <= deg0 <= 3:
            order = [int(e) for e in gu.clockwise_edges_about(vertex_index=0, g=l)]
            jobs.append(Job(name, fam, "lattice", "single", dict(op="cnf", kind="lattice", **lat), E, 3, conf,
                            list(enumerate(order)), lattice=l, edges=[list(e) for e in es], nV=nV))
        for k in (3, 4, 5):
            jobs.append(Job(name, fam, "vertex", "single", dict(op="cnf", kind="vertex", adj=[list(e) for e in es], k=k), nV, k, list(es), [],
                            edges=[list(e) for e in es], nV=nV))
        if zoo.has_self_loop(l):
            ctx.count("precondition_excluded_dimer_self_loop")
            continue
        for mode in ("single", "first7"):
            jobs.append(Job(name, fam, "dimer", mode, dict(op="cnf", kind="dimer", **lat), E, 0, [], [], lattice=l,
                            edges=[list(e) for e in es], nV=nV))
    reqs, live = [], []
    for job in jobs:
        req = run_job(ctx, job)
        if req is None:
            continue
        reqs.append(req); live.append(job)
    outs = core.Driver().run_parallel(reqs)
    for job, o in zip(live, outs):
        compare(ctx, job, o)
        ctx.case((job.name, job.kind, job.k, tuple(map(tuple, job.fixed)), job.mode), nontrivial=len(job.edges) >= 3,
                 sample=dict(case=job.name, kind=job.kind, k=job.k, mode=job.mode, fixed=job.fixed,
                             result=("unsolvable" if job.unsolvable else [list(r) for r in job.rows[:2]])))
        ctx.count(f"calls:{job.kind}:{job.mode if not job.mode.startswith('first') else 'first-n'}")
        ctx.count("verdict:" + ("unsolvable" if job.unsolvable else "solvable"))
    ctx.assumptions += [
        "the SAT solver (Glucose 3 via python-sat) is trusted for UNSAT verdicts; they are cross-checked by exhaustive backtracking "
        "(node budget 2e5) and otherwise by a second solver on an independently built formula",
        "pysat CardEnc.equals(pairwise) is recorded, not modelled: the recorded clauses are what is compared with the Lean encoder",
    ]


def replay(ctx, path):
    j = json.loads(open(path).read())["replay"]
    es = [tuple(e) for e in j["edges"]]
    nV = j["nV"]
    if j.get("lattice"):
        lat = j["lattice"]
        l = Lattice(np.array(lat["pos"], dtype=float) / lat["scale"], np.array(lat["edges"], dtype=int).reshape(-1, 2),
                    np.array(lat["cross"], dtype=int).reshape(-1, 2))
    else:
        l = embed(nV, es)
    conf = edge_conflicts(es)
    fixed = [tuple(p) for p in j.get("fixed", [])]
    kind, k, mode = j["kind"], j["k"], j["mode"]
    n = nV if kind == "vertex" else len(es)
    job = Job(j["case"], "replay", kind, mode, dict(op="cnf"), n, k, list(es) if kind == "vertex" else conf, fixed, lattice=l,
              edges=[list(e) for e in es], nV=nV)
    run_job(ctx, job)
    print("violations:", [v["what"] for v in ctx.violations])
    return 1 if ctx.violations else 0
