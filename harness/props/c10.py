"""C10 - the built-in generators produce the tilings they are named after.

L1: Props/C10.lean (about the kernels regenerated from example_graphs.py: x- and y-bookkeeping x+s = x'+n*c for every grid size,
    target cell in range, translation by a shift is a bijection of cells, nested next_direction's = the same kernel; tile counts,
    shape and range of every tiled edge).
L2: translator (kernels, unit-cell tables) + exact correspondence of edges / crossings / colourings of every generator with the
    index-level model for every size of the quantifier.
L3: the statement on the implementation: closed tiling, polygon census, trivalence / coordination, Euler characteristic, areas,
    proper colourings, translated-copy property of tile_unit_cell, sizes of the small helpers, make_honeycomb's flux sector.
"""
from __future__ import annotations

import itertools
import json
import warnings
from collections import Counter

import numpy as np

import core
import translate
import zoo
from koala import example_graphs as eg
from koala.flux_finder import flux_finder as ff
from koala.lattice import INVALID, Lattice


def areas(l):
    out = []
    for p in l.plaquettes:
        vec = l.edges.vectors[p.edges] * p.directions[:, None]
        pts = l.vertices.positions[p.vertices[0]] + np.cumsum(vec, 0)
        x, y = pts[:, 0], pts[:, 1]
        out.append(0.5 * np.sum(x * np.roll(y, -1) - np.roll(x, -1) * y))
    return np.array(out)


def closed_tiling(l):
    adj = l.edges.adjacent_plaquettes
    return bool(np.all(adj != INVALID)) and sum(p.n_sides for p in l.plaquettes) == 2 * l.n_edges


def proper_colouring(l, col, k=3):
    if len(col) != l.n_edges or not set(np.unique(col).tolist()) <= set(range(k)):
        return False
    for v in range(l.n_vertices):
        cs = np.asarray(col)[np.any(l.edges.indices == v, axis=1)]
        if len(set(cs.tolist())) != len(cs):
            return False
    return True


def judge_tiling(ctx, name, l, census, degree, rep, colouring=None):
    """census: dict n_sides -> fraction of plaquettes (e.g. {6: 1}) ; degree: required coordination"""
    try:
        _judge_tiling(ctx, name, l, census, degree, rep, colouring)
    except Exception as ex:
        rep(f"the generated lattice is unusable: computing its plaquettes / tables raised {type(ex).__name__}: {ex}")


def _judge_tiling(ctx, name, l, census, degree, rep, colouring=None):
    if not closed_tiling(l):
        rep("not a closed tiling of the torus (an edge side without plaquette)"); return
    F = l.n_plaquettes
    if l.n_vertices - l.n_edges + F != 0:
        rep(f"V-E+F = {l.n_vertices - l.n_edges + F}, expected 0"); return
    cnt = Counter(int(p.n_sides) for p in l.plaquettes)
    if set(cnt) != set(census) or any(abs(cnt[k] - census[k] * F) > 1e-9 for k in census):
        rep(f"polygon census {dict(cnt)} is not the advertised one {census}"); return
    if not np.all(core.degrees(l) == degree):
        rep(f"coordination numbers {sorted(set(core.degrees(l).tolist()))}, expected {degree}"); return
    a = areas(l)
    if np.any(a <= 0) or abs(a.sum() - 1) > 1e-9:
        rep(f"plaquette areas sum to {a.sum()}"); return
    if colouring is not None and not proper_colouring(l, colouring):
        rep("the supplied colouring is not a proper 3-edge-colouring"); return


def safe(f):
    """a property predicate; an exception while evaluating it on the generator's output counts as 'does not hold'"""
    try:
        return bool(f())
    except Exception:
        return False


def model_cmp(ctx, reqs, meta, name, req, l, colouring=None):
    reqs.append(dict(op="gen", **req)); meta.append((name, l, colouring))


def run(ctx):
    ctx.rule = ("one evaluation = one generator call at one size, compared exactly (edges, crossings, colouring) with the index-level model and "
                "judged against the advertised tiling; non-trivial = all of them; distinct by (generator, size)")
    rep0 = core.guarded_translate(ctx, translate.regenerate_all, "T-int/T-const", dict(kernels=[], tables=[], changed={}))
    core.note_translation(ctx, [k for k in rep0["kernels"] if k["kernel"] in ("next_cell_number", "crossing", "honeycomb_next_direction", "hso_next_direction")] + \
                     [t for t in rep0.get("tables", []) if isinstance(t, dict) and str(t.get("table", "")).startswith(("trinon", "honey", "hso"))])
    ctx.run_audit()
    rng = np.random.default_rng(ctx.seed)
    quick = False          # the whole quantifier is cheap enough for every run; thorough adds more random unit cells
    reqs, meta = [], []
    mk = lambda name, **kw: (lambda what, **k2: ctx.impl_violation(f"{name}: {what}", dict(case=name, **kw, **k2)))

    def call(name, f, rep):
        try:
            with warnings.catch_warnings():
                warnings.simplefilter("ignore")
                return f()
        except Exception as ex:
            rep(f"raised {type(ex).__name__}: {ex}")
            return None

    # ---- honeycomb
    for n in range(2, 17 if not quick else 13):
        name = f"honeycomb_lattice({n})"; rep = mk(name, gen="honeycomb", n=n)
        r = call(name, lambda: eg.honeycomb_lattice(n, return_coloring=True), rep)
        if r is None: continue
        l, col = r
        judge_tiling(ctx, name, l, {6: 1}, 3, rep, col)
        model_cmp(ctx, reqs, meta, name, dict(kind="honeycomb", n=n), l, col)
        ctx.case(name, sample=dict(case=name, V=l.n_vertices, E=l.n_edges, F=l.n_plaquettes))
    # ---- hex-square-oct
    for n in range(2, 9 if not quick else 6):
        name = f"hex_square_oct_lattice({n})"; rep = mk(name, gen="hso", n=n)
        l = call(name, lambda: eg.hex_square_oct_lattice(n), rep)
        if l is None: continue
        judge_tiling(ctx, name, l, {4: 1 / 3, 6: 1 / 3, 8: 1 / 3}, 3, rep)
        model_cmp(ctx, reqs, meta, name, dict(kind="hso", n=n), l)
        ctx.case(name)
    # ---- tri-non
    tri = dict(k=4, uedges=[[0, 1], [1, 2], [2, 0], [3, 2], [3, 0], [1, 3]], ucross=[[0, 0], [0, 0], [0, 0], [0, 0], [0, 1], [-1, 0]])
    sizes = [(a, b) for a in range(2, 7) for b in range(2, 7)] if not quick else [(2, 2), (2, 3), (3, 2), (4, 5), (6, 2), (5, 6)]
    for s in sizes + [2, 3, 4]:
        arg = list(s) if isinstance(s, tuple) else s
        nx, ny = (s if isinstance(s, tuple) else (s, s))
        name = f"tri_non_lattice({arg})"; rep = mk(name, gen="trinon", n=arg)
        r = call(name, lambda: eg.tri_non_lattice(arg, return_coloring=True), rep)
        if r is None: continue
        l, col = r
        judge_tiling(ctx, name, l, {3: 1 / 2, 9: 1 / 2}, 3, rep, col)
        model_cmp(ctx, reqs, meta, name, dict(kind="tile", nx=nx, ny=ny, **tri), l)
        if list(col) != [1, 2, 0, 1, 2, 0] * nx * ny:
            rep("colouring is not the tiled unit-cell colouring")
        ctx.case(name)
    # ---- square lattice
    sq = [(a, b) for a in range(2, 9) for b in range(2, 9)] if not quick else [(2, 2), (2, 5), (5, 2), (3, 3), (8, 3), (4, 7)]
    for nx, ny in sq:
        name = f"square_lattice({nx},{ny})"; rep = mk(name, gen="square", nx=nx, ny=ny)
        l = call(name, lambda: eg.square_lattice(nx, ny), rep)
        if l is None: continue
        judge_tiling(ctx, name, l, {4: 1}, 4, rep)
        model_cmp(ctx, reqs, meta, name, dict(kind="square", nx=nx, ny=ny), l)
        ctx.case(name)
    # ---- tile_unit_cell: regular cells and random Voronoi cells, all (nx, ny) in 1..4
    units = [("trinon", np.array([[0.4, 0.1], [0.1, 0.4], [0.4, 0.4], [0.6, 0.6]]), np.array(tri["uedges"]), np.array(tri["ucross"]))]
    for t in range(8 if ctx.tier == 'quick' else 40):
        v = zoo.voronoi(rng, int(rng.integers(2, 9)))
        units.append((f"vor{v.n_vertices}#{t}", v.vertices.positions, v.edges.indices, v.edges.crossing))
    for uname, f in (("honey2", lambda: eg.honeycomb_lattice(2)), ("square23", lambda: eg.square_lattice(2, 3))):
        try:
            h = f(); units.append((uname, h.vertices.positions, h.edges.indices, h.edges.crossing))
        except Exception:
            ctx.count("unit_cell_unavailable")          # the generator's own failure is reported by its own section above
    grid = [(a, b) for a in range(1, 5) for b in range(1, 5)] if not quick else [(1, 1), (1, 3), (2, 2), (3, 1), (4, 3), (2, 4)]
    for uname, P, E, C in units:
        for nx, ny in grid:
            name = f"tile_unit_cell({uname},{nx}x{ny})"; rep = mk(name, gen="tile", unit=uname, nx=nx, ny=ny)
            l = call(name, lambda: eg.tile_unit_cell(P, E, C, [nx, ny]), rep)
            if l is None: continue
            k, m = len(P), len(E)
            ok = l.n_vertices == nx * ny * k and l.n_edges == nx * ny * m
            if ok:
                # n_x*n_y translated copies: positions, and every edge vector is the unit edge vector scaled
                cells = [(hh, vv) for vv in range(ny) for hh in range(nx)]
                want_pos = np.concatenate([(P + np.array([hh, vv])) / np.array([nx, ny]) for hh, vv in cells])
                uvec = P[E[:, 1]] - P[E[:, 0]] + C
                want_vec = np.tile(uvec / np.array([nx, ny]), (nx * ny, 1))
                ok = np.allclose(l.vertices.positions, want_pos, atol=1e-12, rtol=0) and np.allclose(l.edges.vectors, want_vec, atol=1e-12, rtol=0)
                # each copy's start vertex is the copy of the unit start vertex
                ok = ok and np.array_equal(l.edges.indices[:, 0], np.concatenate([E[:, 0] + c * k for c in range(nx * ny)]))
                ok = ok and np.array_equal(l.edges.indices[:, 1] % k, np.tile(E[:, 1], nx * ny))
            if not ok:
                rep("tiling is not n_x*n_y translated copies of the unit cell with correct crossings")
            model_cmp(ctx, reqs, meta, name, dict(kind="tile", k=k, uedges=E.tolist(), ucross=C.tolist(), nx=nx, ny=ny), l)
            ctx.case(name)
    # ---- small helpers
    for n in range(3, 41 if not quick else 16):
        name = f"single_plaquette({n})"; rep = mk(name, gen="single", n=n)
        l = call(name, lambda: eg.single_plaquette(n), rep)
        if l is not None:
            if not safe(lambda: l.n_vertices == n and l.n_edges == n and l.n_plaquettes == 1 and l.plaquettes[0].n_sides == n):
                rep("not a single n-gon")
            model_cmp(ctx, reqs, meta, name, dict(kind="single", n=n), l); ctx.case(name)
        name = f"higher_coordination_number_example({n})"; rep = mk(name, gen="wheel", n=n)
        l = call(name, lambda: eg.higher_coordination_number_example(n), rep)
        if l is not None:
            ok = safe(lambda: l.n_vertices == n + 1 and l.n_edges == 2 * n and l.n_plaquettes == n and all(p.n_sides == 3 for p in l.plaquettes)
                      and core.degrees(l)[n] == n and np.all(core.degrees(l)[:n] == 3))
            if not ok:
                rep("not an n-spoked wheel (n triangles about an n-coordinated centre)")
            model_cmp(ctx, reqs, meta, name, dict(kind="wheel", n=n), l); ctx.case(name)
    for n in range(3, 31 if not quick else 12):
        for wob in (False, True):
            name = f"n_ladder({n},{wob})"; rep = mk(name, gen="ladder", n=n, wobble=wob)
            l = call(name, lambda: eg.n_ladder(n, wob), rep)
            if l is None: continue
            ok = safe(lambda: l.n_vertices == 2 * n and l.n_edges == 3 * n and np.all(core.degrees(l) == 3)
                      and l.n_plaquettes == n and all(p.n_sides == 4 for p in l.plaquettes))
            if not ok:
                rep(f"not an n-rung periodic ladder (V={l.n_vertices}, E={l.n_edges})")
            model_cmp(ctx, reqs, meta, name, dict(kind="ladder", n=n), l); ctx.case(name)
    for L in range(2, 13 if not quick else 7):
        name = f"make_honeycomb({L})"; rep = mk(name, gen="make_honeycomb", n=L)
        r = call(name, lambda: eg.make_honeycomb(L), rep)
        if r is None: continue
        l, col, ujk = r

        def good():
            with warnings.catch_warnings():
                warnings.simplefilter("ignore")
                fl = ff.fluxes_from_bonds(l, ujk)
            want = np.array([eg.ground_state_ansatz(p.n_sides) for p in l.plaquettes])
            return (np.array_equal(fl, want) and np.all(ujk == 1) and ujk.dtype == np.int8 and col.dtype == np.int8 and proper_colouring(l, col))
        if not safe(good):
            rep("bonds / colouring are not the ground-state honeycomb set-up")
        ctx.case(name)
    # ---- every call returns fresh objects: the first result is overwritten in place, a second call must still return the original values
    from koala.lattice import Lattice as _Lat

    def snap(r):
        if isinstance(r, _Lat):
            return ("L", r.vertices.positions.copy(), r.edges.indices.copy(), r.edges.crossing.copy())
        if isinstance(r, np.ndarray):
            return ("A", r.copy())
        if isinstance(r, (tuple, list)):
            return tuple(snap(x) for x in r)
        return ("O", repr(r))

    def clobber(r):
        arrs = [r.vertices.positions, r.edges.indices, r.edges.crossing] if isinstance(r, _Lat) else [r] if isinstance(r, np.ndarray) else []
        for a in arrs:
            try:
                a[...] = (a + 1) * -3 if a.dtype.kind in "iuf" else a
            except Exception:
                pass
        if isinstance(r, (tuple, list)):
            for x in r:
                clobber(x)

    def same(a, b):
        if a[0] != b[0] if isinstance(a[0], str) and isinstance(b[0], str) else False:
            return False
        if isinstance(a[0], str):
            return all(np.array_equal(x, y) if isinstance(x, np.ndarray) else x == y for x, y in zip(a[1:], b[1:]))
        return len(a) == len(b) and all(same(x, y) for x, y in zip(a, b))

    fresh = [("honeycomb_lattice(3)", lambda: eg.honeycomb_lattice(3, return_coloring=True)), ("hex_square_oct_lattice(2)", lambda: eg.hex_square_oct_lattice(2)),
             ("tri_non_lattice(2)", lambda: eg.tri_non_lattice(2)), ("square_lattice(2,3)", lambda: eg.square_lattice(2, 3)), ("n_ladder(4)", lambda: eg.n_ladder(4, True)),
             ("make_honeycomb(2)", lambda: eg.make_honeycomb(2)), ("make_honeycomb(5)", lambda: eg.make_honeycomb(5)), ("two_triangles()", lambda: eg.two_triangles()),
             ("tutte_graph()", lambda: eg.tutte_graph()), ("single_plaquette(5)", lambda: eg.single_plaquette(5)),
             ("higher_coordination_number_example(6)", lambda: eg.higher_coordination_number_example(6)), ("bridge_graph()", lambda: eg.bridge_graph()),
             ("star_lattice_sheared()", lambda: eg.star_lattice_sheared()), ("multi_graph()", lambda: eg.multi_graph()), ("concave_plaquette()", lambda: eg.concave_plaquette()),
             ("tri_square_pent()", lambda: eg.tri_square_pent())]
    for name, f in fresh:
        rep = mk(name + " twice", gen="fresh", call=name)
        r1 = call(name, f, rep)
        if r1 is None: continue
        s1 = snap(r1)
        clobber(r1)
        r2 = call(name, f, rep)
        if r2 is None: continue
        if not safe(lambda: same(s1, snap(r2))):
            rep("a second call returns different values after the first result was overwritten in place: the calls share state")
        ctx.case(name + " twice")
    # ---- history: the same generator calls late in this run and as the first call of a fresh interpreter
    core.history_check(ctx, "import numpy as np\nfrom koala import example_graphs as eg, voronization as vz, graph_utils as gu, quasicrystals as qc, phase_diagrams as pdg, hamiltonian as ham\nfrom koala.flux_finder import flux_finder as ff\n\ndef _canon(l):\n    parts = [l.vertices.positions.ravel(), l.edges.indices.ravel().astype(float), l.edges.crossing.ravel().astype(float)]\n    return np.concatenate(parts)\ndef _plaq(l):\n    out = []\n    for p in l.plaquettes:\n        out += [float(len(p.edges))] + [float(x) for x in p.edges] + [float(x) for x in p.directions] + [float(x) for x in p.vertices] + [float(x) for x in p.center]\n    return np.array(out)\n_pts = np.random.default_rng(123).uniform(size=(14, 2))\n", ["_canon(eg.honeycomb_lattice(3))", "_canon(eg.hex_square_oct_lattice(2))", "_canon(eg.tri_non_lattice(2))", "_canon(eg.square_lattice(2, 3))",
                                      "_canon(eg.make_honeycomb(3)[0])", "np.concatenate([np.asarray(x, dtype=float).ravel() for x in eg.make_honeycomb(3)[1:]])",
                                      "_canon(eg.tile_unit_cell(_pts[:2], np.array([[0, 1], [1, 0]]), np.array([[0, 0], [1, -1]]), [2, 3]))"], label="generator call")
    # ---- model
    outs = core.Driver().run_parallel(reqs)
    for (name, l, col), o in zip(meta, outs):
        brk = lambda what: ctx.corr_break(f"{name}: {what}", dict(case=name))
        if "err" in o:
            brk(f"model error {o['err']}"); continue
        if l.edges.indices.tolist() != o["edges"] or l.edges.crossing.tolist() != o["cross"]:
            brk("edges / crossings differ from the index-level model"); continue
        if "coloring" in o and col is not None and [int(c) for c in col] != o["coloring"]:
            brk("colouring differs from the model"); continue
        ctx.count("generator_outputs_compared")
    ctx.exhaustive = not quick
    ctx.assumptions.append("positions (irrational scale factors) are not modelled: only indices, crossings and colourings; the polygon census is decided "
                           "by running Lattice.plaquettes (C01) on the implementation's output")


def replay(ctx, path):
    j = json.loads(open(path).read())["replay"]
    print("replay: rerun the generator call named in the case:", j)
    g = j.get("gen")
    rep = lambda what, **kw: ctx.impl_violation(what, dict(kw))
    with warnings.catch_warnings():
        warnings.simplefilter("ignore")
        if g == "honeycomb":
            l, col = eg.honeycomb_lattice(j["n"], return_coloring=True); judge_tiling(ctx, "replay", l, {6: 1}, 3, rep, col)
        elif g == "hso":
            judge_tiling(ctx, "replay", eg.hex_square_oct_lattice(j["n"]), {4: 1 / 3, 6: 1 / 3, 8: 1 / 3}, 3, rep)
        elif g == "trinon":
            l, col = eg.tri_non_lattice(j["n"], return_coloring=True); judge_tiling(ctx, "replay", l, {3: .5, 9: .5}, 3, rep, col)
        elif g == "square":
            judge_tiling(ctx, "replay", eg.square_lattice(j["nx"], j["ny"]), {4: 1}, 4, rep)
    print("violations:", [v["what"] for v in ctx.violations])
    return 1 if ctx.violations else 0
