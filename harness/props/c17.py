"""C17 - the de Bruijn-grid generator yields a planar edge-to-edge rhombus tiling.

L1: Props/C17.lean (floor changes by exactly one across a single grid line and not otherwise; faces adjacent across a line of bundle b are mapped to points
    differing by exactly star_b in any abelian group => every edge parallel to a star direction, all of one length; the four faces round a grid vertex give a
    rhombus; index vectors equal modulo a relation among the star vectors give the same point; the executable edge test is sound).
    NOT proved: de Bruijn's theorem (planarity, injectivity), connectivity, Euler characteristic.
L2: exact correspondence in index space: integer index vectors are reconstructed from koala's output by integrating star directions along a spanning tree; the
    model re-checks every edge (index difference exactly +-e_b) and that all index vectors are distinct modulo the cyclotomic relations.
L3: the statement on the implementation's output with tolerance-guarded predicates (inside the unit square, connected, equal edge lengths, rhombi, star
    directions / Penrose angles, no crossing edges, no coincident vertices, no dangling edges, V-E+F = 1); non-generic offsets (three lines through a point)
    are detected independently and excluded.
"""
from __future__ import annotations

import json
import warnings

import numpy as np

import core
import zoo
from koala import quasicrystals as qc
from koala.lattice import Lattice, LatticeException


def nongeneric(B, n_lines, offsets, angles):
    """is some grid vertex within 1e-9 of a third line?  (independent re-computation of the multigrid)"""
    normals = np.array([[np.cos(a + np.pi / 2), np.sin(a + np.pi / 2)] for a in angles])
    grads = np.array([[np.cos(a), np.sin(a)] for a in angles])
    line_off = np.arange(n_lines) - (n_lines - 1) // 2
    tot = line_off[None, :] + np.asarray(offsets, dtype=float)[:, None]
    worst = np.inf
    for b1 in range(B):
        for b2 in range(b1 + 1, B):
            M = np.array([normals[b1], normals[b2]])
            if abs(np.linalg.det(M)) < 1e-12:
                return True
            for l1 in range(n_lines):
                rhs = np.stack([np.full(n_lines, tot[b1, l1]), tot[b2]], axis=0)          # p.n1 = c1, p.n2 = c2
                P = np.linalg.solve(M, rhs).T                                                # (n_lines, 2)
                for b3 in range(B):
                    if b3 in (b1, b2):
                        continue
                    d = P @ normals[b3]                                                      # signed distances along normal b3
                    frac = np.abs(d[:, None] - tot[b3][None, :])
                    worst = min(worst, frac.min())
    return worst < 1e-9


def segments_cross_any(P, E):
    """do two edges that share no vertex intersect? (vectorised, tolerance-guarded proper crossing test)"""
    A = P[E[:, 0]]; Bp = P[E[:, 1]]
    n = len(E)
    for i in range(n):
        a, b = A[i], Bp[i]
        c, d = A[i + 1:], Bp[i + 1:]
        share = (E[i + 1:, 0] == E[i, 0]) | (E[i + 1:, 0] == E[i, 1]) | (E[i + 1:, 1] == E[i, 0]) | (E[i + 1:, 1] == E[i, 1])
        def orient(p, q, r): return (q[..., 0] - p[..., 0]) * (r[..., 1] - p[..., 1]) - (q[..., 1] - p[..., 1]) * (r[..., 0] - p[..., 0])
        o1 = orient(a, b, c); o2 = orient(a, b, d); o3 = orient(c, d, a); o4 = orient(c, d, b)
        eps = 1e-13
        hit = (o1 * o2 < -eps * eps) & (o3 * o4 < -eps * eps) & ~share
        # touching (an end point of one on the interior of the other) also counts as a defect of an edge-to-edge tiling
        if np.any(hit):
            j = int(np.nonzero(hit)[0][0]) + i + 1
            return (i, j)
    return None


def judge(ctx, name, l, B, angles, disorder, rep):
    P = l.vertices.positions; E = l.edges.indices
    if np.any(P < 0) or np.any(P > 1):
        rep("vertices outside the unit square"); return False
    V, nE = l.n_vertices, l.n_edges
    deg = np.bincount(E.flatten(), minlength=V)
    if np.any(deg < 2):
        rep(f"dangling edge / isolated vertex (degrees {sorted(set(deg.tolist()))[:3]})"); return False
    seen = {0}; todo = [0]
    nb = [[] for _ in range(V)]
    for a, b in E: nb[a].append(b); nb[b].append(a)
    while todo:
        x = todo.pop()
        for y in nb[x]:
            if y not in seen: seen.add(y); todo.append(y)
    if len(seen) != V:
        rep("the lattice is not connected"); return False
    L = np.linalg.norm(l.edges.vectors, axis=1)
    if L.max() - L.min() > 1e-9 * L.max():
        rep(f"edges do not all have the same length ({L.min()} .. {L.max()})"); return False
    from scipy.spatial import cKDTree
    dd, _ = cKDTree(P).query(P, k=2)
    if dd[:, 1].min() < 1e-6 * L.max():
        rep("two vertices coincide"); return False
    cr = segments_cross_any(P, E)
    if cr is not None:
        rep(f"edges {cr[0]} and {cr[1]} cross"); return False
    try:
        pl = list(l.plaquettes)
    except LatticeException as ex:
        rep("plaquette finder fails on the output"); return False
    if any(p.n_sides != 4 for p in pl):
        rep(f"not every plaquette is a rhombus (sides {sorted(set(int(p.n_sides) for p in pl))})"); return False
    if V - nE + len(pl) != 1:
        rep(f"V-E+F = {V - nE + len(pl)}"); return False
    if disorder == 0:
        ang = np.arctan2(l.edges.vectors[:, 1], l.edges.vectors[:, 0]) % np.pi
        star = (np.asarray(angles) % np.pi)
        dist = np.abs(ang[:, None] - star[None, :]); dist = np.minimum(dist, np.pi - dist)
        if dist.min(axis=1).max() > 1e-9:
            rep("an edge is not parallel to any star direction 2*pi*b/B"); return False
        if B == 5:
            for p in pl:
                v = l.edges.vectors[p.edges] * p.directions[:, None]
                a = np.degrees(np.arccos(np.clip(-(v[0] @ v[1]) / (L[0] ** 2), -1, 1)))
                if min(abs(a - t) for t in (36, 72, 108, 144)) > 1e-6:
                    rep(f"a rhombus with angle {a} degrees in a five-bundle tiling"); return False
    return True


def index_vectors(l, B, angles):
    """integrate star directions along a spanning tree: integer index vector per vertex (relative to vertex 0)"""
    star = np.array([[np.cos(a), np.sin(a)] for a in angles])
    L = np.linalg.norm(l.edges.vectors[0])
    V = l.n_vertices
    idx = [None] * V; idx[0] = [0] * B
    nb = [[] for _ in range(V)]
    for e, (a, b) in enumerate(l.edges.indices): nb[a].append((b, e, 1)); nb[b].append((a, e, -1))
    todo = [0]
    while todo:
        x = todo.pop()
        for y, e, s in nb[x]:
            if idx[y] is None:
                v = l.edges.vectors[e] * s / L
                d = star @ v
                b = int(np.argmax(np.abs(d)))
                if abs(abs(d[b]) - 1) > 1e-6:
                    return None
                iy = list(idx[x]); iy[b] += int(np.sign(d[b])); idx[y] = iy; todo.append(y)
    return idx


def relation_generators(B):
    """generators (pivot, vector) of the integer relations among the B-th roots of unity: sum over each coset of the subgroup of order p, p | B prime"""
    gens = []
    primes = [p for p in range(2, B + 1) if B % p == 0 and all(p % q for q in range(2, p))]
    for p in primes:
        step = B // p
        for r in range(step):
            vec = [0] * B
            for k in range(p): vec[r + k * step] = 1
            gens.append(dict(pivot=r + (p - 1) * step, vec=vec))
    return gens


def run(ctx):
    ctx.rule = ("one evaluation = one de_brujin_grid / penrose_tiling call (bundles, lines, offsets, disorder, seed) judged on its output and, without disorder, re-checked "
                "exactly in index space by the model; non-trivial = generic offsets; distinct by the parameters")
    ctx.run_audit()
    rng = np.random.default_rng(ctx.seed)
    quick = ctx.tier == "quick"
    reqs, meta = [], []
    Bs = [3, 5, 7, 9]
    # the witness of fixed defect D15 (an isolated vertex left behind by the stripping of trailing edges) runs first
    D15 = dict(n_lines=8, B=3, off=np.array([-0.1540393344282669, 0.011065973569577059, 0.39120940950057914]), disorder=0.1, seed=230225941)
    try:
        np.random.seed(D15["seed"])
        with warnings.catch_warnings():
            warnings.simplefilter("ignore")
            lw = qc.de_brujin_grid(D15["n_lines"], D15["B"], D15["off"], D15["disorder"])
        if np.any(core.degrees(lw) < 2):
            ctx.impl_violation("D15 witness de_brujin_grid(8, 3, ..., 0.1): dangling edge / isolated vertex (degrees " + str(sorted(set(core.degrees(lw).tolist()))) + ")",
                               dict(case="D15 witness", n_lines=8, B=3, offsets=D15["off"].tolist(), disorder=0.1, seed=D15["seed"]))
        ctx.case(("D15 witness",), nontrivial=True)
    except Exception as ex:
        ctx.impl_violation(f"D15 witness raised {type(ex).__name__}: {ex}", dict(case="D15 witness", n_lines=8, B=3, offsets=D15["off"].tolist(), disorder=0.1, seed=D15["seed"]))
    # the witnesses of fixed defect D16 (a group of rhombi cut loose by the clipping: two connected components) run next
    for n16, seed16 in ((8, 23), (6, 74), (8, 87)):
        try:
            np.random.seed(seed16)
            off16 = np.random.random(3) * 2 - 1
            with warnings.catch_warnings():
                warnings.simplefilter("ignore")
                lw = qc.de_brujin_grid(n16, 3, off16, 0.1)
            Vw = lw.n_vertices
            par = list(range(Vw))
            def find(a):
                while par[a] != a:
                    par[a] = par[par[a]]; a = par[a]
                return a
            for a_, b_ in lw.edges.indices:
                par[find(int(a_))] = find(int(b_))
            ncomp = len({find(a_) for a_ in range(Vw)})
            if ncomp != 1 or Vw - lw.n_edges + lw.n_plaquettes != 1:
                ctx.impl_violation(f"D16 witness de_brujin_grid({n16}, 3, offsets drawn after np.random.seed({seed16}), 0.1): {ncomp} connected components, V-E+F = {Vw - lw.n_edges + lw.n_plaquettes}",
                                   dict(case="D16 witness", n_lines=n16, B=3, offsets=off16.tolist(), disorder=0.1, seed=seed16))
            ctx.case(("D16 witness", n16, seed16), nontrivial=True)
        except Exception as ex:
            ctx.impl_violation(f"D16 witness raised {type(ex).__name__}: {ex}", dict(case="D16 witness", n_lines=n16, B=3, disorder=0.1, seed=seed16))
    lines = [5, 6, 8] if quick else list(range(5, 15))
    for B in Bs:
        for n_lines in lines:
            if B * n_lines > (60 if quick else 130):
                continue
            settings = [("default", None), ("scalar0.37", 0.37), ("generic", rng.uniform(-0.5, 0.5, size=B)), ("generic2", rng.uniform(-0.5, 0.5, size=B))]
            # offsets that are generic as given but singular when moved by half a line spacing (and the other way round): 1/2, 1/4, 1/6, eighths
            settings += [("scalar0.5", 0.5), ("scalar-0.25", -0.25), ("scalar1/6", 1 / 6), ("eighths", np.resize(np.array([0.125, 0.25, 0.125, 0.375, -0.125]), B))]
            seed = int(rng.integers(2 ** 31)); np.random.seed(seed); settings.append((f"random_offsets(seed={seed})", qc.random_offsets(B)))
            if B >= 5 and n_lines in (6, 8):
                # generic, but only just: one line of bundle 2 misses the crossing of the middle lines of bundles 0 and 1 by eps line spacings (the exclusion
                # threshold for 'three lines through a point' is 1e-9)
                for eps in (1e-8, 3e-8) if quick else (3e-9, 1e-8, 3e-8, 1e-7, 1e-6):
                    g = rng.uniform(-0.5, 0.5, size=B)
                    ang = np.arange(B) * 2 * np.pi / B
                    nor = np.stack([np.cos(ang + np.pi / 2), np.sin(ang + np.pi / 2)], 1)
                    lo = np.arange(n_lines) - (n_lines - 1) // 2
                    mid = n_lines // 2
                    P = np.linalg.solve(nor[:2], np.array([lo[mid] + g[0], lo[mid] + g[1]]))
                    tt = P @ nor[2] + eps
                    g[2] = tt - np.round(tt)
                    settings.append((f"near-concurrent(eps={eps})", g))
            for oname, off in settings:
                for disorder in ((0,) if quick and oname != "generic" else (0, 0.02, 0.1)):
                    seed = int(rng.integers(2 ** 31))
                    name = f"de_brujin_grid(lines={n_lines}, B={B}, offsets={oname}, disorder={disorder}, seed={seed})"
                    rep = lambda what, **kw: ctx.impl_violation(f"{name}: {what}", dict(case=name, n_lines=n_lines, B=B, offsets=None if off is None else np.asarray(off).tolist(),
                                                                                        disorder=disorder, seed=seed, **kw))
                    np.random.seed(seed)
                    st = np.random.get_state()
                    angles = np.arange(B) * (2 * np.pi / B) + disorder * (np.random.random(B) - 0.5) * 2 * np.pi       # the same draw the generator makes first
                    np.random.set_state(st)
                    offs = np.full(B, 0.2) if off is None else (np.full(B, off) if np.isscalar(off) else np.asarray(off))
                    if nongeneric(B, n_lines, offs, angles):
                        ctx.count("precondition_excluded_nongeneric_offsets"); continue
                    try:
                        with warnings.catch_warnings():
                            warnings.simplefilter("ignore")
                            l = qc.de_brujin_grid(n_lines, B, off, disorder)
                    except Exception as ex:
                        if "small" in str(ex):
                            ctx.count("excluded_dual_too_small"); continue
                        rep(f"raised {type(ex).__name__}: {ex}"); continue
                    ok = judge(ctx, name, l, B, angles, disorder, rep)
                    ctx.case((name,), nontrivial=True, sample=dict(case=name, V=l.n_vertices, E=l.n_edges))
                    ctx.count(f"B={B}")
                    if ok and disorder == 0:
                        idx = index_vectors(l, B, angles)
                        if idx is None or any(x is None for x in idx):
                            ctx.corr_break(f"{name}: index vectors could not be reconstructed from the output", dict(case=name)); continue
                        reqs.append(dict(op="quasi", B=B, idx=idx, edges=l.edges.indices.tolist(), gens=relation_generators(B)))
                        meta.append(name)
    # ---- strong angle disorder with seven and nine bundles: neighbouring (nearly antiparallel) bundles can be turned past each other, the grid's own directions
    #      - not the regular star - decide the tiling.  Small global seeds, five lines per bundle (cheap), generic offsets
    for B in (7, 9):
        for seed in range(8 if quick else 60):
            off = rng.uniform(-0.5, 0.5, size=B)
            name = f"de_brujin_grid(lines=5, B={B}, offsets=generic, disorder=0.1, seed={seed})"
            rep = lambda what, **kw: ctx.impl_violation(f"{name}: {what}", dict(case=name, n_lines=5, B=B, offsets=off.tolist(), disorder=0.1, seed=seed, **kw))
            np.random.seed(seed)
            st = np.random.get_state()
            angles = np.arange(B) * (2 * np.pi / B) + 0.1 * (np.random.random(B) - 0.5) * 2 * np.pi
            np.random.set_state(st)
            if nongeneric(B, 5, off, angles):
                ctx.count("precondition_excluded_nongeneric_offsets"); continue
            try:
                with warnings.catch_warnings():
                    warnings.simplefilter("ignore")
                    l = qc.de_brujin_grid(5, B, off, 0.1)
            except Exception as ex:
                if "small" in str(ex):
                    ctx.count("excluded_dual_too_small"); continue
                rep(f"raised {type(ex).__name__}: {ex}"); continue
            judge(ctx, name, l, B, angles, 0.1, rep)
            ctx.case((name,), nontrivial=True)
            ctx.count("strong_disorder_runs")
    # ---- three bundles with strong disorder, default offsets, many small global seeds: the clipping now and then leaves a face hanging on leaves only
    #      (what D15 was about); cheap, so many of them
    for n_lines, kind in ((6, "default"), (8, "default"), (6, "drawn"), (7, "drawn"), (8, "drawn")):
        for seed in range(30 if quick else 300):
            np.random.seed(seed)
            off3 = None if kind == "default" else np.random.random(3) * 2 - 1          # generic offsets drawn from the global generator, as a user would
            name = f"de_brujin_grid(lines={n_lines}, B=3, offsets={kind}, disorder=0.1, seed={seed})"
            rep = lambda what, **kw: ctx.impl_violation(f"{name}: {what}", dict(case=name, n_lines=n_lines, B=3, offsets=None if off3 is None else off3.tolist(), disorder=0.1, seed=seed, **kw))
            st = np.random.get_state()
            angles = np.arange(3) * (2 * np.pi / 3) + 0.1 * (np.random.random(3) - 0.5) * 2 * np.pi
            np.random.set_state(st)
            if nongeneric(3, n_lines, np.full(3, 0.2) if off3 is None else off3, angles):
                ctx.count("precondition_excluded_nongeneric_offsets"); continue
            try:
                with warnings.catch_warnings():
                    warnings.simplefilter("ignore")
                    l = qc.de_brujin_grid(n_lines, 3, off3, 0.1)
            except Exception as ex:
                if "small" in str(ex):
                    ctx.count("excluded_dual_too_small"); continue
                rep(f"raised {type(ex).__name__}: {ex}"); continue
            judge(ctx, name, l, 3, angles, 0.1, rep)
            ctx.case((name,), nontrivial=True)
            ctx.count("three_bundle_disorder_runs")
    for t in range(3 if quick else 25):
        seed = int(rng.integers(2 ** 31)); n = int(rng.integers(5, 9 if quick else 13))
        name = f"penrose_tiling({n}) seed={seed}"
        rep = lambda what, **kw: ctx.impl_violation(f"{name}: {what}", dict(case=name, penrose=n, seed=seed, **kw))
        np.random.seed(seed)
        st = np.random.get_state()
        off = np.random.random(5) - 0.5; off = off - (np.sum(off) - 1) / 5; off = (off + 0.5) % 1 - 0.5
        np.random.set_state(st)
        angles = np.arange(5) * (2 * np.pi / 5)
        if nongeneric(5, n, off, angles):
            ctx.count("precondition_excluded_nongeneric_offsets"); continue
        try:
            with warnings.catch_warnings():
                warnings.simplefilter("ignore")
                l = qc.penrose_tiling(n)
        except Exception as ex:
            rep(f"raised {type(ex).__name__}: {ex}"); continue
        judge(ctx, name, l, 5, angles, 0, rep)
        ctx.case((name,), nontrivial=True)
    core.history_check(ctx, "import numpy as np\nfrom koala import example_graphs as eg, voronization as vz, graph_utils as gu, quasicrystals as qc, phase_diagrams as pdg, hamiltonian as ham\nfrom koala.flux_finder import flux_finder as ff\n\ndef _canon(l):\n    parts = [l.vertices.positions.ravel(), l.edges.indices.ravel().astype(float), l.edges.crossing.ravel().astype(float)]\n    return np.concatenate(parts)\ndef _plaq(l):\n    out = []\n    for p in l.plaquettes:\n        out += [float(len(p.edges))] + [float(x) for x in p.edges] + [float(x) for x in p.directions] + [float(x) for x in p.vertices] + [float(x) for x in p.center]\n    return np.array(out)\n_pts = np.random.default_rng(123).uniform(size=(14, 2))\n", ["_canon(qc.de_brujin_grid(6, 5))", "_canon(qc.de_brujin_grid(5, 7, 0.3))"], label="de Bruijn call")
    outs = core.Driver().run_parallel(reqs)
    for name, o in zip(meta, outs):
        if "err" in o:
            ctx.corr_break(f"{name}: model error {o['err']}", dict(case=name)); continue
        if not o["edges_are_star"]:
            ctx.corr_break(f"{name}: an edge's index difference is not +-e_b (the output is not the image of a multigrid dual under the index map)", dict(case=name)); continue
        if not o["distinct"]:
            ctx.corr_break(f"{name}: two vertices have the same index vector modulo the cyclotomic relations (they coincide)", dict(case=name)); continue
        ctx.count("outputs_rechecked_exactly_in_index_space")
    ctx.assumptions += ["de Bruijn's theorem (the dual of a generic multigrid is a planar rhombus tiling) is not proved: planarity, injectivity, connectivity and Euler's "
                        "formula are decided on the output with tolerance-guarded float predicates",
                        "distinct index classes give distinct points: proved for 3, 5, 7, 9 bundles (prime_position_injective, nine_position_injective) in exact arithmetic; that float positions of distinct exact points differ is monitored",
                        "offsets for which three grid lines meet in a point (always the case for random_offsets(3)) are non-generic: detected independently and excluded"]


def replay(ctx, path):
    j = json.loads(open(path).read())["replay"]
    np.random.seed(j["seed"])
    if "penrose" in j:
        l = qc.penrose_tiling(j["penrose"]); B, angles, dis = 5, np.arange(5) * 2 * np.pi / 5, 0
    else:
        B, dis = j["B"], j["disorder"]
        st = np.random.get_state(); angles = np.arange(B) * (2 * np.pi / B) + dis * (np.random.random(B) - 0.5) * 2 * np.pi; np.random.set_state(st)
        off = j["offsets"]
        l = qc.de_brujin_grid(j["n_lines"], B, None if off is None else np.array(off), dis)
    judge(ctx, "replay", l, B, angles, dis, lambda what, **kw: ctx.impl_violation(what, kw))
    print("violations:", [v["what"] for v in ctx.violations])
    return 1 if ctx.violations else 0
