"""C20 - phase-diagram sampling lies on the coupling simplex; parallel map equals serial.

L1: Props/C20.lean (exact sampling arithmetic for every samples >= 2: all returned triples non-negative and summing to 1, plain scheme keeps all
    samples^2 points, symmetric region inequalities, centre point; parallel_eq_serial: for every chunking into consecutive chunks and every arrival
    order, reassembly by chunk index + concatenation = serial map, in order).
L2: the exact sampling model (integers over 2(samples-1)) is compared with both schemes for samples 2..40 (filter ties excluded by an exact test).
L3: the statement on the implementation: simplex membership, one triangulation node per point (six congruent images for the symmetric scheme),
    compute_phase_diagram for n_jobs 1..16 with index-dependent sleeps (completion order != submission order), scalar / vector valued, with and
    without shared arguments, against the serial evaluation.
"""
from __future__ import annotations

import contextlib
import io
import json
import time

import numpy as np

import core
from koala import phase_diagrams as pdg


def slow_scalar(J, scale=1.0, offset=0.0):
    time.sleep(0.004 * ((int(round(J[0] * 997)) * 7) % 5))       # cost depends on the point: late chunks can finish first
    return scale * (J[0] + 2 * J[1] + 3 * J[2]) + offset


def slow_vector(J, scale=1.0, offset=0.0):
    time.sleep(0.003 * ((int(round(J[1] * 991)) * 3) % 4))
    return np.array([J[0] * scale, J[1] - offset, J[2] ** 2, J[0] * J[1]])


def slow_scalar_fast(J):
    return J[0] + 2 * J[1] + 3 * J[2]


def slow_vector_fast(J):
    return np.array([J[0], J[1] - J[2]])


def mixed_types(J):
    """integer zero on the edge of the triangle, a float inside: the result type varies from point to point"""
    return 0 if min(J) == 0 else float(J[0] * J[1] * J[2])


def square_vector(J, d=3):
    """as many components as there are sampling points in the square cases below"""
    return np.array([J[0] + i * J[1] - J[2] / (i + 1) for i in range(d)])


def slow_scalar_kw(J, scale=1.0, offset=0.0):
    return scale * (J[0] + 2 * J[1] + 3 * J[2]) + offset


def table_scalar(J, table=None, weights=None):
    """reads whole tables handed over as extra arguments (one of them happens to have one row per sampling point)"""
    return float(np.sum(table) * J[0] + table[0] * J[1] + table[-1] * J[2] + (0.0 if weights is None else np.sum(weights[:, 0] * J[0] - weights[:, 1] * J[2])))


def table_vector(J, table=None, weights=None):
    return np.array([table[0] * J[0], table[len(table) // 2] * J[1], np.max(table) * J[2], float(len(table))])


def zero_d(J):
    """a scalar result that is a 0-d array (what np.sum(..., keepdims=False) on arrays, np.asarray(x) or a reduction hand back)"""
    return np.asarray(J[0] + 2 * J[1] + 3 * J[2])


def one_component(J):
    return np.array([J[0] - J[1] * J[2]])


def matrix_valued(J):
    return np.array([[J[0], J[1]], [J[2], J[0] * J[1]]])


def kwargs_scalar(J, **kw):
    """takes its extras through **kwargs: no named parameter for them"""
    return kw.get("scale", 1.0) * (J[0] - J[1]) + kw.get("offset", 0.0)


def undecorated(fn):
    def wrapper(*args, **kwargs):        # a decorator that does not copy the signature (no functools.wraps)
        return fn(*args, **kwargs)
    return wrapper


wrapped_scalar = undecorated(slow_scalar)


def scratch_vector(J, buf=None, scale=1.0):
    """works in a scratch buffer handed over with the extra arguments (a serial loop, and separate worker processes, each see their own buffer between
    the two statements; the sleep makes workers that share one buffer overlap)"""
    buf[:3] = J
    time.sleep(0.002 * ((int(round(J[2] * 983)) * 5) % 3))
    return float(scale * (buf[0] + 10 * buf[1] + 100 * buf[2]))


def normalised(J):
    """a reduction over the components of one point: meaningless when several points are handed over at once"""
    return J / J.max()


def sorted_couplings(J):
    return np.sort(J)


def identity(J):
    """returns the very array it was handed (an order probe): the collected values must not alias a re-used buffer"""
    return J


def first_two(J):
    return J[:2]


def reversed_view(J):
    return J[::-1]


def quiet(f):
    with contextlib.redirect_stdout(io.StringIO()), contextlib.redirect_stderr(io.StringIO()):
        return f()


def run(ctx):
    ctx.rule = ("one evaluation = one sampling call (scheme, samples) compared with the exact model and judged, or one compute_phase_diagram call (n_jobs, function, "
                "shared arguments) compared with the serial evaluation; non-trivial = all; distinct by the call")
    ctx.run_audit()
    rng = np.random.default_rng(ctx.seed)
    quick = ctx.tier == "quick"
    reqs, meta = [], []
    for s in range(2, 41):
        for scheme in ("plain", "symmetric"):
            name = f"{scheme}(samples={s})"
            rep = lambda what, **kw: ctx.impl_violation(f"{name}: {what}", dict(case=name, scheme=scheme, samples=s, **kw))
            try:
                pts, tri = (pdg.get_non_symmetric_triangular_sampling_points(s) if scheme == "plain" else pdg.get_triangular_sampling_points(s))
            except Exception as ex:
                rep(f"raised {type(ex).__name__}: {ex}"); continue
            if pts.ndim != 2 or pts.shape[1] != 3 or np.any(pts < 0) or np.any(np.abs(pts.sum(axis=1) - 1) > 4e-16):
                rep(f"not all sampling points are coupling triples: min {pts.min()}, sums in [{pts.sum(axis=1).min()}, {pts.sum(axis=1).max()}]"); continue
            tris = [tri] if scheme == "plain" else list(tri)
            if (scheme == "symmetric" and len(tris) != 6) or any(len(t.x) != len(pts) or len(t.y) != len(pts) for t in tris):
                rep(f"{len(tris)} triangulation(s) with {[len(t.x) for t in tris]} nodes for {len(pts)} sampling points"); continue
            if scheme == "symmetric":
                D0 = None
                for t in tris:
                    P = np.stack([t.x, t.y], axis=1)
                    D = np.linalg.norm(P[:, None, :] - P[None, :, :], axis=-1)
                    if D0 is None:
                        D0 = D
                    elif not np.allclose(D, D0, atol=1e-12, rtol=0):
                        rep("the six triangulations are not congruent images of one another"); break
                if not np.allclose(pts[-1], [1 / 3, 1 / 3, 1 / 3], atol=1e-15):
                    rep("the centre point is missing")
            ctx.case((name,), nontrivial=True, sample=dict(case=name, n_points=len(pts)))
            meta.append((name, scheme, s, pts))
        reqs.append(dict(op="sampling", samples=s))
    outs = core.Driver().run(reqs)
    by_s = {r["samples"]: o for r, o in zip(reqs, outs)}
    for name, scheme, s, pts in meta:
        o = by_s[s]
        brk = lambda what: ctx.corr_break(f"{name}: {what}", dict(case=name))
        if "err" in o:
            brk(f"model error {o['err']}"); continue
        den = o["den"]
        m = np.array(o[scheme], dtype=float).reshape(-1, 3) / den
        got = pts if scheme == "plain" else pts[:-1]
        if scheme == "symmetric" and o["ties"]:
            ctx.count("symmetric_filter_ties_excluded"); continue
        if m.shape != got.shape or not np.allclose(m, got, atol=4e-16, rtol=0):
            brk(f"sampling points differ from the exact model ({len(got)} vs {len(m)} points)"); continue
        ctx.count("sampling_sets_compared_exactly")
    # ---- the witnesses of fixed defect D13 (chunk miscount) and small point sets (fewer points than workers)
    for N, nj in [(34, 7), (41, 7), (49, 11), (3, 16), (5, 8), (15, 16), (16, 15), (1, 4)] + ([] if quick else [(N, nj) for N in range(1, 60, 3) for nj in (2, 7, 11, 16)]):
        P = np.random.default_rng(N).uniform(size=(N, 3))
        for fn, fname in ((slow_scalar_fast, "scalar"), (slow_vector_fast, "vector")):
            name = f"compute_phase_diagram({fname}, N={N}, n_jobs={nj})"
            try:
                data = quiet(lambda: pdg.compute_phase_diagram(P, fn, {}, n_jobs=nj))
                want = np.array([fn(J) for J in P]).T
                if data.shape != want.shape or not np.array_equal(data, want):
                    ctx.impl_violation(f"{name}: parallel result (shape {data.shape}) differs from the serial evaluation (shape {want.shape})", dict(case=name, N=N, n_jobs=nj, fn=fname))
            except Exception as ex:
                ctx.impl_violation(f"{name}: raised {type(ex).__name__}: {ex}", dict(case=name, N=N, n_jobs=nj, fn=fname))
            ctx.case((name,), nontrivial=True)
    # ---- vector-valued functions with exactly as many components as sampling points (a square result block), and results whose type varies from point to point
    sq = [(pdg.get_triangular_sampling_points(2)[0], 3), (pdg.get_non_symmetric_triangular_sampling_points(2)[0], 4), (np.random.default_rng(7).dirichlet(np.ones(3), size=6), 6)]
    for P, d in sq:
        for nj in (1, 3, 16):
            name = f"compute_phase_diagram(square block {len(P)}x{d}, n_jobs={nj})"
            try:
                data = quiet(lambda: pdg.compute_phase_diagram(P, square_vector, dict(d=d), n_jobs=nj))
                want = np.array([square_vector(J, d) for J in P]).T
                if data.shape != want.shape or not np.array_equal(data, want):
                    ctx.impl_violation(f"{name}: parallel result differs from the serial evaluation (component i of point j must be at [i, j])", dict(case=name, N=len(P), d=d, n_jobs=nj))
            except Exception as ex:
                ctx.impl_violation(f"{name}: raised {type(ex).__name__}: {ex}", dict(case=name, N=len(P), d=d, n_jobs=nj))
            ctx.case((name,), nontrivial=True)
    for samples in (6, 9) if quick else (5, 6, 9, 12):
        P = pdg.get_non_symmetric_triangular_sampling_points(samples)[0]
        for nj in (1, 2, 3, 5) if quick else (1, 2, 3, 4, 5, 7, 8, 16):
            name = f"compute_phase_diagram(mixed result types, samples={samples}, n_jobs={nj})"
            try:
                data = quiet(lambda: pdg.compute_phase_diagram(P, mixed_types, {}, n_jobs=nj))
                want = np.array([mixed_types(J) for J in P]).T
                if np.shape(data) != want.shape or not np.array_equal(np.asarray(data, dtype=float), want.astype(float)):
                    ctx.impl_violation(f"{name}: parallel result differs from the serial evaluation in {int(np.sum(np.asarray(data, dtype=float) != want))} entries", dict(case=name, samples=samples, n_jobs=nj))
            except Exception as ex:
                ctx.impl_violation(f"{name}: raised {type(ex).__name__}: {ex}", dict(case=name, samples=samples, n_jobs=nj))
            ctx.case((name,), nontrivial=True)
    # ---- functions that return (a view of) the triple they were given
    P = pdg.get_non_symmetric_triangular_sampling_points(6)[0]
    for fn in (identity, first_two, reversed_view):
        for nj in (1, 2, 5):
            name = f"compute_phase_diagram({fn.__name__}, N={len(P)}, n_jobs={nj})"
            try:
                data = quiet(lambda: pdg.compute_phase_diagram(P, fn, {}, n_jobs=nj))
                want = np.array([np.array(fn(J)) for J in P]).T
                if np.shape(data) != want.shape or not np.array_equal(data, want):
                    ctx.impl_violation(f"{name}: parallel result differs from the serial evaluation (a function returning its argument or a view of it)", dict(case=name, fn=fn.__name__, n_jobs=nj))
            except Exception as ex:
                ctx.impl_violation(f"{name}: raised {type(ex).__name__}: {ex}", dict(case=name, fn=fn.__name__, n_jobs=nj))
            ctx.case((name,), nontrivial=True)
    # ---- every call returns fresh objects: overwrite the first result in place, call again
    for scheme, fn in (("plain", pdg.get_non_symmetric_triangular_sampling_points), ("symmetric", pdg.get_triangular_sampling_points)):
        for s in (2, 5, 10):
            name = f"{scheme}(samples={s}) twice"
            p1, t1 = fn(s)
            keep = p1.copy(); ntri = 1 if scheme == "plain" else len(t1)
            try:
                p1 *= 3
                if isinstance(t1, list):
                    del t1[1:]
            except Exception:
                pass
            p2, t2 = fn(s)
            if not np.array_equal(p2, keep) or (1 if scheme == "plain" else len(t2)) != ntri:
                ctx.impl_violation(f"{name}: a second call returns different values after the first result was overwritten in place: the calls share state", dict(case=name, scheme=scheme, samples=s))
            ctx.case((name,), nontrivial=True)
    core.history_check(ctx, "import numpy as np\nfrom koala import example_graphs as eg, voronization as vz, graph_utils as gu, quasicrystals as qc, phase_diagrams as pdg, hamiltonian as ham\nfrom koala.flux_finder import flux_finder as ff\n\ndef _canon(l):\n    parts = [l.vertices.positions.ravel(), l.edges.indices.ravel().astype(float), l.edges.crossing.ravel().astype(float)]\n    return np.concatenate(parts)\ndef _plaq(l):\n    out = []\n    for p in l.plaquettes:\n        out += [float(len(p.edges))] + [float(x) for x in p.edges] + [float(x) for x in p.directions] + [float(x) for x in p.vertices] + [float(x) for x in p.center]\n    return np.array(out)\n_pts = np.random.default_rng(123).uniform(size=(14, 2))\n", ["pdg.get_triangular_sampling_points(7)[0]", "pdg.get_non_symmetric_triangular_sampling_points(10)[0]"], label="sampling call")
    # ---- parallel map
    pts, _ = pdg.get_non_symmetric_triangular_sampling_points(5 if quick else 7)
    jobs = [1, 2, 3, 5, 8, 16] if quick else list(range(1, 17))
    for fn, fname in ((slow_scalar, "scalar"), (slow_vector, "vector")):
        for extra in ({}, dict(scale=2.5, offset=0.25)):
            serial = np.array([fn(J, **extra) for J in pts]).T
            for n_jobs in jobs:
                name = f"compute_phase_diagram({fname}, extra={bool(extra)}, n_jobs={n_jobs})"
                rep = lambda what, **kw: ctx.impl_violation(f"{name}: {what}", dict(case=name, fn=fname, extra=extra, n_jobs=n_jobs, **kw))
                try:
                    data = quiet(lambda: pdg.compute_phase_diagram(pts, fn, extra, n_jobs=n_jobs))
                except Exception as ex:
                    rep(f"raised {type(ex).__name__}: {ex}"); continue
                if data.shape != serial.shape or not np.array_equal(data, serial):
                    rep(f"parallel result (shape {data.shape}) differs from the serial evaluation (shape {serial.shape}) in values or order"); continue
                ctx.case((name,), nontrivial=n_jobs > 1)
                ctx.count("parallel_runs_equal_serial")
    # ---- the same with extras reaching the function through **kwargs / an unwrapped decorator, and with a scratch buffer among the extras
    for fn, fname, extra in ((kwargs_scalar, "kwargs", dict(scale=2.5, offset=0.25)), (wrapped_scalar, "decorated", dict(scale=-1.5, offset=2.0)),
                             (scratch_vector, "scratch", dict(buf=np.zeros(4), scale=3.0))):
        ex_serial = {k: (v.copy() if isinstance(v, np.ndarray) else v) for k, v in extra.items()}
        serial = np.array([fn(J, **ex_serial) for J in pts]).T
        for n_jobs in ([1, 2, 4, 8] if quick else [1, 2, 3, 4, 6, 8, 12, 16]):
            name = f"compute_phase_diagram({fname}, n_jobs={n_jobs})"
            rep = lambda what, **kw: ctx.impl_violation(f"{name}: {what}", dict(case=name, fn=fname, n_jobs=n_jobs, **kw))
            try:
                data = quiet(lambda: pdg.compute_phase_diagram(pts, fn, {k: (v.copy() if isinstance(v, np.ndarray) else v) for k, v in extra.items()}, n_jobs=n_jobs))
            except Exception as ex:
                rep(f"raised {type(ex).__name__}: {ex}"); continue
            if data.shape != serial.shape or not np.array_equal(data, serial):
                rep(f"parallel result (shape {data.shape}) differs from the serial evaluation with the same extra arguments (shape {serial.shape})"); continue
            ctx.case((name,), nontrivial=n_jobs > 1)
            ctx.count("parallel_runs_equal_serial")
    # ---- extra arguments that are whole tables, one of them with exactly one row per sampling point; results that are 0-d arrays, one-component vectors, matrices
    N_ = len(pts)
    for fn, fname, extra in ((table_scalar, "table extra of length N", dict(table=np.linspace(0.5, 2.0, N_))), (table_vector, "table extra of length N (vector)", dict(table=np.linspace(-1.0, 3.0, N_))),
                             (table_scalar, "tables of length N and (N, 2)", dict(table=np.cos(np.arange(N_)), weights=np.stack([np.arange(N_) / N_, np.ones(N_)], axis=1))),
                             (table_scalar, "table of length 3", dict(table=np.array([1.0, -2.0, 0.5]))),
                             (zero_d, "0-d array result", {}), (one_component, "one-component result", {}), (matrix_valued, "2 x 2 result", {})):
        try:
            serial = np.array([fn(J, **extra) for J in pts]).T
        except Exception:
            continue
        for n_jobs in ([1, 2, 5] if quick else [1, 2, 3, 5, 8, 16]):
            name = f"compute_phase_diagram({fname}, n_jobs={n_jobs})"
            try:
                data = quiet(lambda: pdg.compute_phase_diagram(pts, fn, {k: v.copy() for k, v in extra.items()}, n_jobs=n_jobs))
            except Exception as ex:
                ctx.impl_violation(f"{name}: raised {type(ex).__name__}: {ex}", dict(case=name, fn=fname, n_jobs=n_jobs)); continue
            if np.shape(data) != serial.shape or not np.array_equal(data, serial):
                ctx.impl_violation(f"{name}: result (shape {np.shape(data)}) differs from function(point, **extra_args) at every point in order (shape {serial.shape})", dict(case=name, fn=fname, n_jobs=n_jobs)); continue
            ctx.case((name,), nontrivial=True); ctx.count("parallel_runs_equal_serial")
    # ---- the points of the symmetric scheme (the appended centre coincides with a grid point when 3 divides samples - 1: a repeated point), several worker counts
    for s_ in ((4, 7, 10) if quick else (4, 7, 10, 13, 16, 19)):
        sp, _ = pdg.get_triangular_sampling_points(s_)
        dup = len(sp) - len(np.unique(np.round(sp, 12), axis=0))
        ctx.count("symmetric_point_sets_with_a_repeated_point", int(dup > 0))
        serial = np.array([slow_vector_fast(J) for J in sp]).T
        for n_jobs in ((2, 3, 5, 7) if quick else (2, 3, 4, 5, 6, 7, 8, 11, 16)):
            name = f"compute_phase_diagram(vector, symmetric points samples={s_}, n_jobs={n_jobs})"
            try:
                data = quiet(lambda: pdg.compute_phase_diagram(sp, slow_vector_fast, {}, n_jobs=n_jobs))
            except Exception as ex:
                ctx.impl_violation(f"{name}: raised {type(ex).__name__}: {ex}", dict(case=name, samples=s_, n_jobs=n_jobs)); continue
            if data.shape != serial.shape or not np.array_equal(data, serial):
                ctx.impl_violation(f"{name}: parallel result differs from the serial evaluation in values or order", dict(case=name, samples=s_, n_jobs=n_jobs)); continue
            ctx.case((name,), nontrivial=True); ctx.count("parallel_runs_equal_serial")
    # ---- functions that reduce over the components of their point
    for fn, fname in ((normalised, "J / J.max()"), (sorted_couplings, "np.sort(J)")):
        serial = np.array([fn(J) for J in pts]).T
        for n_jobs in ([1, 2, 5] if quick else [1, 2, 3, 5, 8, 16]):
            name = f"compute_phase_diagram({fname}, n_jobs={n_jobs})"
            try:
                data = quiet(lambda: pdg.compute_phase_diagram(pts, fn, {}, n_jobs=n_jobs))
            except Exception as ex:
                ctx.impl_violation(f"{name}: raised {type(ex).__name__}: {ex}", dict(case=name, fn=fname, n_jobs=n_jobs)); continue
            if data.shape != serial.shape or not np.array_equal(data, serial):
                ctx.impl_violation(f"{name}: parallel result (shape {data.shape}) differs from the serial evaluation (shape {serial.shape})", dict(case=name, fn=fname, n_jobs=n_jobs)); continue
            ctx.case((name,), nontrivial=n_jobs > 1); ctx.count("parallel_runs_equal_serial")
    # ---- two calls in a row with the same function and the same extra-arguments dict object, edited in place in between: each call evaluates with the
    #      arguments as they are when it is made
    shared = dict(scale=2.0, offset=0.5)
    for n_jobs in ([2, 4] if quick else [1, 2, 3, 4, 8]):
        name = f"compute_phase_diagram(scalar, same extra_args dict edited in place between calls, n_jobs={n_jobs})"
        try:
            shared["scale"], shared["offset"] = 2.0, 0.5
            first = quiet(lambda: pdg.compute_phase_diagram(pts, slow_scalar_kw, shared, n_jobs=n_jobs))
            shared["scale"], shared["offset"] = -3.0, 1.25
            second = quiet(lambda: pdg.compute_phase_diagram(pts, slow_scalar_kw, shared, n_jobs=n_jobs))
            want1 = np.array([slow_scalar_kw(J, scale=2.0, offset=0.5) for J in pts]).T; want2 = np.array([slow_scalar_kw(J, scale=-3.0, offset=1.25) for J in pts]).T
            if not (np.array_equal(first, want1) and np.array_equal(second, want2)):
                ctx.impl_violation(f"{name}: the second call does not evaluate the function with the edited arguments (or the first with the original ones)", dict(case=name, n_jobs=n_jobs))
        except Exception as ex:
            ctx.impl_violation(f"{name}: raised {type(ex).__name__}: {ex}", dict(case=name, n_jobs=n_jobs))
        ctx.case((name,), nontrivial=True)
    ctx.assumptions += ["mpire's WorkerPool (chunking, result ordering, numpy concatenation) and the OS scheduler are third-party: the theorem covers every chunking and "
                        "arrival order of the abstract reassembly; real schedules are sampled (index-dependent sleeps, n_jobs 1..16)",
                        "matplotlib.tri.Triangulation keeps the node arrays it is given"]


def replay(ctx, path):
    j = json.loads(open(path).read())["replay"]
    print("replay: rerun", j); return 0
