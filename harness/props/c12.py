"""C12 - cutting, deleting and relabelling return exactly the described sub-lattice.

L1: Props/C12.lean (translated boundary mask; masks keep order and alignment; new_index is the order-preserving bijection;
    trailing-edge loop = greatest sub-list without degree-one vertices, idempotent; permutation bookkeeping, edge vectors kept).
L2: translator (cut mask) + exact correspondence of the output lattices (vertex count, positions, edges, crossings, reported
    edges) of all five operations with the executable model.
L3: the statement on the implementation: independent recomputation of the expected sub-lattice, plaquette survival with the
    same geometry, no new plaquettes after cutting / trailing-edge removal (known finding K1 classified by its signature),
    idempotence, permutation invariance of plaquettes.
"""
from __future__ import annotations

import itertools
import json

import numpy as np

import core
import translate
import zoo
import koala.graph_utils as gu
from koala import example_graphs as eg
from koala.lattice import Lattice, LatticeException, cut_boundaries, permute_vertices
try:                                                     # a private helper: present at the pinned commit, free to change its name or signature
    from koala.lattice import _find_plaquette
except ImportError:
    _find_plaquette = None
from props.c01 import min_gap, GAP_MIN

K1_SIGNATURE = "new-plaquette-is-input-face-minus-removed-spikes"


def lat_eq_json(l, o):
    """exact comparison of a koala lattice with the model's output lattice"""
    S = o["_scale"]
    pos = [[core.to_scaled(x, S), core.to_scaled(y, S)] for x, y in np.asarray(l.vertices.positions, dtype=float)]
    return (int(l.n_vertices) == o["nV"] and pos == o["pos"]
            and np.asarray(l.edges.indices, dtype=int).reshape(-1, 2).tolist() == o["edges"]
            and np.asarray(l.edges.crossing, dtype=int).reshape(-1, 2).tolist() == o["cross"])


def canon(es, ds):
    f = list(zip([int(e) for e in es], [int(d) for d in ds]))
    i = f.index(min(f))
    return tuple(f[i:] + f[:i])


def plaq_set(l):
    return {canon(p.edges, p.directions): p for p in l.plaquettes}


def all_faces(l):
    """every traced walk of the input (valid or not), as cyclic dart tuples"""
    out = []
    seen = set()
    if _find_plaquette is not None:
        try:
            _find_plaquette(0, 1, l)
        except TypeError:
            usable = False                               # signature changed: use the harness's own exact face tracer
        except Exception:
            usable = True
        else:
            usable = True
    else:
        usable = False
    if not usable:
        import oracle_faces
        return [[(int(e), int(d)) for e, d in f] for f in oracle_faces.face_structure(l)["faces"]]
    for e in range(l.n_edges):
        for d in (1, -1):
            if (e, d) in seen:
                continue
            try:
                p, valid = _find_plaquette(e, d, l)
            except LatticeException:
                continue
            w = list(zip([int(x) for x in p.edges], [int(x) for x in p.directions]))
            seen.update(w)
            out.append(w)
    return out


def is_k1(l_in, face_new_old_idx, removed_edges):
    """K1's signature: the new plaquette is an input face from which only removed edges, each used twice by that face, were spliced out"""
    removed = set(removed_edges)
    target = canon([e for e, d in face_new_old_idx], [d for e, d in face_new_old_idx])
    for w in all_faces(l_in):
        rest = [(e, d) for e, d in w if e not in removed]
        gone = [e for e, d in w if e in removed]
        if not rest or not gone:
            continue
        if any(gone.count(e) != 2 for e in set(gone)):
            continue
        if canon([e for e, d in rest], [d for e, d in rest]) == target:
            return True
    return False


def compare_plaquettes(ctx, name, op, l_in, l_out, edge_map, rep, no_new):
    """edge_map: old edge index -> new edge index (absent = removed).  Survival with the same geometry, and (if no_new) no new ones."""
    try:
        P_in, P_out = plaq_set(l_in), plaq_set(l_out)
    except LatticeException:
        ctx.count("plaquette_comparison_skipped_stuck"); return
    inv = {v: k for k, v in edge_map.items()}
    removed = [e for e in range(l_in.n_edges) if e not in edge_map]
    for key, p in P_in.items():
        if all(e in edge_map for e, d in key):
            nk = canon([edge_map[e] for e, d in key], [d for e, d in key])
            q = P_out.get(nk)
            if q is None:
                rep(f"{op}: an input plaquette none of whose edges was removed is not a plaquette of the output", plaquette=list(key)); return
            if q.n_sides != p.n_sides or not np.allclose(q.center, p.center, atol=1e-9, rtol=0):
                rep(f"{op}: a surviving plaquette changed its geometry", plaquette=list(key)); return
            ctx.count("plaquettes_survival_checked")
    if no_new:
        old_keys = {canon([edge_map[e] for e, d in key], [d for e, d in key]) for key in P_in if all(e in edge_map for e, d in key)}
        for nk in P_out:
            if nk not in old_keys:
                as_old = [(inv[e], d) for e, d in nk]
                if is_k1(l_in, as_old, removed):
                    ctx.count("K1_new_plaquette_after_spike_removal")
                    ctx.impl_violation(f"{name}: {op} created a plaquette (dangling tree inside a bounded face)",
                                       dict(case=name, op=op, lattice=zoo.lat_to_json(l_in), new_plaquette=[list(x) for x in as_old]),
                                       signature=K1_SIGNATURE)
                else:
                    rep(f"{op}: created a new plaquette that is not an input face with spikes removed", new_plaquette=[list(x) for x in as_old])
                return


def expected_trailing(l):
    """independent 2-core style computation on original labels: returns (kept edge indices, removed vertex set)"""
    E = [tuple(int(x) for x in e) for e in l.edges.indices]
    alive = list(range(len(E)))
    removed_v = set()
    while True:
        deg = {}
        for i in alive:
            a, b = E[i]
            deg[a] = deg.get(a, 0) + 1; deg[b] = deg.get(b, 0) + 1
        d1 = {v for v, k in deg.items() if k == 1}
        if not d1:
            break
        removed_v |= d1
        alive = [i for i in alive if E[i][0] not in d1 and E[i][1] not in d1]
    return alive, removed_v


def check_lattice(ctx, rng, name, fam, l, reqs, meta):
    lat = zoo.lat_to_json(l)
    S = lat["scale"]
    nV, nE = l.n_vertices, l.n_edges
    generic = min_gap(l) >= GAP_MIN and not zoo.has_self_loop(l)
    rep_base = dict(case=name, lattice=lat)
    pos = np.asarray(l.vertices.positions); E = np.asarray(l.edges.indices, dtype=int).reshape(-1, 2); C = np.asarray(l.edges.crossing, dtype=int).reshape(-1, 2)

    def add(kind, out_l, extra, **kw):
        reqs.append(dict(op="surgery", kind=kind, **kw, **lat)); meta.append((name, kind, out_l, extra, S, kw))

    # ---- cut_boundaries, all four selections, and cut after cut
    for bx, by in itertools.product([False, True], repeat=2):
        rep = lambda what, **kw: ctx.impl_violation(f"{name}: {what}", dict(op="cut", bx=bx, by=by, **rep_base, **kw))
        try:
            c = cut_boundaries(l, [bx, by])
        except Exception as ex:
            rep(f"cut_boundaries raised {type(ex).__name__}: {ex}"); continue
        keep = [i for i in range(nE) if not ((bx and C[i, 0] != 0) or (by and C[i, 1] != 0))]
        ok = (c.n_vertices == nV and np.array_equal(c.vertices.positions, pos) and np.array_equal(c.edges.indices.reshape(-1, 2), E[keep])
              and np.array_equal(c.edges.crossing.reshape(-1, 2), C[keep]))
        if not ok:
            rep("cut_boundaries did not remove exactly the edges crossing the selected boundaries"); continue
        if generic:
            compare_plaquettes(ctx, name, "cut_boundaries", l, c, {e: i for i, e in enumerate(keep)}, rep, no_new=True)
        # the same selection written with the integers 0 / 1, as a tuple, as a numpy array of ints and of bools
        for lab, flags in (("[1, 0] integers", [int(bx), int(by)]), ("tuple of bools", (bx, by)), ("numpy ints", np.array([int(bx), int(by)])), ("numpy bools", np.array([bx, by]))):
            try:
                cf = cut_boundaries(l, flags)
                if not (np.array_equal(cf.edges.indices.reshape(-1, 2), c.edges.indices.reshape(-1, 2)) and np.array_equal(cf.edges.crossing.reshape(-1, 2), c.edges.crossing.reshape(-1, 2))):
                    rep(f"cut_boundaries with the selection given as {lab} {list(map(int, flags))} differs from the selection given as a list of bools", flags=lab); break
            except Exception as ex:
                rep(f"cut_boundaries raised {type(ex).__name__}: {ex} for the selection given as {lab}", flags=lab); break
        c2 = cut_boundaries(c, [bx, by])
        if not (np.array_equal(c2.edges.indices, c.edges.indices) and np.array_equal(c2.edges.crossing, c.edges.crossing)):
            rep("cutting the same boundaries twice changes the lattice")
        ctx.case((name, "cut", bx, by), nontrivial=len(keep) < nE, sample=dict(case=name, op="cut", bx=bx, by=by, kept=len(keep), of=nE))
        add("cut", c, None, bx=bx, by=by)
    # ---- remove_vertices: subsets of every kind
    subsets = [np.array([], dtype=int), np.arange(nV)]
    for k in sorted({1, 2, max(1, nV // 3), max(1, nV // 2), max(1, nV - 1)}):
        if k <= nV:
            subsets.append(np.sort(rng.choice(nV, k, replace=False)))
            subsets.append(rng.choice(nV, k, replace=False))                   # unsorted index arrays too
    if nE:
        a, b = E[int(rng.integers(nE))]
        nb = np.unique(E[np.any(E == a, axis=1)].flatten())
        subsets.append(nb[nb != a])                                             # isolates vertex a
    for idx in subsets:
        idx = np.asarray(idx, dtype=int)
        rep = lambda what, **kw: ctx.impl_violation(f"{name}: {what}", dict(op="remove", idx=idx.tolist(), **rep_base, **kw))
        try:
            r, rem = gu.remove_vertices(l, idx, return_edge_removal=True)
        except Exception as ex:
            rep(f"remove_vertices raised {type(ex).__name__}: {ex}"); continue
        gone = set(idx.tolist())
        kept_v = [v for v in range(nV) if v not in gone]
        new = {v: i for i, v in enumerate(kept_v)}
        keep = [i for i in range(nE) if E[i, 0] not in gone and E[i, 1] not in gone]
        want_E = np.array([[new[a], new[b]] for a, b in E[keep]], dtype=int).reshape(-1, 2)
        ok = (r.n_vertices == len(kept_v) and np.array_equal(r.vertices.positions, pos[kept_v])
              and np.array_equal(r.edges.indices.reshape(-1, 2), want_E) and np.array_equal(r.edges.crossing.reshape(-1, 2), C[keep])
              and set(int(x) for x in rem) == set(range(nE)) - set(keep))
        if not ok:
            rep("remove_vertices did not return the described sub-lattice / edge report"); continue
        if generic and r.n_edges:
            compare_plaquettes(ctx, name, "remove_vertices", l, r, {e: i for i, e in enumerate(keep)}, rep, no_new=False)
        ctx.case((name, "remove", tuple(idx.tolist())), nontrivial=0 < len(idx) < nV,
                 sample=dict(case=name, op="remove", removed=idx.tolist()[:8], kept_edges=len(keep)))
        add("remove", r, sorted(set(int(x) for x in rem)), idx=idx.tolist())
    # ---- remove_vertices: the same selection in the other forms NumPy indexing accepts (a boolean mask, indices counted from the end, a list, narrow dtypes).
    #      A form that is rejected with an exception is not this property's business; one that is accepted must remove the vertices it names.
    if nV >= 3:
        sel = np.sort(rng.choice(nV, max(1, nV // 3), replace=False))
        try:
            ref, ref_rem = gu.remove_vertices(l, sel, return_edge_removal=True)
            mask = np.zeros(nV, dtype=bool); mask[sel] = True
            for lab, arg in (("boolean mask", mask), ("indices counted from the end", sel - nV), ("list", [int(x) for x in sel]), ("uint8 array", sel.astype(np.uint8)) if nV <= 255 else ("int32 array", sel.astype(np.int32)),
                             ("mixed signs", np.where(np.arange(len(sel)) % 2 == 0, sel, sel - nV))):
                try:
                    got, got_rem = gu.remove_vertices(l, arg, return_edge_removal=True)
                except Exception:
                    ctx.count("remove_vertices_form_rejected"); continue
                if not (got.n_vertices == ref.n_vertices and np.array_equal(got.vertices.positions, ref.vertices.positions) and np.array_equal(got.edges.indices, ref.edges.indices)
                        and np.array_equal(got.edges.crossing, ref.edges.crossing) and sorted(int(x) for x in got_rem) == sorted(int(x) for x in ref_rem)):
                    ctx.impl_violation(f"{name}: remove_vertices with the vertices {sel.tolist()} given as {lab} is accepted but does not remove exactly those vertices ({got.n_vertices} vertices left, expected {ref.n_vertices})",
                                       dict(op="remove", idx=sel.tolist(), form=lab, **rep_base))
                ctx.case((name, "remove-form", lab), nontrivial=True)
        except Exception:
            pass
    # ---- remove_trailing_edges
    rep = lambda what, **kw: ctx.impl_violation(f"{name}: {what}", dict(op="trailing", **rep_base, **kw))
    try:
        t = gu.remove_trailing_edges(l)
        keep, gone = expected_trailing(l)
        kept_v = [v for v in range(nV) if v not in gone]
        new = {v: i for i, v in enumerate(kept_v)}
        want_E = np.array([[new[a], new[b]] for a, b in E[keep]], dtype=int).reshape(-1, 2)
        ok = (t.n_vertices == len(kept_v) and np.array_equal(t.vertices.positions, pos[kept_v])
              and np.array_equal(t.edges.indices.reshape(-1, 2), want_E) and np.array_equal(t.edges.crossing.reshape(-1, 2), C[keep]))
        deg = np.bincount(t.edges.indices.flatten(), minlength=t.n_vertices) if t.n_edges else np.zeros(t.n_vertices, dtype=int)
        if not ok:
            rep("remove_trailing_edges is not the largest sub-lattice without degree-one vertices")
        elif np.any(deg == 1):
            rep("result of remove_trailing_edges has a degree-one vertex")
        else:
            t2 = gu.remove_trailing_edges(t)
            if not (t2.n_vertices == t.n_vertices and np.array_equal(t2.edges.indices, t.edges.indices)):
                rep("remove_trailing_edges is not idempotent")
            if generic and t.n_edges:
                compare_plaquettes(ctx, name, "remove_trailing_edges", l, t, {e: i for i, e in enumerate(keep)}, rep, no_new=True)
            ctx.case((name, "trailing"), nontrivial=len(keep) < nE, sample=dict(case=name, op="trailing", kept=len(keep), of=nE))
            add("trailing", t, None)
    except ValueError as ex:
        ctx.count("trailing_skipped_empty_result")          # everything was a tree: empty lattices are not constructible
    except Exception as ex:
        rep(f"remove_trailing_edges raised {type(ex).__name__}: {ex}")
    # ---- permutations
    if nV <= 6 and ctx.tier == "thorough":
        perms = [np.array(p) for p in itertools.permutations(range(nV))]
    elif nV <= 4:
        perms = [np.array(p) for p in itertools.permutations(range(nV))]
    else:
        perms = [rng.permutation(nV) for _ in range(3)] + [np.roll(np.arange(nV), 1)]
        # orderings in narrow integer dtypes (products and sums of indices must not be computed in the ordering's own dtype)
        perms += [rng.permutation(nV).astype(dt) for dt in (np.uint8, np.int8, np.int16, np.uint16, np.int32) if nV - 1 <= np.iinfo(dt).max]
    for o in perms:
        for fn, kind in ((permute_vertices, "permute"), (gu.reorder_vertices, "reorder")):
            rep = lambda what, **kw: ctx.impl_violation(f"{name}: {what}", dict(op=kind, ordering=o.tolist(), **rep_base, **kw))
            try:
                pl = fn(l, o)
            except Exception as ex:
                rep(f"{kind} raised {type(ex).__name__}: {ex}"); continue
            if kind == "permute":
                ok = np.array_equal(pl.vertices.positions, pos[o])                     # new position i = old position ordering[i]
                new_of_old = np.argsort(o.astype(np.int64))
            else:
                ok = np.array_equal(pl.vertices.positions[o], pos)                     # permutation applied to indices
                new_of_old = o
            ok = ok and np.array_equal(pl.edges.indices.reshape(-1, 2), new_of_old[E]) and np.array_equal(pl.edges.crossing.reshape(-1, 2), C)
            ok = ok and np.array_equal(pl.edges.vectors, l.edges.vectors)
            if not ok:
                rep(f"{kind}_vertices did not return the relabelled lattice (positions / edge order / edge vectors)"); continue
            if generic:
                try:
                    a = [(p.edges.tolist(), p.directions.tolist(), new_of_old[p.vertices].tolist()) for p in l.plaquettes]
                    b = [(p.edges.tolist(), p.directions.tolist(), p.vertices.tolist()) for p in pl.plaquettes]
                    if a != b:
                        rep(f"{kind}_vertices changed the plaquettes")
                except LatticeException:
                    pass
            ctx.case((name, kind, tuple(o.tolist())), nontrivial=not np.array_equal(o, np.arange(nV)))
            add(kind, pl, None, ordering=o.tolist())


def cases_for(ctx, rng):
    quick = ctx.tier == "quick"
    cases = list(zoo.fixed_examples())
    cases += zoo.random_cases(rng, 40 if quick else 300, max_seeds=25 if quick else 60)
    cases += list(zoo.edge_subsets(rng, 30 if quick else 400))
    # dangling trees inside faces and chains of dangling edges (K1 territory)
    sq = eg.square_lattice(3, 3)
    for t in range(4 if quick else 20):
        base = zoo.voronoi(rng, int(rng.integers(4, 12)))
        pos = np.concatenate([base.vertices.positions, rng.uniform(0.05, 0.95, size=(2, 2))])
        a = int(rng.integers(base.n_vertices)); n = base.n_vertices
        edges = np.concatenate([base.edges.indices, [[a, n], [n, n + 1]]])
        d1 = np.round(pos[n] - pos[a]); d2 = np.round(pos[n + 1] - pos[n])
        cross = np.concatenate([base.edges.crossing, [[0, 0], [0, 0]]])
        cases.append((f"spike#{t}", "spike", Lattice(pos, edges, cross)))
    # single tails whose vertices carry every possible label, in particular 0: in some round of the trimming loop the set of dangling vertices is then
    # exactly {0} (or {k}), the values on which index-truthiness and off-by-one mistakes in the loop condition show
    def relabel(pos, edges, cross, new_of_old):
        inv = np.argsort(new_of_old)
        return Lattice(pos[inv], np.array(new_of_old)[edges], cross)
    # the last entries: tails longer than the rest of the lattice (more peeling rounds than half the vertex count)
    for t, (k, m) in enumerate([(1 + t % 3, 4 + t % 2) for t in range(3 if quick else 12)] + [(6, 3), (9, 3), (8, 4)] + ([] if quick else [(14, 3), (25, 5)])):
        ang = 2 * np.pi * np.arange(m) / m
        cyc = 0.5 + 0.3 * np.stack([np.cos(ang), np.sin(ang)], axis=1)
        tail = np.array([[0.5 + 0.3 + 0.19 / (max(k, 3) + 1) * (i + 1), 0.5 + 0.01 * (i + 1)] for i in range(k)])       # outwards from cycle vertex 0: no new plaquette (not K1)
        pos = np.concatenate([cyc, tail])
        edges = np.array([[i, (i + 1) % m] for i in range(m)] + [[0 if i == 0 else m + i - 1, m + i] for i in range(k)])
        cross = np.zeros_like(edges)
        n = m + k
        for target in range(m, n):                       # each tail vertex becomes vertex 0 once
            perm = np.arange(n); perm[[0, target]] = perm[[target, 0]]
            cases.append((f"tail{m}+{k}:v{target}->0", "tail", relabel(pos, edges, cross, perm)))
        cases.append((f"tail{m}+{k}:random", "tail", relabel(pos, edges, cross, rng.permutation(n))))
        cases.append((f"tail{m}+{k}:reversed", "tail", relabel(pos, edges, cross, np.arange(n)[::-1].copy())))
    # lattices without any edge (bare points, or what is left when every edge has been removed): relabelling still has to move the positions
    cases.append(("bare-points3", "edgeless", Lattice(np.array([[0.1, 0.2], [0.7, 0.3], [0.4, 0.9]]), np.zeros((0, 2), dtype=int), np.zeros((0, 2), dtype=int))))
    hb = eg.honeycomb_lattice(2)
    try:
        cases.append(("honey2-minus-sublattice", "edgeless", gu.remove_vertices(hb, np.unique(hb.edges.indices[:, 0]))))
    except Exception:
        pass
    # the fixed witness of known finding K1: a square with an inward dangling edge (always exercised)
    cases.append(("K1-witness", "spike", Lattice(np.array([[0.2, 0.2], [0.8, 0.2], [0.8, 0.8], [0.2, 0.8], [0.5, 0.55]]),
                                               np.array([[0, 1], [1, 2], [2, 3], [3, 0], [0, 4]]), np.zeros((5, 2), dtype=int))))
    return cases


def run(ctx):
    ctx.rule = ("one evaluation = one operation (cut selection / vertex subset / trailing-edge removal / permutation) on one zoo lattice, "
                "compared exactly with the model and judged against an independent recomputation and the plaquette statements; "
                "non-trivial = the operation changes the lattice; distinct by (lattice, operation, argument)")
    rep0 = core.guarded_translate(ctx, translate.regenerate_all, "T-int/T-const", dict(kernels=[], tables=[], changed={}))
    core.note_translation(ctx, [k for k in rep0["kernels"] if k["kernel"] == "cut_keep"])
    ctx.run_audit()
    rng = np.random.default_rng(ctx.seed)
    reqs, meta = [], []
    for name, fam, l in cases_for(ctx, rng):
        if l.n_vertices > 400:
            continue
        ctx.count("family:" + fam)
        check_lattice(ctx, rng, name, fam, l, reqs, meta)
    outs = core.Driver().run_parallel(reqs)
    for (name, kind, out_l, extra, S, kw), o in zip(meta, outs):
        brk = lambda what: ctx.corr_break(f"{name}: {what}", dict(case=name, op=kind, args=kw))
        if "err" in o:
            brk(f"model error {o['err']}"); continue
        o["_scale"] = S
        if not lat_eq_json(out_l, o):
            brk(f"{kind}: output lattice differs from the model"); continue
        if kind == "remove" and o["removed_edges"] != extra:
            brk("remove: reported edge set differs from the model"); continue
        if kind == "trailing" and not o["core_agrees"]:
            brk("trailing: model's staged result differs from its own edge-level fixpoint (core)"); continue
        ctx.count("outputs_compared:" + kind)
    ctx.assumptions.append("plaquette survival / no-new-plaquette statements are decided on the implementation (C01's model decides the plaquettes themselves); "
                           "the Lean theorem 'faces avoiding removed edges survive' is not yet proved")


def replay(ctx, path):
    j = json.loads(open(path).read())["replay"]
    lat = j["lattice"]
    l = Lattice(np.array(lat["pos"], dtype=float) / lat["scale"], np.array(lat["edges"], dtype=int).reshape(-1, 2),
                np.array(lat["cross"], dtype=int).reshape(-1, 2))
    check_lattice(ctx, np.random.default_rng(0), "replay", "replay", l, [], [])
    known = {k["signature"] for k in core.load_known() if k["status"] == "open"}
    real = [v for v in ctx.violations if v.get("signature") not in known]
    print("violations:", [v["what"] for v in real], "known:", len(ctx.violations) - len(real))
    return 1 if real else 0
