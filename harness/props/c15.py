"""C15 - no koala operation modifies the lattice or arrays passed to it.

L1: Props/C15.lean (soundness of the effect-IR obligation for every finite atom sequence drawn from a function's program; history independence
    of a sequence of argument-preserving, argument-determined operations; cache part by C02) + Generated/Effects.lean: one kernel-checked
    obligation `check prog pt allowed = true` per function of koala.
L2: translator T-eff: the effect programs and certificates are regenerated from /repo's working tree on every run; dynamic fingerprint
    correspondence validates the classification table: the byte fingerprints of every shared argument and of every array reachable from the
    shared lattices are compared before/after every call of random call sequences over the public functions.
L3: the same sequences with read-only arrays (a write raises at its line: that is the replay), and every prefix result compared with a fresh
    evaluation on fresh copies.
"""
from __future__ import annotations

import copy
import hashlib
import json
import warnings

import numpy as np

import core
import zoo
from translate import effects
import koala.flux_finder as ffpkg
from koala import chern_number as cn
from koala import example_graphs as eg
from koala import graph_color as gc
from koala import graph_utils as gu
from koala import hamiltonian as hm
from koala import phase_space as ps
from koala import plotting as pl
from koala import voronization as vz
from koala.flux_finder import flux_finder as ff
from koala.flux_finder import pathfinding as pf
from koala.lattice import Lattice, cut_boundaries, permute_vertices
from props.c09 import canon


def fp_arr(a):
    a = np.asarray(a)
    return (a.dtype.str, a.shape, hashlib.sha1(np.ascontiguousarray(a).tobytes()).hexdigest())


def fp_lat(l):
    d = {"pos": fp_arr(l.vertices.positions), "ei": fp_arr(l.edges.indices), "cr": fp_arr(l.edges.crossing), "vec": fp_arr(l.edges.vectors),
         "ae": tuple(fp_arr(x) for x in l.vertices.adjacent_edges), "cn": fp_arr(l.vertices.coordination_numbers),
         "ee": tuple(fp_arr(x) for x in l.edges.adjacent_edges), "nv": l.n_vertices, "ne": l.n_edges}
    if "plaquettes" in l.__dict__:
        d["pl"] = tuple((fp_arr(p.vertices), fp_arr(p.edges), fp_arr(p.directions), fp_arr(p.center), int(p.n_sides), fp_arr(p.adjacent_plaquettes)) for p in l.plaquettes)
        d["eap"] = fp_arr(l._edges_adjacent_plaquettes); d["vap"] = fp_arr(l._vertices_adjacent_plaquettes)
    return d


def fp(x):
    if isinstance(x, Lattice): return fp_lat(x)
    if isinstance(x, np.ndarray): return fp_arr(x)
    return repr(x)


def lat_changed(before, after):
    """a lattice fingerprint may only *gain* the cached entries, with nothing else changed"""
    return [k for k in before if before[k] != after.get(k)]


class World:
    """the shared objects of one call sequence"""

    def __init__(self, rng, base, readonly=False, int_dtype=None):
        import matplotlib
        matplotlib.use("Agg")
        from matplotlib import pyplot as plt
        self.plt = plt
        P, E, C = zoo.raw(base)
        self.l = Lattice(P, E, C)
        l = self.l
        nE, nV = l.n_edges, l.n_vertices
        try:
            self.col = gc.color_lattice(Lattice(P.copy(), E.copy(), C.copy()))
        except Exception:
            self.col = rng.integers(0, 3, size=nE).astype(np.int8)
        self.u = rng.choice([-1, 1], size=nE).astype(np.int8)
        self.J = np.array([1.0, 0.75, 1.25])
        F = Lattice(P.copy(), E.copy(), C.copy()).n_plaquettes
        self.F = F
        self.tgt = rng.choice([-1, 1], size=max(F, 1)).astype(np.int8)[:F]
        self.pts = rng.uniform(size=(max(4, nV // 2), 2))
        self.perm = rng.permutation(nV)
        self.idx = np.sort(rng.choice(nV, size=min(3, nV), replace=False))
        lt = Lattice(P.copy(), E.copy(), C.copy())
        self.tree = gu.plaquette_spanning_tree(lt) if F >= 2 else np.zeros(0, dtype=int)
        H = hm.majorana_hamiltonian(lt, self.col, self.u, self.J)
        w, v = np.linalg.eigh(H)
        self.P = v[:, : nV // 2] @ v[:, : nV // 2].conj().T
        self.H = H
        self.k = np.array([0.3, 0.4])
        self.cross = np.array([0.5, 0.5])
        self.scalar = np.arange(nV) * 1.0
        self.sub = np.sort(rng.choice(nE, size=max(1, min(5, nE - 1)), replace=False))
        self.sublabels = (np.arange(len(self.sub)) % 3) + 0
        self.psub = np.arange(max(1, F - 1))
        self.plabels = (np.arange(len(self.psub)) % 2) + 0
        self.scheme_str = np.array(["#E7414E", "#1b9e77", "#7570b3", "#e7298a"])                   # colour schemes handed over as arrays (string and RGBA)
        self.scheme_rgba = np.array(plt.get_cmap("viridis")(np.linspace(0, 1, 4)))
        if int_dtype is not None:           # the same integer data in another dtype: views/copies of numpy depend on it
            for k in ("col", "u", "tgt", "perm", "idx", "tree", "sublabels", "plabels"):
                setattr(self, k, np.asarray(getattr(self, k)).astype(int_dtype))
        self.arrays = dict(sub=self.sub, sublabels=self.sublabels, psub=self.psub, plabels=self.plabels, col=self.col, u=self.u, J=self.J, tgt=self.tgt, pts=self.pts, perm=self.perm, idx=self.idx, tree=self.tree, P=self.P, H=self.H,
                           k=self.k, cross=self.cross, scalar=self.scalar, scheme_str=self.scheme_str, scheme_rgba=self.scheme_rgba)
        if readonly:
            for a in self.arrays.values():
                a.setflags(write=False)
            for a in (l.vertices.positions, l.edges.indices, l.edges.crossing, l.edges.vectors, l.vertices.coordination_numbers):
                a.setflags(write=False)
            for a in list(l.vertices.adjacent_edges) + list(l.edges.adjacent_edges):
                np.asarray(a).setflags(write=False)

    def shared(self):
        return dict(l=self.l, **self.arrays)

    def calls(self):
        w = self
        l = w.l
        fig_ax = lambda: w.plt.subplots()[1]
        F = w.F
        c = {
            "lattice.cut_boundaries": (lambda: cut_boundaries(l, [True, False]), True),
            "lattice.permute_vertices": (lambda: permute_vertices(l, w.perm), True),
            "lattice.plaquettes": (lambda: list(l.plaquettes), True),
            "lattice.n_plaquettes": (lambda: l.n_plaquettes, True),
            "lattice.edges.adjacent_plaquettes": (lambda: l.edges.adjacent_plaquettes, True),
            "lattice.vertices.adjacent_plaquettes": (lambda: l.vertices.adjacent_plaquettes, True),
            "lattice.adjacency_matrix": (lambda: l.adjacency_matrix, True),
            "lattice.__eq__": (lambda: l == l, True),
            "lattice.__getstate__": (lambda: l.__getstate__(), True),
            "graph_utils.reorder_vertices": (lambda: gu.reorder_vertices(l, w.perm), True),
            "graph_utils.make_dual": (lambda: gu.make_dual(l), True),
            "graph_utils.make_dual(point averages)": (lambda: gu.make_dual(l, True), True),
            "plotting.plot_dual(after duals)": (lambda: pl.plot_dual(l, ax=fig_ax()), False),
            "graph_utils.plaquette_spanning_tree": (lambda: gu.plaquette_spanning_tree(l, False), True),
            "graph_utils.plaquette_spanning_tree(shortest)": (lambda: gu.plaquette_spanning_tree(l, True), True),
            "graph_utils.remove_vertices": (lambda: gu.remove_vertices(l, w.idx, True), True),
            "graph_utils.remove_trailing_edges": (lambda: gu.remove_trailing_edges(l), True),
            "graph_utils.vertex_neighbours": (lambda: gu.vertex_neighbours(l, int(w.idx[0])), True),
            "graph_utils.edge_neighbours": (lambda: gu.edge_neighbours(l, 0), True),
            "graph_utils.clockwise_about": (lambda: gu.clockwise_about(int(w.idx[0]), l), True),
            "graph_utils.clockwise_edges_about": (lambda: gu.clockwise_edges_about(int(w.idx[0]), l), True),
            "graph_utils.adjacent_plaquettes": (lambda: gu.adjacent_plaquettes(l, 0), True),
            "graph_utils.vertices_to_polygon": (lambda: gu.vertices_to_polygon(l, w.idx), True),
            "graph_utils.vertices_to_polygon(all)": (lambda: gu.vertices_to_polygon(l), True),
            "graph_utils.dimerise": (lambda: gu.dimerise(l, 3), True),
            "graph_utils.lloyd_relaxation": (lambda: gu.lloyd_relaxation(l, 1), True),
            "graph_color.edge_color": (lambda: gc.edge_color(l, 3, fixed=[(0, 1)]), True),
            "graph_color.edge_color(n_solutions)": (lambda: gc.edge_color(l, 4, n_solutions=3), True),
            "graph_color.vertex_color": (lambda: gc.vertex_color(l.edges.indices, 4), True),
            "graph_color.color_lattice": (lambda: gc.color_lattice(l), True),
            "flux_finder.fluxes_from_ujk": (lambda: ff.fluxes_from_ujk(l, w.u), True),
            "flux_finder.fluxes_from_ujk(complex)": (lambda: ff.fluxes_from_ujk(l, w.u, False), True),
            "flux_finder.fluxes_from_bonds": (lambda: ff.fluxes_from_bonds(l, w.u), True),
            "flux_finder.ujk_from_fluxes": (lambda: ff.ujk_from_fluxes(l, w.tgt, w.u), True),
            "flux_finder.ujk_from_fluxes(defaults)": (lambda: ff.ujk_from_fluxes(l), True),
            "flux_finder.find_flux_sector": (lambda: ff.find_flux_sector(l, w.tgt, w.u), True),
            "flux_finder.n_to_ujk_flipped": (lambda: ff.n_to_ujk_flipped(1 if len(w.tree) else 0, w.u, w.tree), True),
            "flux_finder.fluxes_to_labels": (lambda: ff.fluxes_to_labels(w.tgt), True),
            "pathfinding.path_between_plaquettes": (lambda: pf.path_between_plaquettes(l, 0, F - 1), True),
            "pathfinding.path_between_vertices": (lambda: pf.path_between_vertices(l, 0, int(w.idx[-1])), True),
            "pathfinding.periodic_straight_line_length": (lambda: pf.periodic_straight_line_length(w.pts[0], w.pts[1]), True),
            "hamiltonian.bisect_lattice": (lambda: hm.bisect_lattice(l, w.col, 1), True),
            "hamiltonian.majorana_hamiltonian": (lambda: hm.majorana_hamiltonian(l, w.col, w.u, w.J), True),
            "hamiltonian.majorana_hamiltonian(no colouring)": (lambda: hm.majorana_hamiltonian(l, None, w.u, w.J), True),
            "hamiltonian.majorana_to_fermion_ham": (lambda: hm.majorana_to_fermion_ham(w.H), True),
            "phase_space.k_hamiltonian": (lambda: ps.k_hamiltonian_generator(l, w.col, w.u, w.J)(w.k), True),
            "phase_space.analyse_hk": (lambda: ps.analyse_hk(ps.k_hamiltonian_generator(l, w.col, w.u, w.J), 2), True),
            "phase_space.gap_over_phase_space": (lambda: ps.gap_over_phase_space(ps.k_hamiltonian_generator(l, w.col, w.u, w.J), 2), True),
            "chern_number.crosshair_marker": (lambda: cn.crosshair_marker(l, w.P, w.cross), True),
            "chern_number.chern_marker": (lambda: cn.chern_marker(l, w.P), True),
            "voronization.generate_lattice": (lambda: vz.generate_lattice(w.pts), True),
            "voronization.generate_lattice(no shift)": (lambda: vz.generate_lattice(w.pts, False), True),
            "example_graphs.tile_unit_cell": (lambda: eg.tile_unit_cell(l.vertices.positions, l.edges.indices, l.edges.crossing, [2, 1]), True),
            "plotting.plot_edges": (lambda: pl.plot_edges(l, labels=w.col, ax=fig_ax(), directions=w.u.astype(int)), False),
            "plotting.plot_edges(subset)": (lambda: pl.plot_edges(l, labels=w.col, ax=fig_ax(), subset=w.idx), False),
            "plotting.plot_plaquettes": (lambda: pl.plot_plaquettes(l, labels=ff.fluxes_to_labels(w.tgt), ax=fig_ax()), False),
            "plotting.plot_edges(subset-sized labels, color)": (lambda: pl.plot_edges(l, labels=w.sublabels, subset=w.sub, ax=fig_ax(), color="k"), False),
            "plotting.plot_edges(full labels, color)": (lambda: pl.plot_edges(l, labels=w.col, ax=fig_ax(), color="k"), False),
            "plotting.plot_plaquettes(subset-sized labels, color)": (lambda: pl.plot_plaquettes(l, labels=w.plabels, subset=w.psub, ax=fig_ax(), color="k"), False),
            "plotting.plot_plaquettes(labels, scheme)": (lambda: pl.plot_plaquettes(l, labels=w.plabels, subset=w.psub, ax=fig_ax(), color_scheme=np.array(["r", "g", "b"])), False),
            "plotting.plot_edges(array scheme, color)": (lambda: pl.plot_edges(l, labels=w.col, ax=fig_ax(), color_scheme=w.scheme_str, color="#000000"), False),
            "plotting.plot_plaquettes(rgba scheme, color)": (lambda: pl.plot_plaquettes(l, labels=w.plabels, subset=w.psub, ax=fig_ax(), color_scheme=w.scheme_rgba, color=(0.0, 0.0, 0.0, 1.0)), False),
            "plotting.plot_vertices(array scheme, color)": (lambda: pl.plot_vertices(l, labels=np.asarray(w.perm) % 3, ax=fig_ax(), color_scheme=w.scheme_str, color="#000000"), False),
            "plotting.plot_vertices(subset-sized labels)": (lambda: pl.plot_vertices(l, labels=w.sublabels[: len(w.idx)], subset=w.idx, ax=fig_ax()), False),
            "plotting.plot_dual(color)": (lambda: pl.plot_dual(l, ax=fig_ax(), color="k"), False),
            "plotting.plot_vertices": (lambda: pl.plot_vertices(l, ax=fig_ax(), labels=np.asarray(w.perm) % 3), False),
            "plotting.plot_dual": (lambda: pl.plot_dual(l, ax=fig_ax()), False),
            "plotting.plot_lattice": (lambda: pl.plot_lattice(l, ax=fig_ax(), edge_labels=w.col, edge_arrows=True, bond_signs=w.u.astype(int)), False),
            "plotting.plot_scalar": (lambda: pl.plot_scalar(l, w.scalar, ax=fig_ax(), resolution=8), False),
            "plotting.plot_indices": (lambda: (pl.plot_vertex_indices(l, ax=fig_ax()), pl.plot_edge_indices(l, ax=fig_ax()), pl.plot_plaquette_indices(l, ax=fig_ax())), False),
            "plotting.line_intersection": (lambda: pl.line_intersection(w.pts[None, :2], w.pts[None, 2:4]), True),
        }
        return c


def run_call(f):
    with warnings.catch_warnings():
        warnings.simplefilter("ignore")
        try:
            return canon(f())
        except Exception as ex:
            return ("EXC", type(ex).__name__, str(ex)[:60] if "read-only" in str(ex) else "")


def run(ctx):
    ctx.rule = ("one evaluation = one public call inside a random call sequence on shared objects: fingerprints of every shared argument before/after, "
                "result vs fresh evaluation; plus one static obligation per koala function; non-trivial = calls receiving at least one array argument; "
                "distinct by (lattice, sequence index, call)")
    rep = core.guarded_translate(ctx, effects.generate, "T-eff", dict(functions=[], n_functions=0, n_public=0, n_atoms=0, changed=False))
    ctx.translated = [dict(effect_programs=rep["n_functions"], public=rep["n_public"], atoms=rep["n_atoms"], regenerated=rep["changed"])]
    flagged = [f for f in rep["functions"] if f["flagged"]]
    ctx.extra["static_flagged_functions"] = flagged
    ctx.extra["helpers_allowed_to_update_arguments"] = [dict(function=f["function"], params=f["allowed_params"]) for f in rep["functions"] if f["allowed_params"]]
    ctx.run_audit(extra_modules=["KoalaVerif.Generated.Effects"])
    rng = np.random.default_rng(ctx.seed)
    quick = ctx.tier == "quick"
    bases = [("honey2", eg.honeycomb_lattice(2)), ("vor8", zoo.voronoi(rng, 8)), ("vor12-x", cut_boundaries(zoo.voronoi(rng, 12), [True, False])),
             ("hso1", eg.hex_square_oct_lattice(1))]
    if not quick:
        bases += [(f"vor{N}", zoo.voronoi(rng, N)) for N in (5, 9, 16, 25)] + [("trinon2", eg.tri_non_lattice(2)), ("vor14-xy", cut_boundaries(zoo.voronoi(rng, 14)))]
    nseq = 3 if quick else 10
    import matplotlib
    matplotlib.use("Agg")
    from matplotlib import pyplot as plt
    names_seen = set()
    for bname, base in bases:
        # fresh results of every call, once per base (each on a brand-new world built from the same seed)
        fresh = {}
        wseed = int(rng.integers(2 ** 31))
        for cname in World(np.random.default_rng(wseed), base).calls():
            wf = World(np.random.default_rng(wseed), base)
            f, cmp_result = wf.calls()[cname]
            fresh[cname] = run_call(f)
            plt.close("all")
        for s in range(nseq):
            for readonly, int_dtype in ((False, None), (True, None), (False, np.int64), (False, np.int8)):
                w = World(np.random.default_rng(wseed), base, readonly=readonly, int_dtype=int_dtype)
                calls = w.calls()
                names = list(calls)
                length = int(rng.integers(1, 31))
                seq = [names[i] for i in rng.integers(0, len(names), size=length)]
                if s == 0:
                    seq = names[:]                    # every public call at least once per base
                    rng.shuffle(seq)
                for step, cname in enumerate(seq):
                    f, cmp_result = calls[cname]
                    shared = w.shared()
                    before = {k: fp(v) for k, v in shared.items()}
                    res = run_call(f)
                    plt.close("all")
                    after = {k: fp(v) for k, v in shared.items()}
                    names_seen.add(cname)
                    repl = dict(base=bname, lattice=zoo.lat_to_json(base), world_seed=wseed, sequence=seq[: step + 1], readonly=readonly, int_dtype=None if int_dtype is None else np.dtype(int_dtype).name)
                    if isinstance(res, tuple) and res and res[0] == "EXC" and "read-only" in (res[2] if len(res) > 2 else ""):
                        ctx.impl_violation(f"{bname}: {cname} writes into one of its (read-only) arguments", repl); break
                    bad = []
                    for k in before:
                        if k == "l":
                            ch = lat_changed(before[k], after[k])
                            if ch:
                                bad.append(f"lattice fields {ch}")
                        elif before[k] != after[k]:
                            bad.append(f"array '{k}'")
                    if bad:
                        ctx.impl_violation(f"{bname}: {cname} modified its arguments: {', '.join(bad)} (step {step + 1} of the sequence)", repl); break
                    if cmp_result and not readonly and int_dtype is None and res != fresh[cname] and not (isinstance(res, tuple) and res[:1] == ("EXC",) and fresh[cname][:1] == ("EXC",)):
                        ctx.impl_violation(f"{bname}: result of {cname} after {step} earlier calls on the same objects differs from a fresh evaluation", repl); break
                    ctx.case((bname, s, readonly, str(int_dtype), step, cname), nontrivial=True,
                             sample=dict(base=bname, call=cname, step=step, readonly=readonly) if step == 3 else None)
                ctx.count("sequences")
                ctx.count("sequence_length_total", len(seq))
    ctx.count("distinct_public_calls_exercised", len(names_seen))
    ctx.assumptions += ["the numpy view/copy/mutator classification table of the translator (harness/translate/effects.py) is trusted; it is validated by the "
                        "fingerprint and read-only passes",
                        "composition of per-function obligations through callee summaries is done by the translator (each helper's summary is itself a checked obligation)"]


def replay(ctx, path):
    j = json.loads(open(path).read())["replay"]
    lat = j["lattice"]
    base = Lattice(np.array(lat["pos"], dtype=float) / lat["scale"], np.array(lat["edges"], dtype=int).reshape(-1, 2),
                   np.array(lat["cross"], dtype=int).reshape(-1, 2))
    w = World(np.random.default_rng(j["world_seed"]), base, readonly=j.get("readonly", False), int_dtype=j.get("int_dtype"))
    calls = w.calls()
    bad = False
    for cname in j["sequence"]:
        shared = w.shared()
        before = {k: fp(v) for k, v in shared.items()}
        res = run_call(calls[cname][0])
        after = {k: fp(v) for k, v in shared.items()}
        ch = [k for k in before if (lat_changed(before[k], after[k]) if k == "l" else before[k] != after[k])]
        if ch or (isinstance(res, tuple) and res[:1] == ("EXC",) and "read-only" in str(res)):
            print(f"{cname}: modified {ch or 'a read-only argument'}"); bad = True
    print("violation reproduced" if bad else "no modification observed")
    return 1 if bad else 0
