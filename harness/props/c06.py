"""C06 - the flux-sector solver reaches every target sector up to the parity obstruction.

L1: Props/C06.lean (single-bond locality for both flux conventions, two-ends law for chains, solver invariant,
    parity/residual contract, translated ground_state_ansatz = -sign_real, ansatz parity on closed trivalent lattices).
L2: the executable solver model is run with the implementation's own recorded paths (a, b, nodes, edges) as the path
    oracle: it checks that every path is a chain and that the pairing covers all isolated plaquettes but at most one, and
    must reproduce the implementation's bonds bit for bit; translator for ground_state_ansatz / sign_real.
L3: the statement on the implementation (±1, int8, residual set of the predicted size, no exception, arguments untouched),
    make_amorphous / make_honeycomb end to end.
"""
from __future__ import annotations

import itertools
import json

import numpy as np

import core
import translate
import zoo
import koala.flux_finder.flux_finder as ff
from koala import example_graphs as eg
from koala import graph_color as gc
from koala import graph_utils as gu
from koala.lattice import INVALID, Lattice, cut_boundaries
from props.c14 import plaquette_graph_connected

SIGN_REAL = [1, -1, -1, 1]
BUDGETS = []          # (maxits handed to the path finder, n_edges) for every recorded path query


def hungry_pairs(l, top):
    """the plaquette pairs for which the A* forward pass needs the most iterations (one adjacency call per iteration), most expensive first"""
    from koala.flux_finder import pathfinding as pf
    F = l.n_plaquettes
    adjs = [gu.adjacent_plaquettes(l, p) for p in range(F)]
    cent = np.array([p.center for p in l.plaquettes])
    cnt = [0]

    def adj(a):
        cnt[0] += 1
        return adjs[a]
    res = []
    for a in range(F):
        for b in range(a + 1, F):
            cnt[0] = 0
            try:
                pf.a_star_search_forward_pass(a, b, lambda x, y: np.linalg.norm(cent[x] - cent[y]), adj, True, 10 ** 7)
            except Exception:
                continue
            res.append((cnt[0], a, b))
    res.sort(reverse=True)
    return res[:top]


def budget_stress(ctx, rng, sizes, top):
    """'reaches every target sector, never raises': two isolated plaquettes as far apart - in A* iterations - as the lattice allows"""
    import warnings
    for s in sizes:
        l = zoo.rebuild(eg.square_lattice(*s))
        name = f"square{s}-budget"
        F, E = l.n_plaquettes, l.n_edges
        pairs = hungry_pairs(l, top)
        if pairs:
            ctx.count(f"max_astar_iterations_over_n_edges_permille[{s[0]}x{s[1]}]", int(1000 * pairs[0][0] / E))
        for its, a, b in pairs:
            for variant in ("new", "old"):
                guess = np.ones(E, dtype=np.int8)
                with warnings.catch_warnings():
                    warnings.simplefilter("ignore")
                    target = np.array(flux_fn(variant)(l, guess), dtype=np.int8)
                    target[[a, b]] *= -1
                    rep = lambda what, **kw: ctx.impl_violation(f"{name} [{variant}] pair ({a},{b}): {what}",
                                                                dict(case=name, generator=f"square_lattice{s}", variant=variant, pair=[int(a), int(b)], astar_iterations=int(its), **kw))
                    out, steps = recorded_solve(solver_fn(variant), l, target, guess)
                    judge(ctx, name, l, variant, target, guess, out, rep)
                ctx.case((name, variant, a, b), nontrivial=True, sample=dict(case=name, pair=[int(a), int(b)], astar_iterations=int(its)))



def recorded_solve(fn, l, target, guess):
    """run a solver with `path_between_plaquettes` wrapped (in the harness process) to record its results"""
    steps = []
    orig = ff.path_between_plaquettes

    def rec(lat, a, b, *args, **kw):
        nodes, edges = orig(lat, a, b, *args, **kw)
        steps.append(dict(a=int(a), b=int(b), nodes=[int(x) for x in nodes], edges=[int(x) for x in edges]))
        BUDGETS.append((kw.get("maxits", args[2] if len(args) > 2 else None), lat.n_edges))
        return nodes, edges
    ff.path_between_plaquettes = rec
    try:
        try:
            out = fn(l, target, guess)
        except Exception as ex:
            out = ex
    finally:
        ff.path_between_plaquettes = orig
    return out, steps


def lattice_fingerprint(l):
    """everything a caller can read off the lattice that a solver has no business changing (plaquettes are computed by then)"""
    import hashlib
    h = hashlib.sha1()
    for a in (l.vertices.positions, l.edges.indices, l.edges.crossing, l.edges.vectors):
        h.update(np.ascontiguousarray(a).tobytes())
    for p in l.plaquettes:
        for a in (p.vertices, p.edges, p.directions, p.center):
            h.update(np.ascontiguousarray(a).tobytes())
    h.update(np.ascontiguousarray(l.edges.adjacent_plaquettes).tobytes())
    return h.hexdigest()


def flux_fn(variant):
    return ff.fluxes_from_ujk if variant == "new" else ff.fluxes_from_bonds


def solver_fn(variant):
    return ff.ujk_from_fluxes if variant == "new" else ff.find_flux_sector


def judge(ctx, name, l, variant, target, guess, out, rep):
    """the contract of C06 on the implementation's result"""
    if isinstance(out, Exception):
        rep(f"solver raised {type(out).__name__}: {out}"); return False
    if out.dtype != np.int8 or out.shape != (l.n_edges,):
        rep(f"result has dtype {out.dtype} / shape {out.shape}"); return False
    if not set(np.unique(out).tolist()) <= {-1, 1}:
        rep("result contains values outside ±1"); return False
    fl = flux_fn(variant)
    init = fl(l, guess if guess is not None else np.ones(l.n_edges, dtype=np.int8))
    tgt = target if target is not None else (np.full(l.n_plaquettes, -1) if variant == "new" else np.ones(l.n_plaquettes))
    todo = int(np.count_nonzero(init != tgt))
    resid = int(np.count_nonzero(fl(l, out) != tgt))
    if resid != todo % 2:
        rep(f"{todo} plaquettes had to change; result misses the target on {resid} plaquette(s), expected {todo % 2}")
        return False
    return True


def lattices(ctx, rng):
    quick = ctx.tier == "quick"
    out = []
    for n in ((2, 3, 4, 15) if quick else (2, 3, 4, 5, 6, 8, 15, 20)):
        out.append((f"honey{n}", "tiling", eg.honeycomb_lattice(n)))
    for n in ((2,) if quick else (2, 3)):
        out.append((f"hso{n}", "tiling", eg.hex_square_oct_lattice(n)))
        out.append((f"trinon{n}", "tiling", eg.tri_non_lattice(n)))
    for s in ((2, 2), (2, 3), (3, 4)) if quick else ((2, 2), (2, 3), (3, 3), (3, 4), (5, 5), (4, 7)):
        out.append((f"square{s}", "tiling", eg.square_lattice(*s)))
    out += [("tutte", "example", eg.tutte_graph()), ("ladder6w", "example", eg.n_ladder(6, True)),
            ("wheel7", "example", eg.higher_coordination_number_example(7)), ("tri_square_pent", "example", eg.tri_square_pent())]
    Ns = [9, 10, 12, 16, 25, 40, 60, 100] if quick else [9, 10, 11, 12, 14, 16, 20, 25, 36, 50, 80, 120, 200, 300, 400]
    for N in Ns:
        for r in range(1 if quick else 2):
            l = zoo.voronoi(rng, N)
            out.append((f"vor{N}#{r}", "voronoi", l))
            if r == 0:
                out.append((f"vor{N}-x", "strip", cut_boundaries(l, [True, False])))
                out.append((f"vor{N}-xy", "open", cut_boundaries(l)))
    for t in range(3 if quick else 12):
        l = zoo.voronoi(rng, int(rng.integers(4, 9)))
        out.append((f"vorsmall#{t}", "voronoi-small", l))
    return [(n, f, zoo.rebuild(l)) for n, f, l in out]


def independent_plaquettes(l, rng):
    """a greedy maximal set of pairwise non-adjacent plaquettes (random order)"""
    F = l.n_plaquettes
    taken, blocked = [], set()
    for i in rng.permutation(F):
        i = int(i)
        if i in blocked:
            continue
        taken.append(i)
        blocked.add(i)
        blocked.update(int(q) for q in l.plaquettes[i].adjacent_plaquettes if q != INVALID)
    return np.array(sorted(taken), dtype=int)


def targets_for(ctx, rng, l, variant):
    F = l.n_plaquettes
    lim = 8 if ctx.tier == "quick" else 10
    if F <= lim:
        ctx.count("lattices_all_targets")
        ts = [np.array(t, dtype=np.int8) for t in itertools.product([1, -1], repeat=F)]
    else:
        ts = [np.full(F, -1, dtype=np.int8), np.ones(F, dtype=np.int8)]
        for dens in (0.05, 0.3, 0.5, 0.9):
            ts.append((1 - 2 * (rng.random(F) < dens)).astype(np.int8))
        t = np.ones(F, dtype=np.int8); t[rng.choice(F, 2, replace=False)] = -1; ts.append(t)       # a far-apart pair
        t = np.ones(F, dtype=np.int8); t[rng.integers(F)] = -1; ts.append(t)                        # a single one
    return ts


def amorphous(ctx, rng):
    """make_amorphous / make_honeycomb end to end"""
    quick = ctx.tier == "quick"
    # seeds whose Voronoi lattice contains a polygon size not seen so far (the ansatz must be right for every number of sides: 13- and 14-gons occur about
    # once in a thousand 25-cell lattices): found by building the lattices only, then run through make_amorphous like the others
    from koala import voronization as _vz
    rare, seen_sides = [], set()
    for sd in range(1500 if quick else 6000):
        Lr = 5 + sd % 2
        lat0 = _vz.generate_lattice(np.random.default_rng(sd).uniform(size=(Lr**2, 2)), shift_vertices=True)
        sides = set(int(p.n_sides) for p in lat0.plaquettes)
        if not sides <= seen_sides:
            seen_sides |= sides; rare.append((Lr, False, sd))
    ctx.dist["amorphous_polygon_sizes_covered"] = len(seen_sides)
    ctx.extra["amorphous_polygon_sizes"] = sorted(seen_sides)
    plan = [(L, open_bc, int(rng.integers(2**31))) for L in (range(3, 6) if quick else range(3, 9)) for open_bc in (False, True)] + rare
    for L, open_bc, seed in plan:
        if True:
            name = f"make_amorphous(L={L}, open={open_bc}, seed={seed})"
            rep = lambda what, **kw: ctx.impl_violation(f"{name}: {what}", dict(case=name, L=L, open=open_bc, seed=seed, **kw))
            try:
                l, col, ujk = eg.make_amorphous(L, open_boundary_conditions=open_bc, rng=np.random.default_rng(seed))
                l2, col2, ujk2 = eg.make_amorphous(L, open_boundary_conditions=open_bc, rng=np.random.default_rng(seed))
            except Exception as ex:
                # the solver's contract presupposes a connected plaquette graph: rebuild the lattice the call was working on
                from koala import voronization
                pts = np.random.default_rng(seed).uniform(size=(L**2, 2))
                lat0 = voronization.generate_lattice(pts, shift_vertices=True)
                if open_bc:
                    lat0 = cut_boundaries(lat0)
                if not plaquette_graph_connected(lat0):
                    ctx.count("amorphous_precondition_excluded_disconnected")
                else:
                    rep(f"raised {type(ex).__name__}: {ex}")
                continue
            ctx.case(("amorphous", L, open_bc, seed), sample=dict(case=name, n_plaquettes=l.n_plaquettes))
            if not (np.array_equal(l.vertices.positions, l2.vertices.positions) and np.array_equal(l.edges.indices, l2.edges.indices)
                    and np.array_equal(col, col2) and np.array_equal(ujk, ujk2)):
                rep("not reproducible for a seeded generator"); continue
            # proper 3-edge-colouring
            ok = set(np.unique(col).tolist()) <= {0, 1, 2} and len(col) == l.n_edges
            for v in range(l.n_vertices):
                cs = col[np.any(l.edges.indices == v, axis=1)]
                if len(set(cs.tolist())) != len(cs):
                    ok = False
            if not ok:
                rep("colouring is not a proper 3-edge-colouring"); continue
            if not set(np.unique(ujk).tolist()) <= {-1, 1}:
                rep("bonds outside ±1"); continue
            want = np.array([eg.ground_state_ansatz(p.n_sides) for p in l.plaquettes])
            got = ff.fluxes_from_bonds(l, ujk)
            miss = int(np.count_nonzero(want != got))
            closed = bool(np.all(l.edges.adjacent_plaquettes != INVALID))
            if not plaquette_graph_connected(l):
                ctx.count("amorphous_precondition_excluded_disconnected"); continue
            if (not open_bc and miss != 0) or (open_bc and miss > 1):
                rep(f"bonds miss the ground-state ansatz on {miss} plaquette(s)")
            if not open_bc:
                ctx.count("amorphous_periodic_exact")
                if closed and l.n_edges != 3 * l.n_plaquettes:
                    ctx.notes.append(f"{name}: E != 3F on a closed lattice (Euler hypothesis of ansatz_parity not met)")
            else:
                ctx.count("amorphous_open_up_to_one")
    for L in (2, 3, 4):
        l, col, ujk = eg.make_honeycomb(L)
        want = np.array([eg.ground_state_ansatz(p.n_sides) for p in l.plaquettes])
        if not np.array_equal(ff.fluxes_from_bonds(l, ujk), want) or ujk.dtype != np.int8 or col.dtype != np.int8:
            ctx.impl_violation(f"make_honeycomb({L}) bonds do not realise the ansatz", dict(case=f"make_honeycomb({L})"))
        ctx.case(("honeycomb", L))


def run(ctx):
    ctx.rule = ("one evaluation = one solver call (lattice, convention, target, guess) judged against the parity contract and replayed "
                "through the model with its own recorded paths, or one make_amorphous/make_honeycomb call; non-trivial = at least two "
                "plaquettes to change; distinct by (lattice, convention, target, guess)")
    rep0 = core.guarded_translate(ctx, translate.regenerate_all, "T-int/T-const", dict(kernels=[], tables=[], changed={}))
    core.note_translation(ctx, [k for k in rep0["kernels"] if k["kernel"] == "ground_state_ansatz"] + \
                     [t for t in rep0.get("tables", []) if isinstance(t, dict) and t.get("table") == "sign_real"])
    ctx.run_audit()
    rng = np.random.default_rng(ctx.seed)
    reqs, meta = [], []
    for name, fam, l in lattices(ctx, rng):
        try:
            F = l.n_plaquettes
        except Exception as ex:
            ctx.impl_violation(f"{name}: plaquettes raised {type(ex).__name__}", dict(case=name, lattice=zoo.lat_to_json(l))); continue
        if F < 1 or not plaquette_graph_connected(l):
            ctx.count("precondition_excluded_disconnected_plaquette_graph"); continue
        ctx.count("family:" + fam)
        lat = zoo.lat_to_json(l)
        for variant in ("new", "old"):
            ts = targets_for(ctx, rng, l, variant)
            if variant == "old" and len(ts) > 40:
                ts = [ts[i] for i in rng.choice(len(ts), 40, replace=False)]
            calls = [(t, (1 - 2 * rng.integers(0, 2, size=l.n_edges)).astype(np.int8) if i % 2 else np.ones(l.n_edges, dtype=np.int8))
                     for i, t in enumerate(ts)]
            calls.append((None, None))       # default arguments
            # structured targets: the plaquettes that have to change form a (greedy maximal) independent set - many defects, no two of them adjacent
            ind = independent_plaquettes(l, rng)
            if len(ind) >= 3:
                for gi in (np.ones(l.n_edges, dtype=np.int8), (1 - 2 * rng.integers(0, 2, size=l.n_edges)).astype(np.int8)):
                    with __import__("warnings").catch_warnings():
                        __import__("warnings").simplefilter("ignore")
                        ti = np.asarray(flux_fn(variant)(l, gi)).astype(np.int8).copy()
                    ti[ind] *= -1
                    calls.append((ti, gi))
                ctx.count("independent_set_targets", 2)
                ctx.dist["largest_independent_defect_set"] = max(ctx.dist.get("largest_independent_defect_set", 0), len(ind))
            for target, guess in calls:
                rep = lambda what, **kw: ctx.impl_violation(
                    f"{name} [{variant}]: {what}",
                    dict(case=name, lattice=lat, variant=variant, target=None if target is None else target.tolist(),
                         guess=None if guess is None else guess.tolist(), **kw))
                tb = None if target is None else target.tobytes()
                gb = None if guess is None else guess.tobytes()
                lfp = lattice_fingerprint(l)
                import warnings
                with warnings.catch_warnings():
                    warnings.simplefilter("ignore")
                    out, steps = recorded_solve(solver_fn(variant), l, target, guess)
                    ok = judge(ctx, name, l, variant, target, guess, out, rep)
                if (target is not None and target.tobytes() != tb) or (guess is not None and guess.tobytes() != gb):
                    rep("solver modified its arguments"); ok = False
                if lattice_fingerprint(l) != lfp:
                    rep("solver modified the lattice it was given (positions / edges / crossings / plaquette data)"); ok = False
                t_eff = target if target is not None else (np.full(F, -1, dtype=np.int8) if variant == "new" else np.ones(F, dtype=np.int8))
                g_eff = guess if guess is not None else np.ones(l.n_edges, dtype=np.int8)
                with warnings.catch_warnings():
                    warnings.simplefilter("ignore")
                    todo = int(np.count_nonzero(flux_fn(variant)(l, g_eff) != t_eff))
                ctx.case((name, variant, None if target is None else target.tobytes(), None if guess is None else guess.tobytes()),
                         nontrivial=todo >= 2,
                         sample=dict(case=name, variant=variant, F=F, to_change=todo, paths=len(steps)))
                ctx.count("todo_even" if todo % 2 == 0 else "todo_odd")
                ctx.count("paths_recorded", len(steps))
                if ok:
                    reqs.append(dict(op="solve", variant=variant, sign_real=SIGN_REAL, target=t_eff.tolist(), guess=g_eff.tolist(),
                                     steps=steps, **lat))
                    meta.append((name, l, variant, t_eff, g_eff, out, steps))
    # ---- the usual way of writing a target: take the fluxes of the guess and edit that array in place.  The flux functions hand out a result the caller owns
    #      (a second call is not disturbed by what the caller did to the first result), and the solver called with the edited array obeys its contract
    for name, fam, l in [c for c in lattices(ctx, np.random.default_rng(ctx.seed + 1)) if c[2].n_plaquettes >= 6][:10]:
        if not plaquette_graph_connected(l):
            continue
        for variant in ("new", "old"):
            fl = flux_fn(variant)
            g = (1 - 2 * rng.integers(0, 2, size=l.n_edges)).astype(np.int8)
            rep = lambda what, **kw: ctx.impl_violation(f"{name} [{variant}, target edited in place]: {what}", dict(case=name, lattice=zoo.lat_to_json(l), variant=variant, guess=g.tolist(), **kw))
            try:
                import warnings
                with warnings.catch_warnings():
                    warnings.simplefilter("ignore")
                    t = fl(l, g)
                    ref = np.array(t).copy()
                    k = rng.choice(l.n_plaquettes, size=int(rng.integers(2, 5)) & ~1 or 2, replace=False)
                    t[k] *= -1                                           # the caller's own array now
                    again = fl(l, g)
                    if not np.array_equal(again, ref):
                        rep("the fluxes of the same bonds are different after the caller edited the array returned by the previous call"); continue
                    out = solver_fn(variant)(l, t, g)
                    if int(np.count_nonzero(fl(l, out) != t)) != 0:
                        rep(f"solver called with a target made by editing the flux array of its guess in place misses it on {int(np.count_nonzero(fl(l, out) != t))} plaquettes (an even number, {len(k)}, had to change)", flipped=[int(x) for x in k]); continue
            except Exception as ex:
                rep(f"raised {type(ex).__name__}: {ex}"); continue
            ctx.case((name, variant, "target edited in place"), nontrivial=True)
    outs = core.Driver().run_parallel(reqs)
    for (name, l, variant, t_eff, g_eff, out, steps), o in zip(meta, outs):
        brk = lambda what, **kw: ctx.corr_break(f"{name} [{variant}]: {what}",
                                                dict(case=name, lattice=zoo.lat_to_json(l), variant=variant, target=t_eff.tolist(),
                                                     guess=g_eff.tolist(), **kw))
        if "err" in o:
            brk(f"model error {o['err']}"); continue
        if not all(o["chains_ok"]):
            brk("a recorded path is not a chain of plaquettes joined by the listed (pairwise different) edges from b to a",
                step=steps[o["chains_ok"].index(False)]); continue
        if not o["pairing_ok"]:
            brk("the recorded pairs are not a pairing of the isolated plaquettes (all but at most the last)", isolated=o["isolated"],
                pairs=[(s["a"], s["b"]) for s in steps]); continue
        if o["bonds"] != [int(x) for x in out]:
            brk("bonds differ from the model run with the same paths"); continue
        ctx.count("solver_runs_reproduced_by_model")
    # ---- one value, many representations of the target sector and the initial guess (dtype, layout, writability): same bonds, inputs untouched
    import variants, warnings as _w
    for name, l in [("honey3", eg.honeycomb_lattice(3)), ("vor12", zoo.rebuild(zoo.voronoi(rng, 12))), ("vor20-xy", zoo.rebuild(cut_boundaries(zoo.voronoi(rng, 20))))]:
        try:
            F = l.n_plaquettes
            if F < 2 or not plaquette_graph_connected(l):
                continue
            tgt = (1 - 2 * rng.integers(0, 2, size=F)).astype(np.int8)
            gss = (1 - 2 * rng.integers(0, 2, size=l.n_edges)).astype(np.int8)
            for variant in ("new", "old"):
                with _w.catch_warnings():
                    _w.simplefilter("ignore")
                    base = solver_fn(variant)(l, tgt, gss)
                    for argname, arr in (("target", tgt), ("guess", gss)):
                        for lab, av in variants.of_array(arr):
                            keep = np.array(av).copy()
                            out = solver_fn(variant)(l, av if argname == "target" else tgt, av if argname == "guess" else gss)
                            rep = lambda what: ctx.impl_violation(f"{name} [{variant}]: {what}", dict(case=name, lattice=zoo.lat_to_json(l), variant=variant, target=tgt.tolist(), guess=gss.tolist(), representation=lab))
                            if not np.array_equal(out, base) or out.dtype != base.dtype:
                                rep(f"the solver returns different bonds when the same {argname} is passed as {lab}")
                            if not variants.untouched(lab, keep, av):
                                rep(f"the solver modified its {argname} argument ({lab})")
                            ctx.case((name, variant, argname, lab), nontrivial=True)
        except Exception as ex:
            ctx.impl_violation(f"{name}: solver raised {type(ex).__name__}: {ex} for another representation of its arguments", dict(case=name, lattice=zoo.lat_to_json(l)))
    budget_stress(ctx, rng, [(9, 9), (10, 10)] if ctx.tier == "quick" else [(9, 9), (10, 10), (11, 11), (12, 12), (9, 13)], 8 if ctx.tier == "quick" else 40)
    low = [(m, e) for m, e in BUDGETS if m is not None and m < e]
    ctx.count("path_queries_with_budget_recorded", len(BUDGETS))
    if low:
        # the solver hands the path finder a smaller budget than C11's statement covers (n_edges): widen the search for a target it cannot reach
        before = len(ctx.violations)
        budget_stress(ctx, rng, [(9, 9), (10, 10), (11, 11), (12, 12), (13, 13)], 400)
        if len(ctx.violations) == before:
            ctx.corr_break(f"the solver calls path_between_plaquettes with maxits={low[0][0]} on a lattice with {low[0][1]} edges: below the budget (n_edges) for which C11 "
                           "states that a path is always found; no target it fails to reach was found", dict(case="budget", maxits=int(low[0][0]), n_edges=int(low[0][1])))
    # ---- the ground-state ansatz itself (Lieb: flux -(-1)^((n-3)//2)... as translated): direct comparison for every polygon size the generators can produce
    for n in range(3, 201):
        want = -((-1) ** ((n - 3) // 2))           # = Gen.ground_state_ansatz n (theorems ansatz_mod4, ansatz_eq_neg_sign_real)
        try:
            got = eg.ground_state_ansatz(n)
        except Exception as ex:
            ctx.corr_break(f"ground_state_ansatz({n}) raised {type(ex).__name__}: {ex}", dict(case="ansatz", n=n)); break
        if int(got) != want:
            ctx.corr_break(f"ground_state_ansatz({n}) = {got}, the translated model gives {want}", dict(case="ansatz", n=n)); break
    else:
        ctx.count("ansatz_values_compared", 198)
    amorphous(ctx, rng)
    ctx.assumptions += ["the path finder is a parameter of the model: its recorded results are checked to be chains (C11 decides the path finder)",
                        "Euler's formula E = 3F on closed trivalent lattices is a hypothesis of ansatz_parity (monitored)"]


def replay(ctx, path):
    j = json.loads(open(path).read())["replay"]
    if "lattice" not in j:
        print("replay of make_amorphous cases: rerun with the recorded seed:", j); return 0
    lat = j["lattice"]
    l = Lattice(np.array(lat["pos"], dtype=float) / lat["scale"], np.array(lat["edges"], dtype=int).reshape(-1, 2),
                np.array(lat["cross"], dtype=int).reshape(-1, 2))
    variant = j["variant"]
    target = None if j["target"] is None else np.array(j["target"], dtype=np.int8)
    guess = None if j["guess"] is None else np.array(j["guess"], dtype=np.int8)
    rep = lambda what, **kw: ctx.impl_violation(what, dict(kw))
    import warnings
    warnings.simplefilter("ignore")
    out, steps = recorded_solve(solver_fn(variant), l, target, guess)
    judge(ctx, "replay", l, variant, target, guess, out, rep)
    print("violations:", [v["what"] for v in ctx.violations])
    return 1 if ctx.violations else 0
