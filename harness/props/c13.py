"""C13 - dual and vertex-truncated lattices have the combinatorics that define them.

L1: Props/C13.lean (np.round model: returns k within half of k; round/mod lemma: under the half-cell condition the stored dual edge vector is the true
    centre-to-centre displacement; dual edge list = two-sided rows of C02's edge table in edge order with distinct ends; corners in [0,1) with
    corner + shift = unwrapped point; wrap-compensation identities for polygon edges and shortened original edges; truncation counts).
L2: exact correspondence: dual edges / crossings (rounding decided exactly on rational centres, near-half cases excluded by margin) and the whole
    truncated lattice (indices, crossings exactly; positions as exact thirds) against the model.
L3: the statement on the implementation with an independent unwrapping of plaquette centres: half-cell precondition, dual vertices / edges / edge
    vectors, dual faces on closed lattices with a crossing-free straight-line dual; truncation counts, corners in the cell, degrees, edge indices
    and vectors, polygon plaquettes, enlarged old plaquettes, truncation of a truncation.
"""
from __future__ import annotations

import json
from collections import Counter
from fractions import Fraction

import numpy as np

import core
import zoo
from koala import example_graphs as eg
from koala import graph_utils as gu
from koala.lattice import INVALID, Lattice, LatticeException, cut_boundaries
from props.c01 import min_gap, GAP_MIN


def frames(l):
    """unwrapped vertex coordinates of every plaquette in its own frame: P[0] = pos[v0], P[i+1] = P[i] + vector_i"""
    out = []
    for p in l.plaquettes:
        vec = l.edges.vectors[p.edges] * p.directions[:, None]
        P = np.concatenate([[l.vertices.positions[p.vertices[0]]], l.vertices.positions[p.vertices[0]] + np.cumsum(vec, 0)])
        out.append(P)
    return out


def true_displacements(l):
    """for every two-sided edge: displacement from the centre of the plaquette traversing it forwards to the one traversing it backwards"""
    fr = frames(l)
    where = {}
    for n, p in enumerate(l.plaquettes):
        for i, (e, d) in enumerate(zip(p.edges, p.directions)):
            where[(int(e), int(d))] = (n, i)
    out = {}
    for e, (a, b) in enumerate(l.edges.adjacent_plaquettes):
        if a == INVALID or b == INVALID:
            continue
        na, ia = where[(e, 1)]; nb, ib = where[(e, -1)]
        # head of the forward dart in a's frame  <->  tail of the backward dart in b's frame
        shift = fr[nb][ib] - fr[na][ia + 1]
        out[e] = (l.plaquettes[nb].center - shift) - l.plaquettes[na].center
    return out


def segments_cross(P, Q, R, S):
    def orient(a, b, c): return (b[0] - a[0]) * (c[1] - a[1]) - (b[1] - a[1]) * (c[0] - a[0])
    o1, o2, o3, o4 = orient(P, Q, R), orient(P, Q, S), orient(R, S, P), orient(R, S, Q)
    return o1 * o2 < -1e-14 and o3 * o4 < -1e-14


def dual_drawing_crosses(d):
    """does the straight-line periodic drawing of the dual have two edges crossing in their interiors? (9 images of one against the other)"""
    segs = [(d.vertices.positions[a], d.vertices.positions[a] + v) for (a, b), v in zip(d.edges.indices, d.edges.vectors)]
    n = len(segs)
    if n > 400:
        return None
    for i in range(n):
        for j in range(i + 1, n):
            for sx in (-1, 0, 1):
                for sy in (-1, 0, 1):
                    s = np.array([sx, sy])
                    if segments_cross(segs[i][0], segs[i][1], segs[j][0] + s, segs[j][1] + s):
                        return True
    return False


def check_dual(ctx, name, l, reqs, meta):
    rep = lambda what, **kw: ctx.impl_violation(f"{name}: {what}", dict(case=name, op="dual", lattice=zoo.lat_to_json(l), **kw))
    disp = true_displacements(l)
    if not disp:
        return
    worst = max(np.abs(v).max() for v in disp.values())
    if worst >= 0.5 - 1e-9:
        ctx.count("dual_precondition_excluded_half_cell"); return
    try:
        d = gu.make_dual(l)
    except Exception as ex:
        if "small" in str(ex):
            ctx.count("dual_precondition_excluded_too_small"); return      # two dual edges would coincide: the documented exception
        rep(f"make_dual raised {type(ex).__name__}: {ex}"); return
    F = l.n_plaquettes
    centres = np.array([p.center for p in l.plaquettes])
    if d.n_vertices != F or not np.allclose(d.vertices.positions, centres % 1, atol=1e-12, rtol=0):
        rep("dual vertices are not the plaquette centres mod 1"); return
    rows = [(e, int(a), int(b)) for e, (a, b) in enumerate(l.edges.adjacent_plaquettes) if a != INVALID and b != INVALID]
    if d.edges.indices.tolist() != [[a, b] for _, a, b in rows]:
        rep("dual edges are not the two-sided rows of the edge table in edge order"); return
    want = np.array([disp[e] for e, _, _ in rows])
    if not np.allclose(d.edges.vectors, want, atol=1e-9, rtol=0):
        k = int(np.argmax(np.abs(d.edges.vectors - want).max(axis=1)))
        rep(f"dual edge vector of edge {rows[k][0]} is {d.edges.vectors[k].tolist()}, the true centre-to-centre displacement is {want[k].tolist()}"); return
    closed = len(rows) == l.n_edges and sum(p.n_sides for p in l.plaquettes) == 2 * l.n_edges
    if closed and min_gap(d) >= GAP_MIN:
        try:
            sides = Counter(int(p.n_sides) for p in d.plaquettes)
            degs = Counter(int(x) for x in core.degrees(l))
            if d.n_plaquettes != l.n_vertices or sides != degs:
                crossing = dual_drawing_crosses(d)
                if crossing is False:
                    rep(f"the dual of a closed lattice has faces {dict(sides)}, the vertex degrees are {dict(degs)}")
                else:
                    ctx.count("dual_faces_precondition_excluded_crossing_drawing")
            else:
                ctx.count("dual_faces_match_vertex_degrees")
        except LatticeException:
            pass
    ctx.case((name, "dual"), nontrivial=True, sample=dict(case=name, dual_edges=len(rows), worst_displacement=float(worst)))
    reqs.append(dict(op="dual", **zoo.lat_to_json(l))); meta.append((name, "dual", l, d, rows))


def check_truncation(ctx, rng, name, l, chosen, reqs, meta, depth=0):
    rep = lambda what, **kw: ctx.impl_violation(f"{name}: {what}", dict(case=name, op="truncate", lattice=zoo.lat_to_json(l),
                                                                        chosen=None if chosen is None else [int(x) for x in chosen], **kw))
    lat_fp = core.lattice_fingerprint(l, with_plaquettes=False)
    try:
        t = gu.vertices_to_polygon(l, None if chosen is None else np.asarray(chosen))
    except Exception as ex:
        rep(f"vertices_to_polygon raised {type(ex).__name__}: {ex}"); return None
    if core.lattice_fingerprint(l, with_plaquettes=False) != lat_fp:
        rep("vertices_to_polygon modified the lattice it was given (positions / edges / crossings)"); return None
    deg = core.degrees(l)
    sel = set(range(l.n_vertices)) if chosen is None else set(int(x) for x in np.atleast_1d(chosen))
    trunc = [v for v in range(l.n_vertices) if v in sel and deg[v] > 2]
    V, E = l.n_vertices, l.n_edges
    if t.n_vertices != V + sum(int(deg[v]) - 1 for v in trunc) or t.n_edges != E + sum(int(deg[v]) for v in trunc):
        rep(f"counts V'={t.n_vertices}, E'={t.n_edges} for {len(trunc)} truncated vertices of degrees {[int(deg[v]) for v in trunc][:8]}"); return None
    if np.any(t.vertices.positions < 0) or np.any(t.vertices.positions >= 1):
        rep("a corner lies outside [0,1)"); return None
    # new index of every old vertex / corner
    first = {}
    k = 0
    for v in range(V):
        first[v] = k
        k += int(deg[v]) if v in trunc else 1
    tdeg = core.degrees(t)
    for v in range(V):
        if v in trunc:
            if not np.all(tdeg[first[v]: first[v] + int(deg[v])] == 3):
                rep(f"corners of truncated vertex {v} do not all have degree 3"); return None
        elif tdeg[first[v]] != deg[v]:
            rep(f"degree of untouched vertex {v} changed from {deg[v]} to {tdeg[first[v]]}"); return None
    # original edges keep their indices: vector shortened by one third per truncated end
    nt = np.array([(int(a) in trunc) + (int(b) in trunc) for a, b in l.edges.indices])
    if not np.allclose(t.edges.vectors[:E], l.edges.vectors * (1 - nt / 3)[:, None], atol=1e-12, rtol=0):
        rep("the first E edges of the result are not the original edges shortened by the truncated thirds"); return None
    # polygon edges: difference of the unwrapped corners in rotation order
    off = E
    for v in trunc:
        es = l.vertices.adjacent_edges[v]
        out = np.array([l.edges.vectors[e] if l.edges.indices[e][0] == v else -l.edges.vectors[e] for e in es])
        corners = l.vertices.positions[v] + out / 3
        want = np.roll(corners, -1, axis=0) - corners
        got = t.edges.vectors[off: off + len(es)]
        if not np.allclose(got, want, atol=1e-12, rtol=0):
            rep(f"polygon edges of truncated vertex {v} are not the differences of its unwrapped corners"); return None
        off += len(es)
    # plaquettes
    generic = min_gap(l) >= GAP_MIN and min_gap(t) >= GAP_MIN
    if generic:
        try:
            old = list(l.plaquettes); new = list(t.plaquettes)
            want_sides = Counter(int(p.n_sides) + sum(int(v) in trunc for v in p.vertices) for p in old) + Counter(int(deg[v]) for v in trunc)
            got_sides = Counter(int(p.n_sides) for p in new)
            if len(new) != len(old) + len(trunc) or got_sides != want_sides:
                # known finding K3: a truncated vertex all of whose edges leave within a half-plane gives a self-crossing drawing
                reflex = []
                for v in trunc:
                    es = l.vertices.adjacent_edges[v]
                    out = np.array([l.edges.vectors[e] if l.edges.indices[e][0] == v else -l.edges.vectors[e] for e in es])
                    ang = np.sort(np.arctan2(out[:, 1], out[:, 0]))
                    gaps = np.diff(np.concatenate([ang, [ang[0] + 2 * np.pi]]))
                    if gaps.max() > np.pi - 1e-9:
                        reflex.append(int(v))
                ctx.impl_violation(f"{name}: plaquettes of the result ({len(new)}: {dict(got_sides)}) are not the enlarged old ones plus one d-gon per truncated vertex "
                                   f"({dict(want_sides)})" + (f"; truncated vertices {reflex[:5]} have all their edges within a half-plane" if reflex else ""),
                                   dict(case=name, op="truncate", lattice=zoo.lat_to_json(l), chosen=None if chosen is None else [int(x) for x in np.atleast_1d(chosen)]),
                                   signature="truncated-vertex-with-all-edges-in-a-half-plane" if reflex else None)
                return t
            ctx.count("truncations_with_plaquette_census")
        except LatticeException:
            pass
    ctx.case((name, "truncate", depth, None if chosen is None else tuple(int(x) for x in np.atleast_1d(chosen))), nontrivial=len(trunc) > 0,
             sample=dict(case=name, truncated=len(trunc), V=t.n_vertices, E=t.n_edges))
    if min_gap(l) < GAP_MIN:
        # two edges leave a vertex in the same direction (e.g. coinciding dual edges of two plaquettes that share two edges): the cyclic order at that vertex,
        # hence the numbering of the corners, is decided by a tie-break - non-generic input, the index-level comparison with the model is skipped
        ctx.count("truncation_model_comparison_excluded_nongeneric_rotation")
        return t
    reqs.append(dict(op="truncate", chosen=sorted(sel), **zoo.lat_to_json(l))); meta.append((name, "truncate", l, t, None))
    return t


def run(ctx):
    ctx.rule = ("one evaluation = one make_dual or one vertices_to_polygon call judged against the statement and compared exactly with the model; non-trivial = all duals / "
                "truncations that replace at least one vertex; distinct by (lattice, operation, vertex set)")
    ctx.run_audit()
    rng = np.random.default_rng(ctx.seed)
    quick = ctx.tier == "quick"
    reqs, meta = [], []
    lat = [("honey3", eg.honeycomb_lattice(3)), ("honey5", eg.honeycomb_lattice(5)), ("hso3", eg.hex_square_oct_lattice(3)), ("trinon3", eg.tri_non_lattice(3)),
           ("square44", eg.square_lattice(4, 4)), ("square35", eg.square_lattice(3, 5))]
    for N in ([14, 20, 30, 45] if quick else [13, 14, 16, 20, 25, 30, 40, 60, 90, 140]):
        for r in range(1 if quick else 2):
            l = zoo.voronoi(rng, N)
            lat.append((f"vor{N}#{r}", l)); lat.append((f"vor{N}#{r}-xy", cut_boundaries(l))); lat.append((f"vor{N}#{r}-x", cut_boundaries(l, [True, False])))
    for r in range(2 if quick else 8):
        l = zoo.voronoi_antidiag(rng)
        lat.append((f"vor-antidiag#{r}", l)); lat.append((f"vor-antidiag#{r}-x", cut_boundaries(l, [True, False]))); lat.append((f"vor-antidiag#{r}-y", cut_boundaries(l, [False, True])))
    small = [("vor4", zoo.voronoi(rng, 4)), ("vor6", zoo.voronoi(rng, 6)), ("honey2", eg.honeycomb_lattice(2)), ("two_triangles", eg.two_triangles()),
             ("wheel6", eg.higher_coordination_number_example(6)), ("tutte", eg.tutte_graph())]
    for name, l in lat:
        l = zoo.rebuild(l)
        if zoo.has_self_loop(l):
            continue
        ctx.count("lattices")
        try:
            if l.n_plaquettes >= 2 and min_gap(l) >= GAP_MIN:
                check_dual(ctx, name, l, reqs, meta)
        except LatticeException:
            pass
    # periodic lattices with coordination > 3 whose corners wrap round the cell: duals, off-centre square and triangular tilings
    high = []
    one = np.array([[0, 0]])
    for off in ((0.9, 0.9), (0.05, 0.5), (0.5, 0.97), (0.0, 0.0), (0.0, 0.5), (0.5, 0.0)):   # the last three: a row of vertices exactly on a cell wall, bonds running along it
        high.append((f"square4x4@{off}", eg.tile_unit_cell(np.array([off]), np.array([[0, 0], [0, 0]]), np.array([[1, 0], [0, 1]]), [4, 4])))
        high.append((f"triangular4x3@{off}", eg.tile_unit_cell(np.array([off]), np.array([[0, 0], [0, 0], [0, 0]]), np.array([[1, 0], [0, 1], [1, 1]]), [4, 3])))
    for N in ([16, 24] if quick else [14, 16, 20, 24, 30, 40]):
        try:
            high.append((f"dual-vor{N}", gu.make_dual(zoo.voronoi(rng, N))))
        except Exception:
            pass
    # long index lists (more than a hundred entries) in arbitrary order, reversed, and as a full permutation
    high.append(("honey9", eg.honeycomb_lattice(9)))
    high.append(("vor90", zoo.voronoi(rng, 90)))
    for name, l in lat + small + high:
        l = zoo.rebuild(l)
        if zoo.has_self_loop(l):
            continue
        V = l.n_vertices
        sets = [None, [int(rng.integers(V))], rng.choice(V, size=max(1, V // 4), replace=False), rng.choice(V, size=max(1, V // 2), replace=False)]
        if V >= 120:
            sets = [rng.choice(V, size=int(rng.integers(70, V - 10)), replace=False), np.sort(rng.choice(V, size=V // 2, replace=False))[::-1].copy(), rng.permutation(V)]
            ctx.count("truncations_with_long_unsorted_index_lists", len(sets))
        # vertices whose corners fall across the cell boundary
        near = np.nonzero(np.any((l.vertices.positions < 0.08) | (l.vertices.positions > 0.92), axis=1))[0]
        if len(near):
            sets.append(near[: 6])
        for chosen in sets:
            t = check_truncation(ctx, rng, name, l, chosen, reqs, meta)
            if t is not None and chosen is not None and t.n_vertices <= 600:
                check_truncation(ctx, rng, name + "/again", zoo.rebuild(t), rng.choice(t.n_vertices, size=max(1, t.n_vertices // 5), replace=False), reqs, meta, depth=1)
    core.history_check(ctx, "import numpy as np\nfrom koala import example_graphs as eg, voronization as vz, graph_utils as gu, quasicrystals as qc, phase_diagrams as pdg, hamiltonian as ham\nfrom koala.flux_finder import flux_finder as ff\n\ndef _canon(l):\n    parts = [l.vertices.positions.ravel(), l.edges.indices.ravel().astype(float), l.edges.crossing.ravel().astype(float)]\n    return np.concatenate(parts)\ndef _plaq(l):\n    out = []\n    for p in l.plaquettes:\n        out += [float(len(p.edges))] + [float(x) for x in p.edges] + [float(x) for x in p.directions] + [float(x) for x in p.vertices] + [float(x) for x in p.center]\n    return np.array(out)\n_pts = np.random.default_rng(123).uniform(size=(14, 2))\n", ["_canon(gu.make_dual(vz.generate_lattice(_pts)))", "_canon(gu.vertices_to_polygon(vz.generate_lattice(_pts), np.array([0, 5, 9])))",
                                      "_canon(gu.vertices_to_polygon(eg.honeycomb_lattice(3)))"], label="dual / truncation call")
    # ---- the forms of the `vertices` argument: a bare index (Python int, numpy integer, 0 included), a one-element list / array, None = all
    canon_l = lambda x: (x.vertices.positions.tobytes(), x.edges.indices.tobytes(), x.edges.crossing.tobytes())
    for name, l in [("honey3", eg.honeycomb_lattice(3)), ("vor14", zoo.rebuild(zoo.voronoi(rng, 14)))]:
        for v in (0, 1, l.n_vertices - 1):
            try:
                ref = canon_l(gu.vertices_to_polygon(l, np.array([v])))
                for lab, arg in (("python int", int(v)), ("numpy int64", np.int64(v)), ("numpy int32", np.int32(v)), ("one-element list", [int(v)]), ("tuple", (int(v),))):
                    if canon_l(gu.vertices_to_polygon(l, arg)) != ref:
                        ctx.impl_violation(f"{name}: truncating vertex {v} given as a {lab} differs from truncating np.array([{v}])", dict(case=name, op="truncate", lattice=zoo.lat_to_json(l), chosen=[int(v)], form=lab))
                    ctx.case((name, "truncate-form", v, lab), nontrivial=True)
            except Exception as ex:
                ctx.impl_violation(f"{name}: vertices_to_polygon raised {type(ex).__name__}: {ex} for vertex {v} in one of the accepted forms", dict(case=name, op="truncate", lattice=zoo.lat_to_json(l), chosen=[int(v)]))
        # a selection of several vertices as list, tuple, set, frozenset, dict keys, narrow-dtype array
        sel = sorted(int(x) for x in rng.choice(l.n_vertices, size=min(5, l.n_vertices), replace=False))
        try:
            ref = canon_l(gu.vertices_to_polygon(l, np.array(sel)))
            for lab, arg in (("list", list(sel)), ("tuple", tuple(sel)), ("set", set(sel)), ("frozenset", frozenset(sel)), ("dict keys", dict.fromkeys(sel).keys()),
                             ("uint8 array", np.array(sel, dtype=np.uint8)), ("int16 array", np.array(sel, dtype=np.int16))):
                if canon_l(gu.vertices_to_polygon(l, arg)) != ref:
                    ctx.impl_violation(f"{name}: truncating vertices {sel} given as a {lab} differs from truncating the same indices as an int64 array", dict(case=name, op="truncate", lattice=zoo.lat_to_json(l), chosen=sel, form=lab))
                ctx.case((name, "truncate-form-many", lab), nontrivial=True)
            # selections that name a vertex more than once (edge end points, corners of neighbouring plaquettes, draws with replacement) select it once
            for lab, arg in (("list with repeats", list(sel) + list(sel[:2]) + [sel[0]]), ("end points of the first three edges", np.asarray(l.edges.indices[:3]).ravel()),
                             ("corners of two neighbouring plaquettes", np.concatenate([l.plaquettes[0].vertices, l.plaquettes[int(l.plaquettes[0].adjacent_plaquettes[0])].vertices])),
                             ("draws with replacement", rng.integers(0, l.n_vertices, size=2 * l.n_vertices))):
                uniq = np.unique(np.asarray(arg, dtype=int))
                if canon_l(gu.vertices_to_polygon(l, arg)) != canon_l(gu.vertices_to_polygon(l, uniq)):
                    ctx.impl_violation(f"{name}: truncating the vertices {[int(x) for x in arg][:12]}.. ({lab}) differs from truncating each named vertex once",
                                       dict(case=name, op="truncate", lattice=zoo.lat_to_json(l), chosen=[int(x) for x in arg], form=lab))
                check_truncation(ctx, rng, name + f"[{lab}]", l, [int(x) for x in arg], reqs, meta)
                ctx.case((name, "truncate-repeats", lab), nontrivial=True)
        except Exception as ex:
            ctx.impl_violation(f"{name}: vertices_to_polygon raised {type(ex).__name__}: {ex} for vertices {sel} in one of the accepted forms", dict(case=name, op="truncate", lattice=zoo.lat_to_json(l), chosen=sel))
        if canon_l(gu.vertices_to_polygon(l)) != canon_l(gu.vertices_to_polygon(l, np.arange(l.n_vertices))) or canon_l(gu.vertices_to_polygon(l, None)) != canon_l(gu.vertices_to_polygon(l, np.arange(l.n_vertices))):
            ctx.impl_violation(f"{name}: truncating with vertices=None differs from truncating all vertices", dict(case=name, op="truncate", lattice=zoo.lat_to_json(l), chosen=None))
    # ---- input lattices whose index arrays have a narrow dtype, truncated to more vertices than that dtype can count (uint8: more than 256), once and twice
    for name, lb, dt in (("honey7[uint8]", eg.honeycomb_lattice(7), np.uint8), ("honey3[uint8] twice", eg.honeycomb_lattice(3), np.uint8), ("vor40[int8]", zoo.voronoi(rng, 40), np.int8),
                         ("honey12[int16]", eg.honeycomb_lattice(12), np.int16)):
        P, E, C = zoo.raw(lb)
        if len(P) - 1 > np.iinfo(dt).max:
            continue
        try:
            wide = gu.vertices_to_polygon(Lattice(P.copy(), E.copy(), C.copy()))
            narrow = gu.vertices_to_polygon(Lattice(P.copy(), E.astype(dt), C.astype(np.int8)))
            if "twice" in name:
                wide = gu.vertices_to_polygon(wide); narrow = gu.vertices_to_polygon(narrow)
            same = (np.array_equal(np.asarray(wide.edges.indices, dtype=np.int64), np.asarray(narrow.edges.indices, dtype=np.int64)) and
                    np.array_equal(np.asarray(wide.edges.crossing, dtype=np.int64), np.asarray(narrow.edges.crossing, dtype=np.int64)) and
                    np.allclose(wide.vertices.positions, narrow.vertices.positions, atol=1e-12, rtol=0) and wide.n_plaquettes == narrow.n_plaquettes)
            if not same:
                ctx.impl_violation(f"{name}: truncating a lattice built from {np.dtype(dt).name} edge indices gives a different lattice ({narrow.n_vertices} vertices) than truncating the same lattice built from int64 indices",
                                   dict(case=name, op="truncate", lattice=zoo.lat_to_json(lb), dtype=np.dtype(dt).name))
        except Exception as ex:
            ctx.impl_violation(f"{name}: vertices_to_polygon raised {type(ex).__name__}: {ex}", dict(case=name, op="truncate", lattice=zoo.lat_to_json(lb), dtype=np.dtype(dt).name))
        ctx.case((name, "narrow dtype"), nontrivial=True)
    # ---- two lattices with the same edge tables and slightly different vertex positions (a relaxation step, a jittered copy), one right after the other:
    #      the dual of each has its vertices at that lattice's own plaquette centres
    for name, l0 in [("vor16", zoo.voronoi(rng, 16)), ("vor30", zoo.voronoi(rng, 30)), ("honey4", eg.honeycomb_lattice(4))]:
        P0, E0, C0 = zoo.raw(l0)
        for amp in (3e-4, 1e-3):
            Pj = P0 + rng.uniform(-amp, amp, size=P0.shape) / np.sqrt(len(P0))
            if Pj.min() < 0 or Pj.max() >= 1:
                Pj = np.clip(Pj, 0, 1 - 1e-12)
            try:
                la_, lb_ = Lattice(P0.copy(), E0.copy(), C0.copy()), Lattice(Pj, E0.copy(), C0.copy())
                if min_gap(lb_) < GAP_MIN or lb_.n_plaquettes != la_.n_plaquettes:
                    continue
                gu.make_dual(la_); gu.make_dual(la_, True)
                check_dual(ctx, f"{name}-jittered({amp})-after-the-original", lb_, reqs, meta)
                for flag in (False, True):
                    if canon_l(gu.make_dual(lb_, flag)) != canon_l(gu.make_dual(Lattice(Pj.copy(), E0.copy(), C0.copy()), flag)):
                        ctx.impl_violation(f"{name}: the dual of a jittered copy (use_point_averages={flag}) computed after the dual of the original differs from the dual of the same jittered lattice built afresh",
                                           dict(case=name, op="dual", lattice=zoo.lat_to_json(lb_), jitter=amp))
                ctx.case((name, "dual-jittered-twin", amp), nontrivial=True)
            except LatticeException:
                pass
            except Exception as ex:
                if "small" in str(ex):
                    ctx.count("dual_precondition_excluded_too_small")
                else:
                    ctx.impl_violation(f"{name}: make_dual on a jittered copy raised {type(ex).__name__}: {ex}", dict(case=name, op="dual", lattice=zoo.lat_to_json(l0)))
    # ---- make_dual with both centre rules on one and the same lattice object, in both orders: each call is what it is on a fresh lattice
    for name, l0 in [("vor16", zoo.voronoi(rng, 16)), ("vor20-xy", cut_boundaries(zoo.voronoi(rng, 20)))]:
        raw = zoo.raw(l0)
        try:
            fresh = {flag: canon_l(gu.make_dual(Lattice(*[a.copy() for a in raw]), flag)) for flag in (False, True)}
            for order in ((True, False, True), (False, True, False)):
                lobj = Lattice(*[a.copy() for a in raw])
                for flag in order:
                    got = canon_l(gu.make_dual(lobj, flag)) if flag else canon_l(gu.make_dual(lobj))
                    if got != fresh[flag]:
                        ctx.impl_violation(f"{name}: make_dual(use_point_averages={flag}) after a call with the other centre rule on the same lattice differs from the same call on a fresh lattice",
                                           dict(case=name, op="dual", lattice=zoo.lat_to_json(l0), order=list(order)))
                        break
                ctx.case((name, "dual-centre-rules", order), nontrivial=True)
        except LatticeException:
            pass
        except Exception as ex:
            if "small" in str(ex):
                ctx.count("dual_precondition_excluded_too_small")      # the documented exception (two dual edges would coincide): the statement's precondition fails
            else:
                ctx.impl_violation(f"{name}: make_dual raised {type(ex).__name__}: {ex}", dict(case=name, op="dual", lattice=zoo.lat_to_json(l0)))
    outs = core.Driver().run_parallel(reqs)
    for (name, op, l, res, rows), o in zip(meta, outs):
        brk = lambda what, **kw: ctx.corr_break(f"{name}: {what}", dict(case=name, op=op, lattice=zoo.lat_to_json(l), **kw))
        if "err" in o:
            brk(f"model error {o['err']}"); continue
        if op == "dual":
            me = [(r["e"], r["a"], r["b"]) for r in o["edges"]]
            if me != rows:
                brk("dual edge list differs from the model's"); continue
            bad = [r["e"] for r, c in zip(o["edges"], res.edges.crossing) if not r["tight"] and r["c"] != [int(c[0]), int(c[1])]]
            if bad:
                brk(f"dual crossings of edges {bad[:5]} differ from the exact rounding of the model"); continue
            mv = np.array([[float(Fraction(x, D)), float(Fraction(y, D))] for x, y, D in o["verts"]])
            dv = np.abs(mv - res.vertices.positions) if mv.shape == res.vertices.positions.shape else None
            if dv is None or np.any(np.minimum(dv, 1 - dv) > 1e-9):          # compared on the circle: a centre on the cell wall may wrap either way
                brk("dual vertex positions differ from the model's exact centres mod 1"); continue
            ctx.count("duals_compared"); ctx.count("dual_crossings_excluded_near_half", sum(r["tight"] for r in o["edges"]))
        else:
            if res.edges.indices.tolist() != o["edges"] or res.edges.crossing.tolist() != o["cross"] or res.n_vertices != o["nV"]:
                brk("truncated lattice (indices / crossings) differs from the model"); continue
            S3 = o["scale"]
            mp = np.array([[float(Fraction(x, S3)), float(Fraction(y, S3))] for x, y in o["pos"]])
            if not np.allclose(mp, res.vertices.positions, atol=1e-12, rtol=0):
                # a corner within rounding of the cell wall may wrap differently in floats: such inputs are non-generic
                if np.allclose(mp % 1, res.vertices.positions % 1, atol=1e-9) or np.any(np.abs((mp % 1) - 0.5) > 0.5 - 1e-9):
                    ctx.count("truncation_positions_excluded_at_cell_wall"); continue
                brk("corner positions differ from the model's exact thirds"); continue
            ctx.count("truncations_compared")
    ctx.assumptions += ["planarity of the straight-line dual (needed for 'one face per vertex') is a precondition tested numerically, not proved",
                        "plaquette censuses after truncation are decided on the implementation (C01 ties Lattice.plaquettes to the model)"]


def replay(ctx, path):
    j = json.loads(open(path).read())["replay"]
    lat = j["lattice"]
    l = Lattice(np.array(lat["pos"], dtype=float) / lat["scale"], np.array(lat["edges"], dtype=int).reshape(-1, 2),
                np.array(lat["cross"], dtype=int).reshape(-1, 2))
    if j.get("op") == "dual":
        check_dual(ctx, "replay", l, [], [])
    else:
        check_truncation(ctx, np.random.default_rng(0), "replay", l, j.get("chosen"), [], [])
    print("violations:", [v["what"] for v in ctx.violations])
    return 1 if ctx.violations else 0
