"""C14 - the plaquette spanning tree has F-1 distinct two-sided edges forming a tree, and n -> n_to_ujk_flipped(n) visits
2^(F-1) pairwise different flux sectors (on a closed lattice: exactly the parity class).

L1: Props/C14.lean (tree grown by leaf attachment for every candidate order, completeness on connected plaquette graphs,
    boundary bookkeeping invariant, digits injective, others untouched, sectors pairwise different).
L2: the executable Prim model is run with the *recorded* argsort results of the implementation and must return the same
    edges_in; n_to_ujk_flipped and the fluxes are compared for every n.
L3: the statement evaluated on the implementation (union-find tree test, distinctness of sectors, parity class).
"""
from __future__ import annotations

import json

import numpy as np

import core
import zoo
import koala.graph_utils as gu
from koala import example_graphs as eg
from koala.flux_finder import flux_finder as ff
from koala.lattice import INVALID, Lattice, cut_boundaries


class NpProxy:
    """numpy seen through koala.graph_utils, recording every argsort result (third-party object wrapped in the harness)"""

    def __init__(self, real):
        self._real = real
        self.orders = []

    def argsort(self, *a, **k):
        r = self._real.argsort(*a, **k)
        self.orders.append([int(x) for x in r])
        return r

    def __getattr__(self, name):
        return getattr(self._real, name)


def spanning_tree_recorded(l, shortest):
    proxy = NpProxy(np)
    old = gu.np
    gu.np = proxy
    try:
        t = gu.plaquette_spanning_tree(l, shortest_edges_only=shortest)
    finally:
        gu.np = old
    return t, proxy.orders


def plaquette_graph_connected(l):
    F = l.n_plaquettes
    parent = list(range(F))

    def find(x):
        while parent[x] != x:
            parent[x] = parent[parent[x]]
            x = parent[x]
        return x
    for a, b in l.edges.adjacent_plaquettes:
        if a != INVALID and b != INVALID:
            parent[find(int(a))] = find(int(b))
    return len({find(i) for i in range(F)}) == 1


def oracle_tree(ctx, name, l, tree, shortest, rep):
    F = l.n_plaquettes
    tree = [int(x) for x in tree]
    if len(tree) != F - 1:
        rep(f"tree has {len(tree)} entries for F={F}"); return False
    if any(e < 0 or e >= l.n_edges for e in tree):
        rep(f"tree contains a missing/invalid edge ({[e for e in tree if e < 0 or e >= l.n_edges][:3]}) on a connected plaquette graph"); return False
    if len(set(tree)) != len(tree):
        rep("tree repeats an edge"); return False
    adj = l.edges.adjacent_plaquettes
    parent = list(range(F))

    def find(x):
        while parent[x] != x:
            parent[x] = parent[parent[x]]
            x = parent[x]
        return x
    for e in tree:
        a, b = (int(x) for x in adj[e])
        if a == INVALID or b == INVALID:
            rep(f"tree edge {e} has no plaquette on one side"); return False
        ra, rb = find(a), find(b)
        if ra == rb:
            rep(f"tree edge {e} closes a cycle"); return False
        parent[ra] = rb
    if len({find(i) for i in range(F)}) != 1:
        rep("tree does not connect all plaquettes"); return False
    return True


def cases_for(ctx, rng):
    quick = ctx.tier == "quick"
    out = []
    for n in ((2, 3) if quick else (2, 3, 4, 5)):
        out.append((f"honey{n}", "tiling", eg.honeycomb_lattice(n)))
    out.append(("hso2", "tiling", eg.hex_square_oct_lattice(2)))
    out.append(("trinon2", "tiling", eg.tri_non_lattice(2)))
    for s in ((2, 2), (2, 3), (3, 3), (3, 4)):
        out.append((f"square{s}", "tiling", eg.square_lattice(*s)))
    out += [("two_triangles", "example", eg.two_triangles()), ("tri_square_pent", "example", eg.tri_square_pent()),
            ("tutte", "example", eg.tutte_graph()), ("ladder6w", "example", eg.n_ladder(6, True)), ("ladder5", "example", eg.n_ladder(5, False)),
            ("wheel7", "example", eg.higher_coordination_number_example(7)), ("single6", "example", eg.single_plaquette(6))]
    Ns = list(range(9, 15)) + ([20, 40] if quick else [20, 30, 50, 80, 120, 200])
    reps = 2 if quick else 4
    for N in Ns:
        for r in range(reps):
            l = zoo.voronoi(rng, N)
            out.append((f"vor{N}#{r}", "voronoi", l))
            if r == 0:
                out.append((f"vor{N}-x", "strip", cut_boundaries(l, [True, False])))
                out.append((f"vor{N}-xy", "open", cut_boundaries(l)))
    for t in range(4 if quick else 20):
        l = zoo.voronoi(rng, int(rng.integers(4, 9)))
        out.append((f"vorsmall#{t}", "voronoi-small", l))
    return [(n, f, zoo.rebuild(l)) for n, f, l in out]


def run(ctx):
    ctx.rule = ("one evaluation = one (lattice, shortest_edges_only) tree or one (lattice, tree, base u, n) flipped configuration; "
                "non-trivial = F >= 3; distinct by (lattice, option, u, n)")
    ctx.run_audit()
    rng = np.random.default_rng(ctx.seed)
    quick = ctx.tier == "quick"
    Fmax = 12 if quick else 14
    reqs, meta = [], []
    for name, fam, l in cases_for(ctx, rng):
        try:
            F = l.n_plaquettes
        except Exception as ex:
            ctx.impl_violation(f"{name}: plaquettes raised {type(ex).__name__}", dict(case=name, lattice=zoo.lat_to_json(l))); continue
        if F < 1 or not plaquette_graph_connected(l):
            ctx.count("precondition_excluded_disconnected_plaquette_graph"); continue
        ctx.count("family:" + fam)
        lat = zoo.lat_to_json(l)
        lat_fp = core.lattice_fingerprint(l)
        closed = bool(np.all(l.edges.adjacent_plaquettes != INVALID)) and sum(p.n_sides for p in l.plaquettes) == 2 * l.n_edges
        for shortest in (False, True):
            rep = lambda what, **kw: ctx.impl_violation(f"{name} [shortest={shortest}]: {what}",
                                                        dict(case=name, lattice=lat, shortest=shortest, **kw))
            try:
                tree, orders = spanning_tree_recorded(l, shortest)
            except Exception as ex:
                rep(f"plaquette_spanning_tree raised {type(ex).__name__}: {ex}"); continue
            ok = oracle_tree(ctx, name, l, tree, shortest, rep)
            ctx.case((name, shortest), nontrivial=F >= 3, sample=dict(case=name, F=F, shortest=shortest, tree=[int(x) for x in tree][:12]))
            if not ok:
                continue
            # ---- n_to_ujk_flipped
            bases = [np.ones(l.n_edges, dtype=np.int8), (1 - 2 * rng.integers(0, 2, size=l.n_edges)).astype(np.int8)]
            if F - 1 <= Fmax - 1:
                ns = list(range(2 ** (F - 1)))
                ctx.count("lattices_exhaustive_n")
            else:
                ns = sorted({0, 2 ** (F - 1) - 1} | {int(rng.integers(0, 2 ** min(F - 1, 62))) for _ in range(12)})
            flipped = {}
            # the sectors do not depend on which flux variant was asked for first on a lattice object: a twin on which the complex variant is the very first query
            try:
                twin = zoo.rebuild(l)
                ff.fluxes_from_ujk(twin, bases[0], real=False)
                for n in list(ns)[:6]:
                    v_ = ff.n_to_ujk_flipped(n, bases[0], tree)
                    if not np.array_equal(ff.fluxes_from_ujk(twin, v_), ff.fluxes_from_ujk(l, v_)):
                        rep(f"the flux sector of n={n} read from a lattice object whose first flux query was the complex variant differs from the sector read from a twin", n=n); break
            except Exception as ex:
                rep(f"flux query on a twin raised {type(ex).__name__}: {ex}")
            for bi, u in enumerate(bases if shortest else bases[:1]):
                sectors = {}
                before = u.tobytes(); tb = np.asarray(tree).tobytes()
                for n in ns:
                    try:
                        v = ff.n_to_ujk_flipped(n, u, tree)
                    except Exception as ex:
                        rep(f"n_to_ujk_flipped({n}) raised {type(ex).__name__}: {ex}"); break
                    if u.tobytes() != before or np.asarray(tree).tobytes() != tb:
                        rep(f"n_to_ujk_flipped({n}) modified its input"); break
                    mask = np.ones(l.n_edges, dtype=bool); mask[tree] = False
                    if not np.array_equal(v[mask], u[mask]):
                        rep(f"n_to_ujk_flipped({n}) changed a bond off the tree", n=n, u=u.tolist()); break
                    if not set(np.unique(v).tolist()) <= {-1, 1}:
                        rep(f"n_to_ujk_flipped({n}) returned values outside ±1", n=n); break
                    fl = ff.fluxes_from_ujk(l, v)
                    key = tuple(int(x) for x in fl)
                    if key in sectors:
                        rep(f"n={sectors[key]} and n={n} give the same flux sector", n=n, n_other=sectors[key], u=u.tolist(), tree=[int(x) for x in tree]); break
                    sectors[key] = n
                    if closed and int(np.prod(fl)) != (-1) ** l.n_edges:
                        rep(f"sector of n={n} violates the global parity constraint on a closed lattice", n=n); break
                    flipped[(bi, n)] = (v, fl)
                    ctx.case((name, shortest, bi, n), nontrivial=F >= 3)
                else:
                    if len(ns) == 2 ** (F - 1):
                        ctx.count("exhaustive_sector_sets")
                        if closed:
                            # 2^(F-1) distinct sectors inside the parity class of size 2^(F-1): precisely all of them
                            ctx.count("closed_lattices_parity_class_covered")
                            if len(sectors) != 2 ** (F - 1):
                                rep("the enumeration does not cover the parity class")
            if core.lattice_fingerprint(l) != lat_fp:
                rep("plaquette_spanning_tree / n_to_ujk_flipped modified the lattice it was given")
            for bi, u in enumerate(bases if shortest else bases[:1]):
                reqs.append(dict(op="tree", orders=orders if shortest else [], u=u.tolist(), ns=[n for n in ns], **lat))
                meta.append((name, l, shortest, tree, bi, ns, flipped))
    # ---- long trees (more than 53 edges): integers beyond 2^53, digit by digit.  The tree bonds must spell the binary digits of n (most significant first) and
    #      neighbouring integers must give different sectors
    for name, l in [("honey8", eg.honeycomb_lattice(8)), ("vor150", zoo.voronoi(rng, 150))] + ([] if quick else [("vor400", zoo.voronoi(rng, 400))]):
        try:
            tree = gu.plaquette_spanning_tree(l)
            T = len(tree)
            if T < 54 or np.any(np.asarray(tree) < 0):
                continue
            base = (1 - 2 * rng.integers(0, 2, size=l.n_edges)).astype(np.int8)
            big = [2 ** 53 + 1, 2 ** T - 1, 2 ** (T - 1) + 1, (2 ** T - 1) // 3] + [int(rng.integers(0, 2 ** 62)) * 2 ** (T - 62) + int(rng.integers(0, 2 ** 30)) for _ in range(6 if quick else 40)]
            for n in big:
                n = n % (2 ** T)
                rep = lambda what: ctx.impl_violation(f"{name}: n_to_ujk_flipped({n}) {what}", dict(case=name, generator=name, n=str(n), tree_edges=T))
                v = ff.n_to_ujk_flipped(n, base, tree)
                digits = np.array([(n >> (T - 1 - i)) & 1 for i in range(T)])
                if not np.array_equal(np.asarray(v)[tree], 1 - 2 * digits):
                    rep(f"does not set the tree bonds to the binary digits of n ({int(np.sum(np.asarray(v)[tree] != 1 - 2 * digits))} of {T} bonds differ)"); break
                w = ff.n_to_ujk_flipped(n ^ 1, base, tree)
                if np.array_equal(ff.fluxes_from_ujk(l, v), ff.fluxes_from_ujk(l, w)):
                    rep("and its neighbour n xor 1 give the same flux sector"); break
                ctx.case((name, "long-tree", str(n)), nontrivial=True)
        except Exception as ex:
            ctx.impl_violation(f"{name}: long-tree enumeration raised {type(ex).__name__}: {ex}", dict(case=name, generator=name))
    # ---- churn (lattices built, used once, dropped: re-used addresses) and representations of the base configuration (dtype, layout, writability)
    import variants
    for name, l in zoo.churn(rng, 30 if quick else 300, lo=4, hi=14):
        try:
            F = l.n_plaquettes
            if F < 2 or not plaquette_graph_connected(l):
                continue
            for shortest in (False, True):
                rep = lambda what, **kw: ctx.impl_violation(f"{name} [shortest={shortest}]: on a freshly built lattice {what}", dict(case=name, lattice=zoo.lat_to_json(l), shortest=shortest, **kw))
                tree = gu.plaquette_spanning_tree(l, shortest)
                if not oracle_tree(ctx, name, l, tree, shortest, rep):
                    break
            else:
                u = (1 - 2 * rng.integers(0, 2, size=l.n_edges)).astype(np.int8)
                n = int(rng.integers(0, 2 ** min(F - 1, 30)))
                base = ff.n_to_ujk_flipped(n, u, tree)
                for lab, uv in variants.of_array(u):
                    keep = np.array(uv).copy()
                    v = ff.n_to_ujk_flipped(n, uv, tree)
                    if not np.array_equal(v, base):
                        ctx.impl_violation(f"{name}: n_to_ujk_flipped({n}) changes when the same base configuration is passed as {lab}", dict(case=name, lattice=zoo.lat_to_json(l), n=n, u=u.tolist(), representation=lab)); break
                    if not variants.untouched(lab, keep, uv):
                        ctx.impl_violation(f"{name}: n_to_ujk_flipped({n}) modified its input ({lab})", dict(case=name, lattice=zoo.lat_to_json(l), n=n, u=u.tolist(), representation=lab)); break
                for lab, tv in variants.of_array(tree, floats=False):
                    if not np.array_equal(ff.n_to_ujk_flipped(n, u, tv), base):
                        ctx.impl_violation(f"{name}: n_to_ujk_flipped({n}) changes when the same tree is passed as {lab}", dict(case=name, lattice=zoo.lat_to_json(l), n=n, u=u.tolist(), representation=lab)); break
            ctx.case((name, "churn"), nontrivial=F >= 3)
            ctx.count("churn_lattices")
        except Exception as ex:
            ctx.impl_violation(f"{name}: raised {type(ex).__name__}: {ex} on a freshly built lattice", dict(case=name, lattice=zoo.lat_to_json(l)))
    core.history_check(ctx, "import numpy as np\nfrom koala import example_graphs as eg, voronization as vz, graph_utils as gu, quasicrystals as qc, phase_diagrams as pdg, hamiltonian as ham\nfrom koala.flux_finder import flux_finder as ff\n\ndef _canon(l):\n    parts = [l.vertices.positions.ravel(), l.edges.indices.ravel().astype(float), l.edges.crossing.ravel().astype(float)]\n    return np.concatenate(parts)\ndef _plaq(l):\n    out = []\n    for p in l.plaquettes:\n        out += [float(len(p.edges))] + [float(x) for x in p.edges] + [float(x) for x in p.directions] + [float(x) for x in p.vertices] + [float(x) for x in p.center]\n    return np.array(out)\n_pts = np.random.default_rng(123).uniform(size=(14, 2))\n", ["gu.plaquette_spanning_tree(vz.generate_lattice(_pts))", "gu.plaquette_spanning_tree(eg.honeycomb_lattice(3), False)",
                                      "ff.n_to_ujk_flipped(5, np.ones(42, dtype=np.int8), gu.plaquette_spanning_tree(vz.generate_lattice(_pts)))"], label="spanning-tree call")
    outs = core.Driver().run_parallel(reqs)
    for (name, l, shortest, tree, bi, ns, flipped), o in zip(meta, outs):
        brk = lambda what, **kw: ctx.corr_break(f"{name} [shortest={shortest}]: {what}", dict(case=name, lattice=zoo.lat_to_json(l), shortest=shortest, **kw))
        if "err" in o:
            brk(f"model error {o['err']}"); continue
        mt = [(-1 if x is None else int(x)) for x in o["tree"]]
        if mt != [int(x) for x in tree]:
            brk("edges_in differs from the model run with the recorded candidate orders", impl=[int(x) for x in tree], model=mt); continue
        ctx.count("trees_compared_strictly")
        for n, mo in zip(ns, o["flipped"]):
            if (bi, n) not in flipped:
                continue
            v, fl = flipped[(bi, n)]
            if [int(x) for x in v] != mo["u"] or [int(x) for x in fl] != mo["fluxes"]:
                brk(f"n_to_ujk_flipped({n}) or its fluxes differ from the model", n=n); break
            ctx.count("flipped_configurations_compared")
    ctx.assumptions.append("np.argsort's result is recorded (not modelled) and replayed through the model; the theorems hold for every candidate order")


def replay(ctx, path):
    j = json.loads(open(path).read())["replay"]
    lat = j["lattice"]
    l = Lattice(np.array(lat["pos"], dtype=float) / lat["scale"], np.array(lat["edges"], dtype=int).reshape(-1, 2),
                np.array(lat["cross"], dtype=int).reshape(-1, 2))
    shortest = j.get("shortest", True)
    rep = lambda what, **kw: ctx.impl_violation(what, dict(kw))
    tree, _ = spanning_tree_recorded(l, shortest)
    ok = oracle_tree(ctx, "replay", l, tree, shortest, rep)
    if ok and "n" in j and "n_other" in j:
        u = np.array(j["u"], dtype=np.int8)
        a = ff.fluxes_from_ujk(l, ff.n_to_ujk_flipped(j["n"], u, tree)); b = ff.fluxes_from_ujk(l, ff.n_to_ujk_flipped(j["n_other"], u, tree))
        if np.array_equal(a, b):
            rep("two different n give the same sector")
    print("violations:", [v["what"] for v in ctx.violations])
    return 1 if ctx.violations else 0
