"""C01 - plaquettes are exactly the legitimate faces of the embedded graph.

L1: Props/C01.lean (rotation system well-formed, tracer never stuck, closed walks, telescoping,
    sweep partition, plaquettes = legitimate faces).
L2: correspondence of the executable model (`koala_driver`, op "plaquettes") with `Lattice.plaquettes`,
    `_sorted_vertex_adjacent_edges` and `_find_plaquette` on the lattice zoo, exact transport.
L3: independent exact face tracer (oracle_faces) evaluated on the implementation for every input.
"""
from __future__ import annotations

import json
from fractions import Fraction

import numpy as np

import core
import oracle_faces as of
import zoo
from koala import example_graphs as eg
from koala.lattice import Lattice, LatticeException
try:                                                     # a private helper: present at the pinned commit, free to change its name or signature
    from koala.lattice import _find_plaquette
except ImportError:
    _find_plaquette = None

GAP_MIN = Fraction(1, 10**18)      # sin^2 of the smallest angular gap: below this the input is non-generic


PRIVATE_TRACER = {"unusable": False}


def canon(es, ds):
    f = list(zip([int(e) for e in es], [int(d) for d in ds]))
    i = f.index(min(f))
    return tuple(f[i:] + f[:i])


def min_gap(l):
    """exact sin^2 of the smallest angle between two edges leaving a vertex within 90 degrees of each other - the genericity margin of every check that depends on
    the cyclic order of edges (compared with GAP_MIN = 1e-18, i.e. a gap of 1e-9 rad).  The margin exists because the implementation sorts float angles of float
    edge vectors: the direction of a vector of length s between positions of order 1 is only known to about 1e-16 / s.  For a pair of *long* edges (both longer
    than 1/20) that is 2e-15 rad, so their gap is weighted by 1e5: such pairs count as generic down to 3e-12 rad."""
    P = of.exact_positions(l)
    E = np.asarray(l.edges.indices, dtype=int); C = np.asarray(l.edges.crossing, dtype=int)
    out = {}
    for e, ((a, b), c) in enumerate(zip(E, C)):
        v = (P[b][0] - P[a][0] + int(c[0]), P[b][1] - P[a][1] + int(c[1]))
        out.setdefault(int(a), []).append(v)
        out.setdefault(int(b), []).append((-v[0], -v[1]))
    best = Fraction(1)
    for v, lst in out.items():
        for i in range(len(lst)):
            for j in range(i + 1, len(lst)):
                a, b = lst[i], lst[j]
                dot = a[0] * b[0] + a[1] * b[1]
                if dot > 0:
                    cr = a[0] * b[1] - a[1] * b[0]
                    den = (a[0] ** 2 + a[1] ** 2) * (b[0] ** 2 + b[1] ** 2)
                    if den == 0:
                        return Fraction(0)
                    long_pair = min(a[0] ** 2 + a[1] ** 2, b[0] ** 2 + b[1] ** 2) >= Fraction(1, 400)
                    best = min(best, Fraction(cr * cr) / den * (10 ** 5 if long_pair else 1))
    return best


def compare_case(ctx, name, fam, l, o, strict_stats):
    """one lattice: implementation vs model output `o`, and the property oracle on the implementation"""
    req = None
    if min_gap(l) < GAP_MIN:
        ctx.count("precondition_excluded_nongeneric")
        return
    # ---- implementation side
    try:
        plaqs = list(l.plaquettes)
        impl_err = None
    except LatticeException as ex:
        plaqs, impl_err = None, "stuck"
    except Exception as ex:      # any other exception on a loop-free lattice is a violation by itself
        ctx.impl_violation(f"{name}: Lattice.plaquettes raised {type(ex).__name__}: {ex}", dict(case=name, lattice=zoo.lat_to_json(l)))
        return
    loopfree = not zoo.has_self_loop(l)
    if "err" in o:
        if o["err"] == "precondition:self-loop":
            ctx.count("malformed_self_loop")
            return
        ctx.corr_break(f"{name}: model error {o['err']}", dict(case=name, lattice=zoo.lat_to_json(l)))
        return
    if impl_err:
        if loopfree:
            ctx.impl_violation(f"{name}: plaquette finder raised LatticeException on a loop-free lattice",
                               dict(case=name, lattice=zoo.lat_to_json(l)))
        return
    # ---- L3 oracle on the implementation (always evaluated; cheap)
    fails = of.check_plaquettes(l)
    if fails is None:
        ctx.count("precondition_excluded_nongeneric")
        return
    if fails:
        ctx.impl_violation(f"{name}: {fails[0]}", dict(case=name, failures=fails[:5], lattice=zoo.lat_to_json(l)))
    # ---- correspondence
    rot_impl = [np.asarray(a, dtype=int).tolist() for a in l.vertices.adjacent_edges]
    if rot_impl != o["rot"]:
        ctx.corr_break(f"{name}: incident-edge order differs from the model", dict(case=name, lattice=zoo.lat_to_json(l)))
    model_valid = [w for w in o["walks"] if w["valid"]]
    impl = [canon(p.edges, p.directions) for p in plaqs]
    model = [canon(w["e"], w["d"]) for w in model_valid]
    if sorted(impl) != sorted(model):
        ctx.corr_break(f"{name}: plaquette set differs from the model ({len(impl)} vs {len(model)})",
                       dict(case=name, lattice=zoo.lat_to_json(l), impl=impl[:20], model=model[:20]))
    elif [tuple(zip(np.asarray(p.edges).tolist(), np.asarray(p.directions).tolist())) for p in plaqs] != \
            [tuple(zip(w["e"], w["d"])) for w in model_valid]:
        strict_stats["order_or_start_differs"] += 1
    # verdict of every traced walk, through the private tracer
    for w in o["walks"]:
        if _find_plaquette is None or PRIVATE_TRACER["unusable"]:
            ctx.count("tie_downgraded_private_tracer_unavailable"); break
        try:
            pl, valid = _find_plaquette(w["e"][0], w["d"][0], l)
        except TypeError as ex:
            # the private tracer no longer takes (edge, direction, lattice): the walk-by-walk comparison is dropped (recorded), the comparison of the public
            # plaquette list with the model above is what ties the model to the code
            PRIVATE_TRACER["unusable"] = True
            ctx.count("tie_downgraded_private_tracer_unavailable"); break
        except Exception as ex:
            ctx.corr_break(f"{name}: _find_plaquette raised {type(ex).__name__}", dict(case=name, lattice=zoo.lat_to_json(l)))
            break
        if bool(valid) != w["valid"] or canon(pl.edges, pl.directions) != canon(w["e"], w["d"]):
            ctx.corr_break(f"{name}: walk from dart ({w['e'][0]},{w['d'][0]}) differs: impl valid={bool(valid)} model valid={w['valid']}",
                           dict(case=name, lattice=zoo.lat_to_json(l), walk=w))
            break
        # Umlaufsatz monitor (the hypothesis of plaquettes_eq_positive_area_faces_partial), exact
        if w["norep"] and w["net"] == [0, 0] and ((w["w"] == -1) != (w["a2"] > 0)):
            ctx.corr_break(f"{name}: MONITOR turning number {w['w']} vs area sign {w['a2']} disagree on an edge-simple contractible face",
                           dict(case=name, lattice=zoo.lat_to_json(l), walk=w))
    # centres (continuous: tolerance)
    S = Fraction(zoo.lat_to_json(l)["scale"])
    bym = {canon(w["e"], w["d"]): w for w in model_valid}
    for p in plaqs:
        w = bym.get(canon(p.edges, p.directions))
        if w is None or w["a2"] == 0:
            continue
        cx = Fraction(w["cx"], 3 * w["a2"]) / S; cy = Fraction(w["cy"], 3 * w["a2"]) / S
        ctol = max(1e-9, 4e-17 * len(w["e"]) / (float(Fraction(w["a2"]) / (S * S)) / 2))       # accuracy of the shoelace formula in doubles, see oracle_faces
        if abs(float(cx) - p.center[0]) > ctol or abs(float(cy) - p.center[1]) > ctol:
            ctx.corr_break(f"{name}: centre differs from the model", dict(case=name, lattice=zoo.lat_to_json(l)))
            break
    # ---- bookkeeping
    nwalks = len(o["walks"]); ninv = nwalks - len(model_valid)
    ctx.count("walks", nwalks); ctx.count("invalid_walks", ninv); ctx.count("plaquettes", len(impl))
    ctx.count("family:" + fam)
    deg = [len(r) for r in rot_impl]
    if deg and max(deg) > 3: ctx.count("lattices_with_degree_gt3")
    if deg and min(deg) == 0: ctx.count("lattices_with_isolated_vertex")
    if any(not w["norep"] for w in o["walks"]): ctx.count("lattices_with_twice_used_edge")
    if any(w["net"] != [0, 0] for w in o["walks"]): ctx.count("lattices_with_winding_face")
    key = (l.n_vertices, l.n_edges, tuple(sorted(impl))[:6], name.split("#")[0])
    ctx.case(key, nontrivial=l.n_edges >= 3 and nwalks >= 2,
             sample=dict(case=name, n_vertices=l.n_vertices, n_edges=l.n_edges, walks=nwalks, plaquettes=len(impl)))


def malformed(rng):
    """self-loop stream: both sides must reject identically (model: precondition, impl: exception or garbage allowed)"""
    out = []
    for i in range(3):
        l = zoo.voronoi(rng, int(rng.integers(3, 8)))
        idx = np.array(l.edges.indices); idx[int(rng.integers(len(idx)))] = [0, 0]
        out.append((f"selfloop{i}", "malformed", Lattice(l.vertices.positions, idx, l.edges.crossing)))
    return out


def integer_position_cases():
    """open lattices whose vertex positions are handed over as integer arrays (whole-number coordinates, which numpy types int64): everything, the centres included,
    must be what the same lattice gives with the same numbers as floats"""
    quad = (np.array([[0, 0], [3, 0], [4, 3], [1, 2]]), np.array([[0, 1], [1, 2], [2, 3], [3, 0]]))
    strip = (np.array([[0, 0], [2, 0], [5, 1], [7, 0], [7, 3], [4, 4], [2, 3], [0, 2]]), np.array([[0, 1], [1, 2], [2, 3], [3, 4], [4, 5], [5, 6], [6, 7], [7, 0], [1, 6], [2, 5]]))
    out = []
    for nm, (P, E) in (("int-quad", quad), ("int-strip", strip)):
        for dt in (np.int64, np.int32):
            out.append((f"{nm}-{np.dtype(dt).name}", "example", Lattice(P.astype(dt), E, np.zeros_like(E))))
    return out


def build_cases(ctx, rng):
    cases = list(zoo.fixed_examples()) + integer_position_cases()
    if ctx.tier == "quick":
        cases += zoo.random_cases(rng, 130, max_seeds=40)
        cases += list(zoo.edge_subsets(rng, 600))
    else:
        cases += zoo.random_cases(rng, 900, max_seeds=120)
        cases += zoo.random_cases(rng, 40, max_seeds=400, families=["vor", "vor-xy", "vor-sub", "vor-dual"])
        cases += list(zoo.edge_subsets(rng, 0, exhaustive=True))
        ctx.exhaustive = False
    cases += malformed(rng)
    return cases


def load_corpus():
    out = []
    d = core.CORPUS / "C01"
    if d.exists():
        for p in sorted(d.glob("*.json")):
            j = json.loads(p.read_text())
            out.append((p.stem, "corpus", Lattice(np.array(j["pos"], dtype=float), np.array(j["edges"], dtype=int).reshape(-1, 2),
                                                  np.array(j["cross"], dtype=int).reshape(-1, 2))))
    return out


def run(ctx):
    ctx.rule = ("lattice zoo (koala generators + surgery, see harness/zoo.py) and edge subsets of small base embeddings; "
                "a case is non-trivial when it has >=3 edges and >=2 traced walks; distinct by (V, E, plaquette set, family)")
    ctx.run_audit()
    rng = np.random.default_rng(ctx.seed)
    cases = load_corpus() + build_cases(ctx, rng)
    lines = [dict(op="plaquettes", **zoo.lat_to_json(l)) for _, _, l in cases]
    outs = core.Driver().run_parallel(lines)
    strict = dict(order_or_start_differs=0)
    for (name, fam, l), o in zip(cases, outs):
        compare_case(ctx, name, fam, l, o, strict)
    ctx.extra["strict_model_drift"] = strict
    # churn: fresh lattices that are dropped after use (re-used object addresses), judged by the independent face oracle
    for name, l in zoo.churn(rng, 40 if ctx.tier == "quick" else 400):
        try:
            fails = of.check_plaquettes(l)
        except Exception as ex:
            fails = [f"raised {type(ex).__name__}: {ex}"]
        if fails:
            ctx.impl_violation(f"{name}: on a freshly built lattice {fails[0]}", dict(case=name, lattice=zoo.lat_to_json(l), failures=[str(f) for f in fails[:5]]))
        ctx.case((name, l.n_vertices, l.n_edges), nontrivial=l.n_edges >= 3)
        ctx.count("churn_lattices")
    # lattices derived from a lattice whose plaquettes were already computed (relabelled, pickled, copied): their plaquettes are the legitimate faces too -
    # whatever of the parent's cached results the derived object was handed
    import copy as _copy, pickle as _pickle
    from koala.lattice import permute_vertices as _permute
    from koala import graph_utils as _gu
    derived_from = [(n, l) for n, f, l in cases if f in ("example", "corpus") or n.startswith("vor")][:: 3][: (14 if ctx.tier == "quick" else 60)]
    derived_from += [("single300", eg.single_plaquette(300)), ("single256", eg.single_plaquette(256)), ("wheel300", eg.higher_coordination_number_example(300))]
    for name, l in derived_from:
        if zoo.has_self_loop(l) or l.n_edges == 0:
            continue
        try:
            l = zoo.rebuild(l)
            _ = l.plaquettes; _ = l.edges.adjacent_plaquettes
            o1 = rng.permutation(l.n_vertices)
            o2 = np.roll(np.arange(l.n_vertices), 1)
            children = [("permute_vertices (random)", _permute(l, o1)), ("permute_vertices (cyclic shift)", _permute(l, o2)), ("reorder_vertices", _gu.reorder_vertices(l, o1)),
                        ("pickle round trip", _pickle.loads(_pickle.dumps(l))), ("deepcopy", _copy.deepcopy(l))]
        except Exception as ex:
            ctx.impl_violation(f"{name}: deriving a lattice from one with computed plaquettes raised {type(ex).__name__}: {ex}", dict(case=name, lattice=zoo.lat_to_json(l))); continue
        for lab, ch in children:
            try:
                fails = of.check_plaquettes(ch)
            except Exception as ex:
                fails = [f"raised {type(ex).__name__}: {ex}"]
            if fails:
                ctx.impl_violation(f"{name} -> {lab} (after the parent's plaquettes were computed): {fails[0]}", dict(case=name, derived=lab, lattice=zoo.lat_to_json(ch), failures=[str(f) for f in fails[:5]])); break
            ctx.case((name, "derived", lab), nontrivial=True)
    # face walks of several thousand steps (a polygon with 4100 sides; a comb whose outline has more than 4096 sides is the same walk): one plaquette with every
    # edge once, in order.  The unchanged walk is quadratic in its length (about 20 s for this one).
    for n_ in ((4100,) if ctx.tier == "quick" else (4100, 5000)):
        try:
            big = eg.single_plaquette(n_)
            ps_ = big.plaquettes
            ok = len(ps_) == 1 and ps_[0].n_sides == n_ and sorted(int(x) for x in ps_[0].edges) == list(range(n_)) and len(set(int(x) for x in ps_[0].vertices)) == n_
            if not ok:
                ctx.impl_violation(f"single_plaquette({n_}): the plaquettes are not the one polygon with {n_} sides ({len(ps_)} plaquettes, sizes {[int(p.n_sides) for p in ps_][:5]})", dict(case=f"single{n_}", generator=f"single_plaquette({n_})"))
        except Exception as ex:
            ctx.impl_violation(f"single_plaquette({n_}): computing the plaquettes raised {type(ex).__name__}: {ex}", dict(case=f"single{n_}", generator=f"single_plaquette({n_})"))
        ctx.case((f"single{n_}", "long face walk"), nontrivial=True); ctx.count("face_walks_longer_than_4096")
    core.history_check(ctx, "import numpy as np\nfrom koala import example_graphs as eg, voronization as vz, graph_utils as gu, quasicrystals as qc, phase_diagrams as pdg, hamiltonian as ham\nfrom koala.flux_finder import flux_finder as ff\n\ndef _canon(l):\n    parts = [l.vertices.positions.ravel(), l.edges.indices.ravel().astype(float), l.edges.crossing.ravel().astype(float)]\n    return np.concatenate(parts)\ndef _plaq(l):\n    out = []\n    for p in l.plaquettes:\n        out += [float(len(p.edges))] + [float(x) for x in p.edges] + [float(x) for x in p.directions] + [float(x) for x in p.vertices] + [float(x) for x in p.center]\n    return np.array(out)\n_pts = np.random.default_rng(123).uniform(size=(14, 2))\n", ["_plaq(vz.generate_lattice(_pts))", "_plaq(eg.honeycomb_lattice(2))", "_plaq(eg.tri_square_pent())"], label="Lattice.plaquettes of")
    ctx.assumptions += [
        "float arctan2 ordering and winding are replaced in the model by exact predicates; inputs whose smallest angular gap has sin^2 < 1e-18 are precondition-excluded (counted)",
        "Hopf's Umlaufsatz (turning number -1 <=> positive area for edge-simple contractible face walks) is a hypothesis of plaquettes_eq_positive_area_faces_partial; evaluated exactly on every traced walk",
    ]


def replay(ctx, path):
    j = json.loads(open(path).read())
    lat = j["replay"]["lattice"]
    S = lat["scale"]
    l = Lattice(np.array(lat["pos"], dtype=float) / S, np.array(lat["edges"], dtype=int).reshape(-1, 2),
                np.array(lat["cross"], dtype=int).reshape(-1, 2))
    fails = of.check_plaquettes(l)
    print("oracle failures on the implementation:", fails)
    return 1 if fails else 0
