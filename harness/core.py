"""Shared machinery of the koala verification harness.

Layers (see DESIGN.md §0): L1 = Lean build + axiom audit, L2 = translator / correspondence,
L3 = failing-input search.  This module holds everything that is not specific to one property:
locking and running `lake`, the axiom audit, the model driver bridge, the evidence writer, the
known-findings protocol and the VIOLATION line protocol.
"""
from __future__ import annotations

import fcntl
import json
import os

import numpy as np
import re
import subprocess
import sys
import time
from fractions import Fraction
from pathlib import Path

VERIF = Path(__file__).resolve().parent.parent
LEAN = VERIF / "lean"
REPO = Path(os.environ.get("KOALA_REPO", "/repo"))
EVIDENCE = VERIF / "evidence"
REPLAYS = VERIF / "replays"
CORPUS = VERIF / "corpus"

ALLOWED_AXIOMS = {"propext", "Classical.choice", "Quot.sound"}
FORBIDDEN = re.compile(
    r"\bsorry\b|\badmit\b|^axiom |native_decide|bv_decide|implemented_by|\bunsafe |maxHeartbeats 0", re.M)

TRUSTED_BASE = [
    "Lean 4.33 kernel + Mathlib v4.33 modules imported by the Props file",
    "axioms allowed: propext, Classical.choice, Quot.sound (audited per theorem on every run)",
    "Lean code generator / interpreter running the executable model = the definitions the theorems are about",
    "the correspondence harness (generators, canonicalisation, tolerance 1e-9 for continuous outputs)",
    "numpy/scipy/matplotlib/pysat/mpire numerics and third-party behaviour are modelled, not verified",
]


def fresh_eval(exprs, preamble="import numpy as np", timeout=120):
    """evaluate each expression in its own fresh interpreter (the call is the first thing koala does in that process) and return the resulting arrays:
    the history-free reference for 'the same call gives the same result whatever was called before'.  Runs the interpreters in parallel."""
    import base64, pickle
    from concurrent.futures import ThreadPoolExecutor
    env = dict(os.environ, PYTHONPATH=str(REPO / "src"), MPLBACKEND="Agg")
    code = preamble + "\nimport sys, pickle, base64\nr = {expr}\nsys.stdout.write('RESULT:' + base64.b64encode(pickle.dumps(np.asarray(r))).decode())\n"

    def one(expr):
        p = subprocess.run([sys.executable, "-c", code.format(expr=expr)], capture_output=True, text=True, env=env, timeout=timeout)
        for line in p.stdout.splitlines():
            if line.startswith("RESULT:"):
                return pickle.loads(base64.b64decode(line[7:]))
        return RuntimeError(p.stderr[-300:])
    with ThreadPoolExecutor(max_workers=8) as ex:
        return list(ex.map(one, exprs))


def lattice_fingerprint(l, with_plaquettes=True):
    """everything a caller can read off a lattice that a function receiving it has no business changing"""
    import hashlib
    h = hashlib.sha1()
    for a in (l.vertices.positions, l.edges.indices, l.edges.crossing, l.edges.vectors):
        h.update(np.ascontiguousarray(a).tobytes())
    if with_plaquettes:
        for p in l.plaquettes:
            for a in (p.vertices, p.edges, p.directions, p.center):
                h.update(np.ascontiguousarray(a).tobytes())
        h.update(np.ascontiguousarray(l.edges.adjacent_plaquettes).tobytes())
    return h.hexdigest()


def history_check(ctx, preamble, exprs, label="call"):
    """'the same call gives the same result whatever was called before': evaluate each expression here, at the end of a run that has made thousands of other
    calls, and as the first call of a fresh interpreter; any difference is a dependence on history (a cache keyed on too little, shared mutable state)"""
    ns = {}
    exec(preamble, ns)
    here = []
    for e in exprs:
        try:
            here.append(np.asarray(eval(e, ns)))
        except Exception as ex:
            here.append(ex)
    fresh = fresh_eval(exprs, preamble)
    for e, a, b in zip(exprs, here, fresh):
        if isinstance(b, Exception):
            ctx.notes.append(f"history check: no fresh-interpreter reference for {e[:80]}")
            continue
        if isinstance(a, Exception):
            ctx.impl_violation(f"{label} {e[:160]} raises {type(a).__name__}: {a} late in a long run but works as the first call of a fresh interpreter", dict(case="history", expr=e))
        elif a.shape != b.shape or a.dtype != b.dtype or not np.array_equal(a, b, equal_nan=True if a.dtype.kind in "fc" else False):
            ctx.impl_violation(f"{label} {e[:160]} gives a different result late in a long run than as the first call of a fresh interpreter: it depends on the calls "
                               "made before it", dict(case="history", expr=e))
        ctx.count("history_checks")


def guarded_translate(ctx, fn, which, empty):
    """run a translator; if it cannot process the current source the tie is broken (reported as such - the generated Lean files may be stale) but the
    dynamic part of the check still runs, so that a failing input can be searched for"""
    try:
        return fn()
    except Exception as ex:
        import traceback
        ctx.corr_break(f"the {which} translator cannot process the current source ({type(ex).__name__}: {ex}); the generated Lean definitions are not "
                       "those of this source", dict(translator=which, traceback=traceback.format_exc()[-1500:]))
        return empty


def note_translation(ctx, entries):
    """record which translated definitions this property relies on; an entry that fell back to the pinned translation (the source function was renamed, merged,
    inlined or left the translatable subset) downgrades the tie for that definition to the exact correspondence of this harness, which is said so in the evidence"""
    ctx.translated = entries
    for e in entries:
        if isinstance(e, dict) and e.get("fallback"):
            name = e.get("kernel") or e.get("table")
            ctx.count("tie_downgraded_to_correspondence:" + str(name))
            ctx.notes.append(f"translated definition {name} could not be regenerated from the current source ({e.get('why', '')[:120]}); its theorems were checked against the "
                             "translation of the pinned source and the tie to the current code is this run's exact correspondence only")


class InfrastructureError(RuntimeError):
    """lake / driver / toolchain problems: exit 2, never a verdict"""


def clean_env():
    env = dict(os.environ)
    env.pop("LEAN_PATH", None)
    return env


def _run(cmd, cwd=None, timeout=3600, input=None):
    p = subprocess.run(cmd, cwd=cwd, capture_output=True, text=True, timeout=timeout, input=input,
                       env=clean_env())
    return p.returncode, p.stdout + p.stderr


class LakeLock:
    """`lake build` is not safe to run concurrently in one project; serialise with a file lock."""

    def __enter__(self):
        self.f = open(VERIF / ".lake.lock", "w")
        fcntl.flock(self.f, fcntl.LOCK_EX)
        return self

    def __exit__(self, *a):
        fcntl.flock(self.f, fcntl.LOCK_UN)
        self.f.close()


def lake_build(targets, timeout=3000):
    with LakeLock():
        t0 = time.time()
        rc, out = _run(["lake", "build"] + list(targets), cwd=LEAN, timeout=timeout)
        return rc == 0, out, time.time() - t0


def strip_comments(src: str) -> str:
    # remove nested block comments and line comments (good enough for the forbidden-token scan)
    out, i, depth = [], 0, 0
    while i < len(src):
        if src.startswith("/-", i):
            depth += 1; i += 2; continue
        if src.startswith("-/", i) and depth:
            depth -= 1; i += 2; continue
        if depth == 0:
            if src.startswith("--", i):
                j = src.find("\n", i)
                i = len(src) if j < 0 else j
                continue
            out.append(src[i])
        i += 1
    return "".join(out)


def lean_sources():
    return sorted(p for p in (LEAN / "KoalaVerif").rglob("*.lean")) + [LEAN / "Driver.lean"]


def forbidden_scan(files=None):
    hits = []
    for p in files or lean_sources():
        if not p.exists():
            continue
        for m in FORBIDDEN.finditer(strip_comments(p.read_text())):
            hits.append(f"{p.relative_to(LEAN)}: {m.group(0).strip()}")
    return hits


THEOREM_RE = re.compile(r"^(?:protected\s+|private\s+)?theorem\s+([^\s:({\[]+)", re.M)
NAMESPACE_RE = re.compile(r"^(namespace|end)\s+([\w\.]+)", re.M)


def theorems_of(path: Path):
    """Names of all theorems declared in a Props file (with enclosing namespaces)."""
    src = strip_comments(path.read_text())
    names, stack = [], []
    for line in src.splitlines():
        m = re.match(r"^namespace\s+([\w\.]+)", line)
        if m:
            stack.append(m.group(1)); continue
        m = re.match(r"^end\s+([\w\.]+)", line)
        if m and stack and stack[-1] == m.group(1):
            stack.pop(); continue
        m = THEOREM_RE.match(line)
        if m:
            names.append(".".join(stack + [m.group(1)]))
    return names


def audit(pid: str, extra_modules=()):
    """Build Props/<pid>, print the axioms of every theorem in it, return the obligation table.

    Returns dict(ok, obligations=[{name, axioms, ok}], log, build_s)."""
    mod = f"KoalaVerif.Props.{pid}"
    props = LEAN / "KoalaVerif" / "Props" / f"{pid}.lean"
    ok, log, build_s = lake_build([mod, "KoalaVerif.Model.All"] + list(extra_modules))
    res = dict(ok=ok, obligations=[], log=log[-6000:], build_s=round(build_s, 2), module=mod,
               forbidden=forbidden_scan())
    files = [props] if props.exists() else []
    for em in extra_modules:
        q = LEAN / (em.replace(".", "/") + ".lean")
        if q.exists():
            files.append(q)
    per_file = {f: theorems_of(f) for f in files}
    names = [n for f in files for n in per_file[f]]
    if not ok:
        # name the obligations that broke: map every error line to the theorem declared above it; theorems of a module that
        # failed for another reason (an import that did not build) are all unconfirmed
        broken = set()
        for f in files:
            rel = str(f.relative_to(LEAN))
            lines = [int(m.group(1)) for m in re.finditer(r"error: " + re.escape(rel) + r":(\d+):", log)]
            if lines:
                decl = []       # (line, name)
                src_lines = f.read_text().splitlines()
                stack = []
                for i, line in enumerate(src_lines, 1):
                    m = re.match(r"^namespace\s+([\w\.]+)", line)
                    if m: stack.append(m.group(1)); continue
                    m = re.match(r"^end\s+([\w\.]+)", line)
                    if m and stack and stack[-1] == m.group(1): stack.pop(); continue
                    m = THEOREM_RE.match(line)
                    if m: decl.append((i, ".".join(stack + [m.group(1)])))
                for ln in lines:
                    prev = [n for (i, n) in decl if i <= ln]
                    if prev: broken.add(prev[-1])
            olean = LEAN / ".lake" / "build" / "lib" / "lean" / (str(f.relative_to(LEAN))[:-5] + ".olean")
            if not lines and not (olean.exists() and olean.stat().st_mtime >= f.stat().st_mtime):
                broken.update(per_file[f])           # did not build although it has no error of its own: an import broke
        if not broken:
            broken = set(names)
        res["obligations"] = [dict(name=n, axioms=None, ok=(n not in broken)) for n in names]
        res["unconfirmed_note"] = "build failed: obligations not listed as broken were not re-confirmed by the kernel in this run"
        return res
    audit_dir = LEAN / "Audit"
    audit_dir.mkdir(exist_ok=True)
    af = audit_dir / f"{pid}.lean"
    imports = [mod] + list(extra_modules)
    af.write_text("".join(f"import {m}\n" for m in imports) + "".join(f"#print axioms {n}\n" for n in names))
    with LakeLock():
        rc, out = _run(["lake", "env", "lean", str(af)], cwd=LEAN, timeout=1200)
    axioms = {}
    for m in re.finditer(r"'(\S+)' depends on axioms: \[([^\]]*)\]", out):
        axioms[m.group(1)] = [a.strip() for a in m.group(2).replace("\n", " ").split(",") if a.strip()]
    for m in re.finditer(r"'(\S+)' does not depend on any axioms", out):
        axioms[m.group(1)] = []
    for n in names:
        ax = axioms.get(n)
        good = ax is not None and set(ax) <= ALLOWED_AXIOMS
        res["obligations"].append(dict(name=n, axioms=ax, ok=good))
    if rc != 0 or any(not o["ok"] for o in res["obligations"]) or res["forbidden"]:
        res["ok"] = False
        res["log"] += "\n[audit]\n" + out[-3000:]
    return res


class Driver:
    """Batch bridge to the Lean model driver: one JSON object per line in, one per line out."""

    def __init__(self):
        self.exe = LEAN / ".lake" / "build" / "bin" / "koala_driver"

    def run(self, lines, timeout=3000):
        if not lines:
            return []
        data = "\n".join(json.dumps(l, separators=(",", ":")) if not isinstance(l, str) else l for l in lines) + "\n"
        if self.exe.exists() and os.environ.get("KOALA_VERIF_INTERP") != "1":
            cmd = [str(self.exe)]
        else:
            cmd = ["lake", "env", "lean", "--run", "Driver.lean"]
        p = subprocess.run(cmd, cwd=LEAN, input=data, capture_output=True, text=True, timeout=timeout,
                           env=clean_env())
        outs = []
        for x in p.stdout.splitlines():
            if x.startswith("{"):
                try:
                    outs.append(json.loads(x))
                except json.JSONDecodeError:
                    outs.append({"err": "unparsable-driver-line", "raw": x[:200]})
        if len(outs) != len(lines):
            raise InfrastructureError(f"driver returned {len(outs)} lines for {len(lines)} requests; rc={p.returncode}; "
                               f"stderr={p.stderr[-1500:]} stdout-tail={p.stdout[-500:]}")
        return outs

    def run_parallel(self, lines, jobs=None, timeout=3000):
        """Split the request list over several driver processes (order preserved)."""
        from concurrent.futures import ThreadPoolExecutor
        jobs = jobs or min(16, max(1, len(lines) // 50))
        if jobs <= 1:
            return self.run(lines, timeout)
        chunks = [lines[i::jobs] for i in range(jobs)]
        with ThreadPoolExecutor(jobs) as ex:
            res = list(ex.map(lambda c: self.run(c, timeout), chunks))
        out = [None] * len(lines)
        for j, r in enumerate(res):
            out[j::jobs] = r
        return out


# ---------------------------------------------------------------------------------------------
# exact transport of floats


def dyadic_scale(values):
    """Smallest power of two S such that every float in `values` times S is an integer."""
    S = 1
    for x in values:
        d = Fraction(float(x)).denominator
        if d > S:
            S = d
    return S


def to_scaled(x, S):
    return int(Fraction(float(x)) * S)


# ---------------------------------------------------------------------------------------------
# known findings


def load_known():
    p = VERIF / "known_findings.json"
    if not p.exists():
        return []
    return json.loads(p.read_text())["findings"]


# ---------------------------------------------------------------------------------------------
# run context: evidence, violations


class Ctx:
    def __init__(self, pid, tier, seed):
        self.pid, self.tier, self.seed = pid, tier, seed
        self.t0 = time.time()
        self.evaluations = 0
        self.nontrivial = set()
        self.samples = []
        self.dist = {}
        self.violations = []          # dicts(kind, what, replay-object)
        self.known_hits = []
        self.obligations = []
        self.proof_ok = True
        self.proof_log = ""
        self.corr_breaks = []         # correspondence mismatches (model vs implementation)
        self.notes = []
        self.assumptions = []
        self.extra = {}
        self.exhaustive = False
        self.rule = ""
        self.translated = []

    # -- bookkeeping --------------------------------------------------------------------------
    def count(self, key, n=1):
        self.dist[key] = self.dist.get(key, 0) + n

    def case(self, key, nontrivial=True, sample=None):
        """Register one evaluated case; `key` identifies it for distinctness."""
        self.evaluations += 1
        if nontrivial:
            self.nontrivial.add(key if isinstance(key, (str, int, tuple)) else json.dumps(key, sort_keys=True, default=str))
        if sample is not None and len(self.samples) < 6:
            self.samples.append(sample)

    def time_left(self, budget_s):
        return budget_s - (time.time() - self.t0)

    # -- L1 --------------------------------------------------------------------------------
    def run_audit(self, extra_modules=()):
        res = audit(self.pid, extra_modules)
        self.obligations = res["obligations"]
        self.proof_ok = res["ok"]
        self.extra["lake_build_s"] = res["build_s"]
        self.extra["forbidden_tokens"] = res["forbidden"]
        if not res["ok"]:
            self.proof_log = res["log"]
        # thorough tier: the compiled theorem file is re-checked by leanchecker, the toolchain's independent re-checker of .olean files
        if self.tier == "thorough" and res["ok"] and os.environ.get("KOALA_VERIF_NO_LEANCHECKER") != "1":
            import shutil
            if shutil.which("leanchecker"):
                t0 = time.time()
                with LakeLock():
                    rc, out = _run(["lake", "env", "leanchecker", f"KoalaVerif.Props.{self.pid}"], cwd=LEAN, timeout=3000)
                self.extra["leanchecker"] = dict(rc=rc, seconds=round(time.time() - t0, 1), tail=out[-300:])
                if rc != 0:
                    self.proof_ok = False
                    self.proof_log = (getattr(self, "proof_log", "") or "") + "\n[leanchecker]\n" + out[-3000:]
                    for o in self.obligations:
                        o["ok"] = False
            else:
                self.extra["leanchecker"] = dict(rc=None, note="leanchecker not on PATH")
        return res

    # -- verdicts ---------------------------------------------------------------------------
    def impl_violation(self, what, replay, signature=None):
        """The implementation itself breaks the property on a concrete input.
        `signature` names the input class of a known finding (matched against known_findings.json)."""
        self.violations.append(dict(kind="failing-input", what=what, replay=replay, signature=signature))

    def corr_break(self, what, replay):
        """Model and implementation disagree (not by itself a property violation)."""
        self.corr_breaks.append(dict(kind="correspondence", what=what, replay=replay))

    def finish(self):
        """Apply the violation protocol, write evidence, print lines, return the exit code."""
        known = [k for k in load_known() if k["property"] == self.pid and k["status"] == "open"]
        out_lines = []
        real = []
        for v in self.violations:
            matched = None
            for k in known:
                if v.get("signature") and v["signature"] == k.get("signature"):
                    matched = k
            if matched:
                self.known_hits.append(matched)
            else:
                real.append(v)
        for k in {k["key"]: k for k in self.known_hits}.values():
            out_lines.append(f"KNOWN-FINDING: property={self.pid} {k['what']}")
        REPLAYS.mkdir(exist_ok=True)
        rc = 0
        if real:
            v = real[0]
            path = REPLAYS / f"{self.pid}_{self.tier}_{self.seed}.json"
            path.write_text(json.dumps(dict(property=self.pid, kind=v["kind"], what=v["what"], seed=self.seed,
                                            tier=self.tier, replay=v["replay"], more=len(real) - 1),
                                       indent=1, default=str))
            out_lines.append(f"VIOLATION property={self.pid} replay={path}")
            rc = 1
        elif (not self.proof_ok) or self.corr_breaks:
            # the property is no longer shown to hold, but no failing input was found
            path = REPLAYS / f"{self.pid}_{self.tier}_{self.seed}.json"
            broken = [o["name"] for o in self.obligations if not o["ok"]]
            path.write_text(json.dumps(dict(
                property=self.pid, kind="no-failing-input-found", seed=self.seed, tier=self.tier,
                broken_theorems=broken, forbidden_tokens=self.extra.get("forbidden_tokens", []),
                build_log_tail=self.proof_log[-4000:],
                broken_correspondence=self.corr_breaks[:5],
                note="the proof obligation or the model/implementation correspondence named here no longer checks; "
                     "the failing-input search over the implementation found no input violating the property"),
                indent=1, default=str))
            out_lines.append(f"VIOLATION property={self.pid} replay={path} no-failing-input-found")
            rc = 1
        self.write_evidence(len(real) + (1 if rc and not real else 0))
        for l in out_lines:
            print(l)
        status = "OK" if rc == 0 else "FAIL"
        print(f"[{self.pid}] {status} tier={self.tier} seed={self.seed} evaluations={self.evaluations} "
              f"distinct_nontrivial={len(self.nontrivial)} obligations={len(self.obligations)} "
              f"discharged={sum(o['ok'] for o in self.obligations)} corr_breaks={len(self.corr_breaks)} "
              f"wall={time.time() - self.t0:.1f}s")
        return rc

    def write_evidence(self, n_viol):
        EVIDENCE.mkdir(exist_ok=True)
        cov = dict(
            obligations=len(self.obligations),
            discharged=sum(o["ok"] for o in self.obligations),
            checker_cmd=f"cd lean && lake build KoalaVerif.Props.{self.pid} && lake env lean Audit/{self.pid}.lean"
                        + (" && lake env leanchecker KoalaVerif.Props.%s" % self.pid if self.extra.get("leanchecker") else ""),
            trusted_base=TRUSTED_BASE + self.assumptions,
            theorems=[dict(name=o["name"], axioms=o["axioms"]) for o in self.obligations],
            evaluations=self.evaluations,
            distinct_nontrivial=len(self.nontrivial),
            rule=self.rule,
            samples=self.samples or ["(none)"],
            distribution=self.dist,
            correspondence_breaks=len(self.corr_breaks),
            translated_from_source=self.translated,
            exhaustive=self.exhaustive,
            notes=self.notes,
        )
        cov.update(self.extra)
        ev = dict(property_id=self.pid, tier=self.tier, seed=self.seed, level="proof", coverage=cov,
                  assumptions=self.assumptions, wall_s=round(time.time() - self.t0, 2), violations=n_viol)
        (EVIDENCE / f"{self.pid}.json").write_text(json.dumps(ev, indent=1, default=str))


def degrees(l):
    """edge ends per vertex, counted from the edge list (never from the lattice's own coordination_numbers, which is itself under test)"""
    import numpy as np
    return np.bincount(np.asarray(l.edges.indices, dtype=np.int64).reshape(-1), minlength=int(l.vertices.positions.shape[0]))
