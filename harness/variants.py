"""Representations of one and the same argument value.  A koala function must return the same result whichever of them it is handed, and must leave each
untouched: dtype (int8 / int64 / float for integer-valued data), memory layout (column-major, strided view), writability, container (list)."""
from __future__ import annotations

import numpy as np


def of_array(a, lists=False, floats=True):
    a = np.asarray(a)
    out = []
    if a.dtype.kind in "iu" or (a.dtype.kind == "f" and a.size and np.all(a == np.round(a)) and np.all(np.abs(a) < 100)):
        for dt in (np.int8, np.int32, np.int64):
            if a.size == 0 or (np.all(a >= np.iinfo(dt).min) and np.all(a <= np.iinfo(dt).max)):
                out.append((f"dtype {np.dtype(dt).name}", a.astype(dt)))
        if floats:                          # the same integer values as doubles (bond variables are often written +-1.0): not for index arrays
            out.append(("dtype float64", a.astype(np.float64)))
    if a.ndim >= 1 and a.size:
        big = np.zeros(tuple(2 * s for s in a.shape), dtype=a.dtype)
        big[tuple(slice(None, None, 2) for _ in a.shape)] = a
        out.append(("strided view", big[tuple(slice(None, None, 2) for _ in a.shape)]))
    if a.ndim == 2:
        out.append(("column-major", np.asfortranarray(a)))
    ro = a.copy(); ro.setflags(write=False)
    out.append(("read-only", ro))
    if lists and a.ndim >= 1:
        out.append(("python list", a.tolist()))
    return out


def untouched(label, before, after):
    b, a = np.asarray(before), np.asarray(after)
    return b.shape == a.shape and np.array_equal(b, a)
