"""T-eff: the effect-IR translator (DESIGN §3a).  For every function of koala an `ast` pass produces a flow-insensitive
effect program (bag of atoms over SSA variable numbers), a points-to certificate and a Lean obligation
`Eff.check prog pt allowed = true := by decide +kernel`, written to lean/KoalaVerif/Generated/Effects.lean on every run.

The classification table of numpy operations (fresh / alias / mutate) below is the trusted part; it is validated dynamically by
the fingerprint correspondence of harness/props/c15.py.  Promoted from notes/prototypes/effects_translator_experiment.py.txt.
"""
import ast, sys, os, json, collections, re
from pathlib import Path

VERIF = Path(__file__).resolve().parent.parent.parent
GEN = VERIF / "lean" / "KoalaVerif" / "Generated"


def _src():
    return os.path.join(os.environ.get("KOALA_REPO", "/repo"), "src", "koala")
MODULES = ["lattice", "graph_utils", "graph_color", "voronization", "hamiltonian", "phase_space", "chern_number",
           "pointsets", "phase_diagrams", "plotting", "example_graphs", "quasicrystals",
           "flux_finder/flux_finder", "flux_finder/pathfinding"]

VIEW_METHODS = {"reshape", "ravel", "squeeze", "view", "transpose", "swapaxes", "T", "real", "imag", "flat", "items", "values", "keys", "get"}
FRESH_METHODS = {"copy", "astype", "flatten", "tolist", "sum", "min", "max", "mean", "any", "all", "argsort", "argmax", "argmin",
                 "conj", "conjugate", "round", "cumsum", "nonzero", "dot", "prod", "format", "join", "split", "count", "index",
                 "uniform", "random", "choice", "pareto", "integers", "normal", "permutation", "transform", "get_linewidths", "get_ylim",
                 "tobytes", "item", "std", "clip", "repeat", "take", "compress", "searchsorted", "query", "solve", "get_model",
                 "get_core", "enum_models", "empty", "gca"}
MUT_METHODS = {"sort", "fill", "resize", "put", "partition", "itemset", "setflags", "byteswap", "append", "extend", "insert",
               "remove", "pop", "clear", "update", "add", "discard", "setdefault", "reverse", "popitem", "shuffle"}
VIEW_FUNCS = {"asarray", "asanyarray", "reshape", "ravel", "squeeze", "transpose", "atleast_1d", "atleast_2d", "broadcast_to",
              "swapaxes", "moveaxis", "diagonal", "real", "imag", "ascontiguousarray", "iter", "zip", "enumerate", "list", "tuple", "reversed"}
MUT_FUNCS = {"put", "copyto", "fill_diagonal", "place", "putmask", "shuffle"}       # np.<f>(arr, ...) mutate first arg
NUMERIC_ATTRS = {"positions", "indices", "crossing", "vectors", "coordination_numbers", "center", "directions", "vertices_", "edges_"}
CACHE_SLOTS = {"_vertices_adjacent_plaquettes", "_edges_adjacent_plaquettes", "plaquettes", "n_plaquettes", "adjacent_plaquettes"}
SHARING_CTORS = {"Lattice", "Vertices", "Edges", "Plaquette", "dict", "PolyCollection", "LineCollection"}


class Fn:
    def __init__(self, mod, node, qual):
        self.mod, self.node, self.qual = mod, node, qual
        self.params = [a.arg for a in node.args.posonlyargs + node.args.args + node.args.kwonlyargs]
        if node.args.vararg: self.params.append(node.args.vararg.arg)
        if node.args.kwarg: self.params.append(node.args.kwarg.arg)


class Analysis:
    """One function at a time; callees inlined through summaries (mut params, return aliases)."""

    def __init__(self, fns):
        self.fns = fns              # name -> Fn   (unqualified; koala has no clashes that matter)
        self.summ = {}              # name -> (set mutated param idx, set returned-alias param idx, uses_global_rng)
        self.stack = []
        self.recursive = set()
        self.site_kinds = {}        # (callee, param index) -> [is the argument surely a numeric array?] over all call sites seen
        self.param_kinds = {}       # (private callee, param index) -> 'num', from a first pass over every function
        self.prov = {}              # provisional summaries of recursive functions

    # ---- per function ----------------------------------------------------------------------
    def summarise(self, name):
        if name in self.summ: return self.summ[name]
        if name in self.stack:                                   # recursion: use the summary found so far, iterate to a fixpoint below
            self.recursive.add(name)
            return (*self.prov.get(name, (set(), set(), False)), None)
        fn = self.fns[name]
        for _ in range(6):
            self.stack.append(name)
            st = FnState(self, fn)
            st.run()
            self.stack.pop()
            new = (st.mut_params(), st.ret_params(), st.global_rng)
            if name not in self.recursive or new == self.prov.get(name):
                break
            self.prov[name] = new
        self.summ[name] = (*new, st)
        return self.summ[name]


class FnState:
    def __init__(self, an, fn):
        self.an, self.fn = an, fn
        self.atoms = []             # ('fresh',x) ('param',x,i) ('alias',x,y) ('mutate',x,lineno,why)
        self.nvars = 0
        self.env = {}               # name -> set of var ids
        self.kind = {}              # var -> 'num' | 'obj' | '?'   (numeric ndarray / object container / unknown)
        self.ret = set()            # vars returned
        self.global_rng = False
        self.local_fns = {}
        self.elts = {}              # container var -> var standing for "any element of it"
        for i, p in enumerate(fn.params):
            v = self.new(); self.atoms.append(("param", v, i)); self.env[p] = {v}
            # a private helper whose every call site inside koala passes a numeric array for this parameter: the parameter is a numeric array
            if an.param_kinds.get((fn.qual, i)) == "num":
                self.kind[v] = "num"

    def new(self):
        self.nvars += 1; return self.nvars - 1

    def elts_of(self, c):
        if c not in self.elts:
            v = self.new(); self.atoms.append(("fresh", v)); self.elts[c] = v
        return self.elts[c]

    def container(self, elem_sets):
        c = self.new(); self.atoms.append(("fresh", c)); self.kind[c] = "list"
        ev = self.elts_of(c)
        for es in elem_sets:
            for x in es: self.atoms.append(("alias", ev, x))
        return c

    def is_list(self, vs):
        return bool(vs) and all(self.kind.get(v) == "list" for v in vs)

    # points-to closure (flow-insensitive)
    def mp(self):
        pts = collections.defaultdict(set)
        for a in self.atoms:
            if a[0] == "param": pts[a[1]].add(a[2])
        changed = True
        while changed:
            changed = False
            for a in self.atoms:
                if a[0] == "alias":
                    before = len(pts[a[1]]); pts[a[1]] |= pts[a[2]]
                    changed |= len(pts[a[1]]) != before
        return pts

    def mut_params(self):
        pts = self.mp(); out = set()
        for a in self.atoms:
            if a[0] == "mutate": out |= pts[a[1]]
        return out

    def mut_sites(self):
        pts = self.mp(); out = []
        for a in self.atoms:
            if a[0] == "mutate" and pts[a[1]]: out.append((sorted(pts[a[1]]), a[2], a[3]))
        return out

    def ret_params(self):
        pts = self.mp(); out = set(); todo = list(self.ret); seen = set()
        while todo:
            v = todo.pop()
            if v in seen: continue
            seen.add(v); out |= pts[v]
            if v in self.elts: todo.append(self.elts[v])
            for a in self.atoms:
                if a[0] == "alias" and a[1] == v and a[2] not in seen: todo.append(a[2])
        return out

    # ---- expressions: return set of vars the value may alias (empty = fresh) ----------------
    def fresh(self):
        v = self.new(); self.atoms.append(("fresh", v)); return v

    def val(self, e):
        """returns set of var ids the expression's value may share memory with"""
        if e is None: return set()
        if isinstance(e, ast.Name):
            return set(self.env.get(e.id, set()))
        if isinstance(e, ast.Attribute):
            if isinstance(e.value, ast.Attribute) and isinstance(e.value.value, ast.Name) and e.value.value.id in ("np", "numpy") and e.value.attr == "random":
                self.global_rng = True
            base = self.val(e.value)
            return base | {self.elts[c] for c in base if c in self.elts}
        if isinstance(e, ast.Subscript):
            base = self.val(e.value)
            self.val(e.slice)
            if self.is_list(base):
                if isinstance(e.slice, ast.Slice): return base
                return {self.elts_of(c) for c in base}
            if self.is_numeric_base(e.value) and self.index_kind(e.slice) == "array":
                return set()            # advanced indexing of a numeric array copies
            return base | {self.elts[c] for c in base if c in self.elts}
        if isinstance(e, ast.Call):
            return self.call(e)
        if isinstance(e, (ast.Tuple, ast.List, ast.Set)):
            return {self.container([self.val(x) for x in e.elts])}
        if isinstance(e, ast.Dict):
            return {self.container([self.val(x) for x in e.values if x is not None])}
        if isinstance(e, ast.IfExp):
            self.val(e.test); return self.val(e.body) | self.val(e.orelse)
        if isinstance(e, ast.Starred):
            return self.val(e.value)
        if isinstance(e, (ast.ListComp, ast.SetComp, ast.GeneratorExp, ast.DictComp)):
            saved = {k: set(v) for k, v in self.env.items()}
            for g in e.generators:
                src = self.val(g.iter); self.bind_target(g.target, src)
                for c in g.ifs: self.val(c)
            out = self.val(e.elt) if not isinstance(e, ast.DictComp) else self.val(e.value)
            self.env = saved
            return {self.container([out])}
        if isinstance(e, ast.Lambda):
            return set()
        if isinstance(e, ast.NamedExpr):
            s = self.val(e.value); self.bind_target(e.target, s); return s
        # arithmetic, comparisons, constants, f-strings, ... evaluate children for effects, result fresh
        for c in ast.iter_child_nodes(e):
            if isinstance(c, ast.expr): self.val(c)
        return set()

    def is_numeric_base(self, e):
        # a numeric ndarray for sure: known numeric attributes, or local names bound to fresh numpy results
        if isinstance(e, ast.Attribute): return e.attr in NUMERIC_ATTRS or e.attr in ("adjacent_plaquettes", "vertices") and False
        if isinstance(e, ast.Name):
            vs = self.env.get(e.id, set())
            return bool(vs) and all(self.kind.get(v) == "num" for v in vs)
        if isinstance(e, ast.Subscript): return self.is_numeric_base(e.value)
        return False

    def index_kind(self, s):
        # 'array' if any component is surely an array / list / boolean mask; else 'basic' (conservative)
        def arr(x):
            if isinstance(x, ast.Attribute): return x.attr in NUMERIC_ATTRS or x.attr in ("adjacent_edges", "adjacent_plaquettes", "edges", "vertices")
            if isinstance(x, ast.Subscript): return arr(x.value) or self.index_kind(x.slice) == "array"
            if isinstance(x, (ast.List, ast.ListComp)): return True
            if isinstance(x, ast.Compare): return True
            if isinstance(x, ast.UnaryOp) and isinstance(x.op, ast.Invert): return True
            if isinstance(x, ast.Call):
                f = x.func
                return isinstance(f, ast.Attribute) and isinstance(f.value, ast.Name) and f.value.id in ("np",) and f.attr in (
                    "where", "nonzero", "arange", "argsort", "array", "unique", "flatnonzero", "argwhere", "isfinite", "any", "all")
            if isinstance(x, ast.Name):
                vs = self.env.get(x.id, set())
                return bool(vs) and all(self.kind.get(v) in ("num", "idx") for v in vs)
            return False
        if isinstance(s, ast.Tuple): return "array" if any(arr(x) for x in s.elts) else "basic"
        return "array" if arr(s) else "basic"

    def call(self, e):
        f = e.func
        argvals = [self.val(a) for a in e.args] + [self.val(k.value) for k in e.keywords]
        allargs = set().union(*argvals) if argvals else set()
        for k in e.keywords:
            if k.arg == "out":
                for v in self.val(k.value): self.atoms.append(("mutate", v, e.lineno, "out="))
        if isinstance(f, ast.Attribute):
            recv = self.val(f.value)
            name = f.attr
            # np.random.* -> global RNG
            if isinstance(f.value, ast.Attribute) and isinstance(f.value.value, ast.Name) and f.value.value.id == "np" and f.value.attr == "random":
                if name != "default_rng": self.global_rng = True
                return set()
            if isinstance(f.value, ast.Name) and f.value.id in ("np", "numpy", "la", "scipy", "mtri", "it", "itertools", "math", "plt", "matplotlib", "csgraph", "warnings", "functools"):
                if name in MUT_FUNCS and argvals:
                    for v in argvals[0]: self.atoms.append(("mutate", v, e.lineno, "np." + name))
                if name in VIEW_FUNCS and argvals: return set(argvals[0])
                if name in ("array", "require", "ascontiguousarray", "asfortranarray") and argvals and \
                        (name != "array" or any(k.arg == "copy" and not (isinstance(k.value, ast.Constant) and k.value.value is True) for k in e.keywords)):
                    return set(argvals[0])          # np.array(x, copy=False), np.require, np.ascontiguousarray: may return x itself
                if name == "apply_along_axis" and e.args:
                    return self.apply_along_axis(e)
                return set()
            if isinstance(f.value, ast.Attribute) and f.value.attr in ("add", "subtract", "multiply") and name == "at":   # np.add.at(a, idx, v)
                for v in (argvals[0] if argvals else ()): self.atoms.append(("mutate", v, e.lineno, "ufunc.at"))
                return set()
            if name in MUT_METHODS:
                for v in recv: self.atoms.append(("mutate", v, e.lineno, "." + name + "()"))
                for v in recv:
                    tgt = v if self.kind.get(v) == "num" else self.elts_of(v)
                    for a in allargs: self.atoms.append(("alias", tgt, a))
                if name in ("pop", "get", "popitem", "setdefault"):
                    return {self.elts_of(v) if self.kind.get(v) == "list" else v for v in recv}
                return set()
            if name in VIEW_METHODS: return recv
            if name == "astype" and any(k.arg == "copy" and not (isinstance(k.value, ast.Constant) and k.value.value is True) for k in e.keywords):
                return recv          # astype(..., copy=False) hands back the receiver itself whenever no cast is needed
            if name in FRESH_METHODS: return set()
            # koala function reached through a module alias (flux_finder.find_flux_sector, graph_utils.make_dual ...)
            if name in self.an.fns: return self.koala_call(name, e, argvals)
            # unknown method: result may alias receiver, assume no mutation
            return recv
        if isinstance(f, ast.Name):
            name = f.id
            if name in self.local_fns:
                return self.inline_local(self.local_fns[name], e, argvals)
            if name in self.an.fns: return self.koala_call(name, e, argvals)
            if name in ("dict", "list", "tuple", "set", "zip", "enumerate", "reversed", "sorted", "iter"):
                elems = []
                for av in argvals:
                    elems.append({self.elts_of(v) if self.kind.get(v) == "list" else v for v in av})
                return {self.container(elems)}
            if name in SHARING_CTORS: return allargs
            if name in VIEW_FUNCS: return allargs
            if name in ("set_first_invalid",): return set()
            return set()            # builtins / third-party constructors: fresh, no mutation (trusted table)
        # call of a call, e.g. np.vectorize(f)(x), idx_mapper(x)
        self.val(f)
        return set()

    def koala_call(self, name, e, argvals):
        mut, ret, grng, _ = self.an.summarise(name)
        self.global_rng |= grng
        fn = self.an.fns[name]
        # map positional + keyword args to param indices
        byidx = {}
        for i, a in enumerate(e.args):
            byidx[i] = argvals[i]
            self.an.site_kinds.setdefault((name, i), []).append(self.is_numeric_base(a) or self.index_kind(a) == "array")
        for j, k in enumerate(e.keywords):
            if k.arg in fn.params:
                byidx[fn.params.index(k.arg)] = argvals[len(e.args) + j]
                self.an.site_kinds.setdefault((name, fn.params.index(k.arg)), []).append(self.is_numeric_base(k.value) or self.index_kind(k.value) == "array")
        for i in mut:
            for v in byidx.get(i, ()): self.atoms.append(("mutate", v, e.lineno, f"call {name} mutates its arg {i}"))
        out = set()
        for i in ret: out |= set(byidx.get(i, ()))
        return out

    def inline_local(self, node, e, argvals):
        # nested def: analyse its body in the current environment with params bound to the arguments
        saved = {k: set(v) for k, v in self.env.items()}
        params = [a.arg for a in node.args.args]
        for p, s in zip(params, argvals): self.env[p] = set(s)
        saved_ret = self.ret; self.ret = set()
        self.block(node.body)
        out = self.ret; self.ret = saved_ret
        self.env = saved
        return out

    def apply_along_axis(self, e):
        # np.apply_along_axis(func, axis, arr, *args): func receives views of arr
        fnode = e.args[0]
        arr = self.val(e.args[2]) if len(e.args) > 2 else set()
        if isinstance(fnode, ast.Name) and fnode.id in self.local_fns:
            node = self.local_fns[fnode.id]
            extra = [self.val(a) for a in e.args[3:]]
            self.inline_local_args(node, [arr] + extra)
        return set()

    def inline_local_args(self, node, argvals):
        saved = {k: set(v) for k, v in self.env.items()}
        params = [a.arg for a in node.args.args]
        for p, s in zip(params, argvals): self.env[p] = set(s)
        saved_ret = self.ret; self.ret = set()
        self.block(node.body)
        self.ret = saved_ret; self.env = saved

    # ---- statements ---------------------------------------------------------------------------
    def root_vars(self, target):
        """vars standing for the object written by a store into `target` (the immediate container expression)"""
        return self.val(target.value)

    def bind_target(self, t, srcvars, numeric=None):
        if isinstance(t, ast.Name):
            v = self.new()
            if srcvars:
                for s in srcvars: self.atoms.append(("alias", v, s))
                ks = {self.kind.get(s, "?") for s in srcvars}
                self.kind[v] = ks.pop() if len(ks) == 1 else "?"
                if numeric: self.kind[v] = numeric
            else:
                self.atoms.append(("fresh", v)); self.kind[v] = numeric or "?"
            self.env[t.id] = {v}
        elif isinstance(t, (ast.Tuple, ast.List)):
            inner = set()
            for c in srcvars: inner.add(self.elts_of(c) if self.kind.get(c) == "list" else c)
            for x in t.elts: self.bind_target(x, inner, numeric)
        elif isinstance(t, ast.Starred):
            self.bind_target(t.value, srcvars, numeric)
        elif isinstance(t, ast.Subscript):
            for v in self.root_vars(t):
                self.atoms.append(("mutate", v, t.lineno, "subscript store"))
                if self.kind.get(v) == "num": continue          # numeric arrays store values, not references
                tgt = self.elts_of(v) if self.kind.get(v) == "list" else v
                for s in srcvars: self.atoms.append(("alias", tgt, s))
            self.val(t.slice)
        elif isinstance(t, ast.Attribute):
            cache = t.attr in CACHE_SLOTS
            for v in self.root_vars(t):
                if not cache: self.atoms.append(("mutate", v, t.lineno, "attribute store ." + t.attr))
                ev = self.elts_of(v)
                for s in srcvars: self.atoms.append(("alias", ev, s))

    def numeric_result(self, e):
        """does the expression surely produce a fresh numeric ndarray? (used to allow fancy-index copies of locals)"""
        if isinstance(e, ast.Call):
            f = e.func
            if isinstance(f, ast.Attribute) and isinstance(f.value, ast.Name) and f.value.id == "np":
                return "num"
            if isinstance(f, ast.Attribute) and f.attr in ("copy", "astype", "flatten"): return "num"
        if isinstance(e, ast.BinOp): return "num"
        if isinstance(e, ast.Subscript) and self.is_numeric_base(e.value): return "num"
        if isinstance(e, ast.Attribute) and e.attr in NUMERIC_ATTRS: return "num"
        return None

    def block(self, body):
        for s in body: self.stmt(s)

    def merge(self, a, b):
        out = {}
        for k in set(a) | set(b): out[k] = set(a.get(k, set())) | set(b.get(k, set()))
        return out

    def stmt(self, s):
        if isinstance(s, ast.FunctionDef):
            self.local_fns[s.name] = s; return
        if isinstance(s, ast.Assign) and len(s.targets) == 1 and isinstance(s.targets[0], (ast.Tuple, ast.List)) \
                and isinstance(s.value, (ast.Tuple, ast.List)) and len(s.value.elts) == len(s.targets[0].elts):
            for t, v in zip(s.targets[0].elts, s.value.elts):      # a, b = x, y  element-wise
                self.stmt(ast.Assign(targets=[t], value=v, lineno=s.lineno))
            return
        if isinstance(s, ast.Assign):
            src = self.val(s.value); num = self.numeric_result(s.value)
            for t in s.targets:
                self.bind_target(t, src, num)
                if isinstance(t, ast.Name) and num and src:      # alias of a numeric thing keeps kind
                    for v in self.env[t.id]: self.kind[v] = "num"
            return
        if isinstance(s, ast.AnnAssign):
            if s.value is not None: self.bind_target(s.target, self.val(s.value), self.numeric_result(s.value))
            return
        if isinstance(s, ast.AugAssign):
            src = self.val(s.value)
            if isinstance(s.target, ast.Name):
                for v in self.env.get(s.target.id, set()): self.atoms.append(("mutate", v, s.lineno, "augmented assignment"))
            else:
                for v in self.root_vars(s.target): self.atoms.append(("mutate", v, s.lineno, "augmented subscript/attr store"))
            return
        if isinstance(s, ast.Return):
            self.ret |= self.val(s.value); return
        if isinstance(s, ast.Expr):
            self.val(s.value); return
        if isinstance(s, ast.If):
            self.val(s.test)
            e0 = {k: set(v) for k, v in self.env.items()}
            self.block(s.body); e1 = self.env
            self.env = {k: set(v) for k, v in e0.items()}
            self.block(s.orelse); e2 = self.env
            self.env = self.merge(e1, e2); return
        if isinstance(s, (ast.For, ast.While)):
            for _ in range(2):                   # twice: loop-carried aliases
                e0 = {k: set(v) for k, v in self.env.items()}
                if isinstance(s, ast.For):
                    it = self.val(s.iter)
                    self.bind_target(s.target, {self.elts_of(c) if self.kind.get(c) == "list" else c for c in it})
                else:
                    self.val(s.test)
                self.block(s.body)
                self.env = self.merge(e0, self.env)
            self.block(s.orelse); return
        if isinstance(s, ast.With):
            for it in s.items:
                src = self.val(it.context_expr)
                if it.optional_vars is not None: self.bind_target(it.optional_vars, src)
            self.block(s.body); return
        if isinstance(s, ast.Try):
            self.block(s.body)
            for h in s.handlers: self.block(h.body)
            self.block(s.orelse); self.block(s.finalbody); return
        if isinstance(s, (ast.Raise, ast.Assert)):
            for c in ast.iter_child_nodes(s):
                if isinstance(c, ast.expr): self.val(c)
            return
        if isinstance(s, ast.Delete): return
        # pass, import, global, etc.

    def run(self):
        self.block(self.fn.node.body)


def collect():
    fns = {}
    for m in MODULES:
        tree = ast.parse(open(os.path.join(_src(), m + ".py")).read())
        for node in tree.body:
            if isinstance(node, ast.FunctionDef):
                fns[node.name] = Fn(m, node, node.name)
            if isinstance(node, ast.ClassDef):
                for sub in node.body:
                    if isinstance(sub, ast.FunctionDef):
                        fns[node.name + "." + sub.name] = Fn(m, sub, node.name + "." + sub.name)
    return fns




def lean_name(mod, name):
    return re.sub(r"[^A-Za-z0-9_]", "_", f"{mod}__{name}")


SELF_MUTATORS = {"Lattice.__init__", "Lattice.__setstate__"}      # constructors initialise `self` (parameter 0)


def analyse_all():
    """returns rows: dict(mod, name, lean, public, params, atoms, pt (var->mask), allowed, mut_sites, global_rng)"""
    fns = collect()
    # pass 1: collect, for every call of a koala function inside koala, whether each argument is surely a numeric array
    an0 = Analysis(fns)
    for name in fns:
        an0.summarise(name)
    an = Analysis(fns)
    for (callee, i), flags in an0.site_kinds.items():
        short = callee.split(".")[-1]
        if short.startswith("_") and not short.startswith("__") and flags and all(flags):
            an.param_kinds[(callee, i)] = "num"
    rows = []
    for name, fn in sorted(fns.items(), key=lambda kv: (kv[1].mod, kv[1].node.lineno)):
        mut, ret, grng, st = an.summarise(name)
        short = name.split(".")[-1]
        public = not short.startswith("_") or name in SELF_MUTATORS
        pts = st.mp()
        allowed = 0
        if name in SELF_MUTATORS:
            allowed = 1
        elif not public:
            for i in mut:
                allowed |= 1 << i                      # a private helper may update what its own summary says (callers are checked against it)
        rows.append(dict(mod=fn.mod, name=name, lean=lean_name(fn.mod, name), public=public, params=fn.params, atoms=list(st.atoms),
                         pt={v: sum(1 << i for i in s) for v, s in pts.items() if s}, allowed=allowed,
                         mut=sorted(mut), mut_sites=st.mut_sites(), global_rng=bool(grng or st.global_rng),
                         takes_rng=any(p in ("rng", "generator") for p in fn.params)))
    return rows


def emit_atom(a, rng_flag=False):
    if a[0] == "fresh": return f".bindFresh {a[1]}"
    if a[0] == "param": return f".bindParam {a[1]} {a[2]}"
    if a[0] == "alias": return f".bindAlias {a[1]} {a[2]}"
    if a[0] == "mutate": return f".mutate {a[1]}"
    raise ValueError(a)


def generate():
    rows = analyse_all()
    out = ["/- generated by harness/translate/effects.py from /repo/src/koala — do not edit; regenerated on every run -/",
           "import KoalaVerif.Model.Effects", "set_option maxRecDepth 100000", "namespace GenEff", "open Eff", ""]
    report = []
    for r in rows:
        atoms = [emit_atom(a) for a in r["atoms"]]
        if r["global_rng"]:
            atoms.append(".useGlobalRng")
        n = r["lean"]
        out.append(f"/-- {r['mod']}.py: {r['name']}({', '.join(r['params'])}) -/")
        out.append(f"def {n}_prog : List Atom := [" + ", ".join(atoms) + "]")
        out.append(f"def {n}_pt : List (Nat × Nat) := [" + ", ".join(f"({v}, {m})" for v, m in sorted(r["pt"].items())) + "]")
        out.append(f"theorem {n}_ok : check {n}_prog (ptOf {n}_pt) {r['allowed']} = true := by decide +kernel")
        if r["takes_rng"]:
            out.append(f"theorem {n}_rng : noGlobalRng {n}_prog = true := by decide +kernel")
        out.append("")
        report.append(dict(function=f"{r['mod']}:{r['name']}", public=r["public"], atoms=len(r["atoms"]), allowed_params=r["mut"] if r["allowed"] else [],
                           global_rng=r["global_rng"], takes_rng=r["takes_rng"],
                           flagged=[dict(params=ps, line=ln, why=why) for ps, ln, why in r["mut_sites"]][:5] if (r["public"] and r["mut"] and not r["allowed"]) else []))
    out.append("end GenEff")
    text = "\n".join(out) + "\n"
    GEN.mkdir(parents=True, exist_ok=True)
    p = GEN / "Effects.lean"
    changed = (not p.exists()) or p.read_text() != text
    if changed:
        p.write_text(text)
    return dict(functions=report, changed=changed, n_functions=len(rows), n_public=sum(r["public"] for r in rows),
                n_atoms=sum(len(r["atoms"]) for r in rows))


if __name__ == "__main__":
    rep = generate()
    print(json.dumps({k: v for k, v in rep.items() if k != "functions"}))
    for f in rep["functions"]:
        if f["flagged"] or f["global_rng"] or f["allowed_params"]:
            print(f)
