"""T-int / T-const translators: regenerate Lean definitions from /repo's working tree on every run.

`regenerate_all()` writes lean/KoalaVerif/Generated/Kernels.lean (integer kernels in a normal form) and
lean/KoalaVerif/Generated/Tables.lean (literal tables).  The theorems in Props/* are stated about these
generated definitions, so an edit of the source that changes what a kernel computes either leaves
the theorem provable or breaks `lake build`.

Normal form (sound for Python's exact integers): temporaries inlined, `+`/`*` flattened with sorted
operands, `a-b` = `a+(-b)`, `>`/`>=` turned round, both sides of `=`/`!=` ordered.  Python `//`,`%`
are `Int.fdiv`,`Int.fmod` (floor semantics for every sign); `bool*int` goes through `b2i`.
"""
from __future__ import annotations

import ast
import os
from pathlib import Path

VERIF = Path(__file__).resolve().parent.parent.parent
GEN = VERIF / "lean" / "KoalaVerif" / "Generated"


def src_dir():
    return Path(os.environ.get("KOALA_REPO", "/repo")) / "src" / "koala"


class Untranslatable(Exception):
    pass


class T:
    def __init__(self, fn, tuple_params=None, consts=None):
        self.fn = fn
        self.tp = tuple_params or {}        # param name -> arity (passed as name0, name1, ...)
        self.lets = {}
        self.consts = consts or {}

    def params(self):
        out = []
        for a in self.fn.args.args:
            if a.arg in self.tp:
                out += [f"{a.arg}{i}" for i in range(self.tp[a.arg])]
            else:
                out.append(a.arg)
        return out

    # expression trees: ('c',int) ('v',name) ('b',bool) ('+',[..]) ('*',[..]) ('neg',x) ('fdiv',a,b)
    # ('fmod',a,b) ('pow',a,b) ('cmp',op,a,b) ('tup',[..]) ('b2i',x) ('and',[..]) ('or',[..]) ('not',x)
    def tree(self, e):
        if isinstance(e, ast.Constant) and isinstance(e.value, bool):
            return ("b", e.value)
        if isinstance(e, ast.Constant) and isinstance(e.value, int):
            return ("c", e.value)
        if isinstance(e, ast.Name):
            if e.id in self.lets:
                return self.lets[e.id]
            return ("v", e.id)
        if isinstance(e, ast.Subscript) and isinstance(e.value, ast.Name):
            s = e.slice
            if isinstance(s, ast.Constant) and isinstance(s.value, int):
                return ("v", f"{e.value.id}{s.value}")
            # column access  a[:, k]  (elementwise kernels over the rows of an array)
            if isinstance(s, ast.Tuple) and len(s.elts) == 2 and isinstance(s.elts[0], ast.Slice) \
                    and isinstance(s.elts[1], ast.Constant):
                return ("v", f"{e.value.id}{s.elts[1].value}")
        if isinstance(e, ast.Call) and isinstance(e.func, ast.Attribute) and e.func.attr == "astype":
            return self.tree(e.func.value)           # dtype casts of in-range integers are the identity
        if isinstance(e, ast.UnaryOp) and isinstance(e.op, ast.USub):
            return ("neg", self.itree(e.operand))
        if isinstance(e, ast.UnaryOp) and isinstance(e.op, ast.Not):
            return ("not", self.tree(e.operand))
        if isinstance(e, ast.BinOp):
            a, b = self.itree(e.left), self.itree(e.right)
            if isinstance(e.op, ast.Add): return ("+", [a, b])
            if isinstance(e.op, ast.Sub): return ("+", [a, ("neg", b)])
            if isinstance(e.op, ast.Mult): return ("*", [a, b])
            if isinstance(e.op, ast.FloorDiv): return ("fdiv", a, b)
            if isinstance(e.op, ast.Mod): return ("fmod", a, b)
            if isinstance(e.op, ast.Pow): return ("pow", a, b)
            if isinstance(e.op, ast.BitAnd): return ("and", [self.tree(e.left), self.tree(e.right)])
            if isinstance(e.op, ast.BitOr): return ("or", [self.tree(e.left), self.tree(e.right)])
        if isinstance(e, ast.BoolOp):
            return ("and" if isinstance(e.op, ast.And) else "or", [self.tree(v) for v in e.values])
        if isinstance(e, ast.Compare) and len(e.ops) == 1:
            op = {ast.Eq: "=", ast.NotEq: "≠", ast.Lt: "<", ast.LtE: "≤", ast.Gt: ">", ast.GtE: "≥"}.get(type(e.ops[0]))
            if op:
                return ("cmp", op, self.itree(e.left), self.itree(e.comparators[0]))
        if isinstance(e, (ast.List, ast.Tuple)):
            return ("tup", [self.itree(x) for x in e.elts])
        raise Untranslatable(ast.dump(e)[:200])

    def isbool(self, t):
        return t[0] in ("b", "cmp", "and", "or", "not")

    def itree(self, e):
        t = self.tree(e)
        return ("b2i", t) if self.isbool(t) else t

    def norm(self, t):
        k = t[0]
        if k in ("c", "v", "b"):
            return t
        if k == "neg":
            x = self.norm(t[1])
            if x[0] == "c": return ("c", -x[1])
            if x[0] == "neg": return x[1]
            return ("neg", x)
        if k in ("+", "*", "and", "or"):
            items = []
            for x in t[1]:
                x = self.norm(x)
                if x[0] == k: items += x[1]
                else: items.append(x)
            if k == "+":
                consts = sum(x[1] for x in items if x[0] == "c")
                items = [x for x in items if x[0] != "c"]
                if consts: items.append(("c", consts))
                if not items: return ("c", 0)
            if len(items) == 1: return items[0]
            return (k, sorted(items, key=self.show))
        if k == "cmp":
            a, b = self.norm(t[2]), self.norm(t[3])
            if t[1] in ("=", "≠") and self.show(b) < self.show(a): a, b = b, a
            if t[1] == ">": return ("cmp", "<", b, a)
            if t[1] == "≥": return ("cmp", "≤", b, a)
            return ("cmp", t[1], a, b)
        if k in ("fdiv", "fmod", "pow"):
            return (k, self.norm(t[1]), self.norm(t[2]))
        if k == "tup":
            return ("tup", [self.norm(x) for x in t[1]])
        if k in ("b2i", "not"):
            return (k, self.norm(t[1]))
        raise Untranslatable(k)

    def show(self, t):
        k = t[0]
        if k == "c": return f"({t[1]} : Int)"
        if k == "v": return t[1]
        if k == "b": return "true" if t[1] else "false"
        if k == "neg": return f"(-{self.show(t[1])})"
        if k == "+": return "(" + " + ".join(self.show(x) for x in t[1]) + ")"
        if k == "*": return "(" + " * ".join(self.show(x) for x in t[1]) + ")"
        if k == "and": return "(" + " && ".join(self.show(x) for x in t[1]) + ")"
        if k == "or": return "(" + " || ".join(self.show(x) for x in t[1]) + ")"
        if k == "not": return f"(!{self.show(t[1])})"
        if k == "fdiv": return f"(Int.fdiv {self.show(t[1])} {self.show(t[2])})"
        if k == "fmod": return f"(Int.fmod {self.show(t[1])} {self.show(t[2])})"
        if k == "pow": return f"(pyPow {self.show(t[1])} {self.show(t[2])})"
        if k == "cmp": return f"(decide ({self.show(t[2])} {t[1]} {self.show(t[3])}))"
        if k == "tup": return "(" + ", ".join(self.show(x) for x in t[1]) + ")"
        if k == "b2i": return f"(b2i {self.show(t[1])})"
        raise Untranslatable(k)

    def run(self, name=None, ret_var=None, stop_at=None):
        """translate the straight-line body; the result is the `return` expression (or variable `ret_var`)"""
        self.lets = {}
        ret = None
        for s in self.fn.body:
            if isinstance(s, ast.Expr) and isinstance(s.value, ast.Constant):
                continue     # docstring
            if ret_var == "@nonzero":
                # the result is whatever boolean / 0-1 mask the function hands to np.nonzero / np.where / np.flatnonzero, however it is named or nested
                call = next((n for n in ast.walk(s) if isinstance(n, ast.Call) and isinstance(n.func, ast.Attribute)
                             and n.func.attr in ("nonzero", "where", "flatnonzero") and len(n.args) == 1), None)
                if call is not None:
                    ret = self.tree(call.args[0])
                    break
            if isinstance(s, ast.Assign) and len(s.targets) == 1 and isinstance(s.targets[0], ast.Name):
                try:
                    self.lets[s.targets[0].id] = self.tree(s.value)
                except Untranslatable:
                    if ret_var is None:
                        raise
                    continue          # statement outside the subset: only matters if the result uses it
                if ret_var and s.targets[0].id == ret_var:
                    ret = self.lets[ret_var]
                    break
            elif isinstance(s, ast.Return) and ret_var is None:
                ret = self.tree(s.value)
                break
            elif ret_var is None:
                raise Untranslatable(ast.dump(s)[:200])
        if ret is None:
            raise Untranslatable(f"no result found for {name}")
        t = self.norm(("b2i", ret) if (self.isbool(ret) and (ret_var is None or ret_var == "@nonzero")) else ret)
        if t[0] == "tup":
            rty = " × ".join(["Int"] * len(t[1]))
        elif self.isbool(t):
            rty = "Bool"
        else:
            rty = "Int"
        return t, rty


_PINNED = None


def pinned():
    """translations of the pinned source (committed: harness/translate/pinned.json), used only when the current source cannot be translated"""
    global _PINNED
    if _PINNED is None:
        import json
        p = Path(__file__).parent / "pinned.json"
        _PINNED = json.loads(p.read_text()) if p.exists() else {}
    return _PINNED


def find_fn(tree, name, inside=None):
    scope = tree
    if inside:
        scope = find_fn(tree, inside)
    for n in ast.walk(scope):
        if isinstance(n, ast.FunctionDef) and n.name == name:
            return n
    raise Untranslatable(f"function {name} not found")


def free_vars(t, acc):
    if t[0] == "v":
        acc.add(t[1])
    for x in t[1:]:
        if isinstance(x, tuple):
            free_vars(x, acc)
        elif isinstance(x, list):
            for y in x:
                if isinstance(y, tuple):
                    free_vars(y, acc)
    return acc


KERNELS = [
    # (lean name, file, function, enclosing function, tuple params, ret_var, explicit param order or None)
    ("next_cell_number", "example_graphs.py", "_next_cell_number", None, {"shift": 2}, None, None),
    ("crossing", "example_graphs.py", "_crossing", None, {"shift": 2}, None, None),
    ("ground_state_ansatz", "example_graphs.py", "ground_state_ansatz", None, {}, None, None),
    ("honeycomb_next_direction", "example_graphs.py", "next_direction", "honeycomb_lattice", {"shift": 2}, None, None),
    ("hso_next_direction", "example_graphs.py", "next_direction", "hex_square_oct_lattice", {"shift": 2}, None, None),
    ("fluxes_to_labels", "flux_finder/flux_finder.py", "fluxes_to_labels", None, {}, None, None),
    # the keep-mask of cut_boundaries, elementwise in (crossing0, crossing1), boundary_to_cut as two 0/1 integers
    ("cut_keep", "lattice.py", "cut_boundaries", None, {}, "@nonzero", ["crossing0", "crossing1", "boundary_to_cut0", "boundary_to_cut1"]),
]


def translate_kernels():
    out = ["/- generated by harness/translate from /repo/src/koala — do not edit; regenerated on every run -/",
           "namespace Gen",
           "def b2i (b : Bool) : Int := if b then 1 else 0",
           "def pyPow (a b : Int) : Int := a ^ b.toNat", ""]
    report = []
    trees = {}
    for lean_name, fname, fn, inside, tp, ret_var, order in KERNELS:
        try:
            if fname not in trees:
                trees[fname] = ast.parse((src_dir() / fname).read_text())
            f = find_fn(trees[fname], fn, inside)
            tr = T(f, tp)
            t, rty = tr.run(lean_name, ret_var)
            if order is None:
                ps = tr.params()
            else:
                ps = order
            fv = free_vars(t, set())
            if not fv <= set(ps):
                raise Untranslatable(f"free variables {sorted(fv - set(ps))}")
            out.append(f"def {lean_name} ({' '.join(ps)} : Int) : {rty} :=\n  {tr.show(t)}\n")
            report.append(dict(kernel=lean_name, source=f"{fname}:{fn}", ok=True))
        except (Untranslatable, OSError, SyntaxError, KeyError) as ex:
            pin = pinned().get("kernels", {}).get(lean_name)
            if pin:
                # the function was renamed, merged, inlined or left the translatable subset: the theorems are then checked against the translation of the
                # pinned source, and the tie for this kernel is the exact correspondence of the property's harness alone (reported as a downgrade, see DESIGN 3a)
                out.append(f"-- {lean_name}: NOT TRANSLATABLE from the current source ({str(ex)[:120]}); pinned translation:\n{pin}\n")
                report.append(dict(kernel=lean_name, source=f"{fname}:{fn}", ok=False, fallback=True, why=str(ex)[:200]))
            else:
                out.append(f"-- {lean_name}: NOT TRANSLATABLE: {str(ex)[:150]}\n")
                report.append(dict(kernel=lean_name, source=f"{fname}:{fn}", ok=False, why=str(ex)[:200]))
    out.append("end Gen")
    return "\n".join(out) + "\n", report


# ---- T-const: literal tables -------------------------------------------------------------------


def literal(node):
    return ast.literal_eval(node)


def find_assign(fn, name):
    for n in ast.walk(fn):
        if isinstance(n, ast.Assign) and len(n.targets) == 1 and isinstance(n.targets[0], ast.Name) and n.targets[0].id == name:
            return n.value
    raise Untranslatable(f"assignment to {name} not found")


def np_array_literal(node):
    """np.array(<literal>)  ->  python literal"""
    if isinstance(node, ast.Call) and getattr(node.func, "attr", None) == "array":
        return literal(node.args[0])
    return literal(node)


def lean_list(x):
    if isinstance(x, (list, tuple)):
        return "[" + ", ".join(lean_list(y) for y in x) + "]"
    if isinstance(x, bool):
        return "true" if x else "false"
    return f"({x} : Int)" if isinstance(x, int) and x < 0 else str(x)


def translate_tables():
    out = ["/- generated by harness/translate from /repo/src/koala — do not edit; regenerated on every run -/",
           "namespace GenT", ""]
    report = []

    def emit(name, ty, value_fn, source):
        try:
            v = value_fn()
            out.append(f"def {name} : {ty} := {v}\n")
            report.append(dict(table=name, source=source, ok=True))
        except Exception as ex:     # any failure = not translatable, reported
            pin = pinned().get("tables", {}).get(name)
            if pin:
                out.append(f"-- {name}: NOT TRANSLATABLE from the current source ({str(ex)[:120]}); pinned translation:\n{pin}\n")
                report.append(dict(table=name, source=source, ok=False, fallback=True, why=str(ex)[:200]))
            else:
                out.append(f"-- {name}: NOT TRANSLATABLE: {str(ex)[:150]}\n")
                report.append(dict(table=name, source=source, ok=False, why=str(ex)[:200]))

    eg = ast.parse((src_dir() / "example_graphs.py").read_text())
    ff = ast.parse((src_dir() / "flux_finder" / "flux_finder.py").read_text())
    lat = ast.parse((src_dir() / "lattice.py").read_text())

    def pairs(x):
        return "[" + ", ".join(f"(({a} : Int), ({b} : Int))" for a, b in x) + "]"

    def npairs(x):
        return "[" + ", ".join(f"({a}, {b})" for a, b in x) + "]"

    trinon = find_fn(eg, "tri_non_lattice")
    emit("trinon_edges", "List (Nat × Nat)", lambda: npairs(np_array_literal(find_assign(trinon, "unit_edges"))), "example_graphs.py:tri_non_lattice.unit_edges")
    emit("trinon_crossing", "List (Int × Int)", lambda: pairs(np_array_literal(find_assign(trinon, "unit_crossing"))), "example_graphs.py:tri_non_lattice.unit_crossing")

    def trinon_col():
        v = find_assign(trinon, "coloring")          # np.array([1,2,0,1,2,0] * nx * ny)
        lst = v.args[0]
        while isinstance(lst, ast.BinOp):
            lst = lst.left
        return lean_list(literal(lst))
    emit("trinon_coloring", "List Nat", trinon_col, "example_graphs.py:tri_non_lattice.coloring")

    honey = find_fn(eg, "honeycomb_lattice")
    emit("honey_internal", "List (Nat × Nat)", lambda: npairs(np_array_literal(find_assign(honey, "internal_ed"))), "example_graphs.py:honeycomb_lattice.internal_ed")

    def honey_col():
        v = find_assign(honey, "coloring").args[0]   # [0,2,0]*nv*nh + [1,1]*nv*nh + [2]*nv*nh
        parts = []
        def walk(n):
            if isinstance(n, ast.BinOp) and isinstance(n.op, ast.Add):
                walk(n.left); walk(n.right)
            else:
                m = n
                while isinstance(m, ast.BinOp):
                    m = m.left
                parts.append(literal(m))
        walk(v)
        return lean_list(parts)
    emit("honey_coloring_blocks", "List (List Nat)", honey_col, "example_graphs.py:honeycomb_lattice.coloring")

    hso = find_fn(eg, "hex_square_oct_lattice")
    emit("hso_internal", "List (Nat × Nat)", lambda: npairs(np_array_literal(find_assign(hso, "internal_ed"))), "example_graphs.py:hex_square_oct_lattice.internal_ed")

    fb = find_fn(ff, "fluxes_from_bonds")
    emit("sign_real", "List Int", lambda: "[" + ", ".join(f"({x} : Int)" for x in np_array_literal(find_assign(fb, "sign_real"))) + "]",
         "flux_finder.py:fluxes_from_bonds.sign_real")

    def dtype_ladder():
        gs = find_fn(lat, "__getstate__")
        for n in ast.walk(gs):
            if isinstance(n, ast.For) and isinstance(n.iter, ast.List):
                names = [e.attr for e in n.iter.elts]
                widths = [int(x.replace("uint", "")) for x in names]
                return lean_list(widths)
        raise Untranslatable("dtype ladder loop not found")
    emit("index_widths", "List Nat", dtype_ladder, "lattice.py:__getstate__ dtype ladder")

    def crossing_width():
        gs = find_fn(lat, "__getstate__")
        for n in ast.walk(gs):
            if isinstance(n, ast.Call) and getattr(n.func, "id", None) == "check_fits":
                return str(int(n.args[1].attr.replace("int", "")))
        raise Untranslatable("check_fits call not found")
    emit("crossing_width", "Nat", crossing_width, "lattice.py:__getstate__ check_fits")

    out.append("end GenT")
    return "\n".join(out) + "\n", report


def write_if_changed(path: Path, text: str):
    path.parent.mkdir(parents=True, exist_ok=True)
    if not path.exists() or path.read_text() != text:
        path.write_text(text)
        return True
    return False


def regenerate_all():
    k, r1 = translate_kernels()
    t, r2 = translate_tables()
    c1 = write_if_changed(GEN / "Kernels.lean", k)
    c2 = write_if_changed(GEN / "Tables.lean", t)
    rep = dict(kernels=r1, tables=r2, changed=dict(kernels=c1, tables=c2))
    return rep


def regenerate_effects():
    """T-eff: one effect program + certificate + obligation per koala function (Generated/Effects.lean)"""
    from translate import effects
    return effects.generate()


if __name__ == "__main__":
    import json
    print(json.dumps(regenerate_all(), indent=1))
