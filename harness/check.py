#!/venv/bin/python
"""Entry point of every registered check:  check.py <Cxx> --tier quick|thorough [--replay file]

exit 0  = property held on everything explored (KNOWN-FINDING lines possible)
exit 1  = `VIOLATION property=<id> replay=<path>[ no-failing-input-found]` printed
exit 2  = infrastructure failure / timeout (never a verdict)
"""
import argparse
import importlib
import os
import sys
import traceback
from pathlib import Path

HERE = Path(__file__).resolve().parent
sys.path.insert(0, str(HERE))
REPO = Path(os.environ.get("KOALA_REPO", "/repo"))
# the working tree under /repo is what runs, whatever is installed in the venv
sys.path.insert(0, str(REPO / "src"))
os.environ["PYTHONPATH"] = str(REPO / "src") + os.pathsep + str(HERE) + os.pathsep + os.environ.get("PYTHONPATH", "")
os.environ.setdefault("MPLBACKEND", "Agg")
os.environ.setdefault("KOALA_VERIF", "1")

import warnings
warnings.simplefilter("ignore")


def main():
    ap = argparse.ArgumentParser()
    ap.add_argument("pid")
    ap.add_argument("--tier", default=os.environ.get("VERIF_TIER", "quick"), choices=["quick", "thorough"])
    ap.add_argument("--replay", default=None)
    a = ap.parse_args()
    seed = int(os.environ.get("VERIF_SEED", "0"))
    import core
    import koala
    assert Path(koala.__file__).resolve().is_relative_to(REPO.resolve()), f"koala imported from {koala.__file__}, not {REPO}"
    ctx = core.Ctx(a.pid, a.tier, seed)
    mod = importlib.import_module(f"props.{a.pid.lower()}")
    try:
        if a.replay:
            rc = mod.replay(ctx, a.replay)
            sys.exit(rc)
        import subprocess
        try:
            mod.run(ctx)
        except (core.InfrastructureError, subprocess.TimeoutExpired, FileNotFoundError, MemoryError):
            raise
        except Exception as ex:
            # the harness could not process what the implementation did (it never happens on the unchanged tree): the
            # correspondence is broken; whatever failing inputs were found before this point are still reported
            tb = traceback.format_exc()
            print(tb)
            ctx.corr_break(f"harness aborted while exercising the implementation: {type(ex).__name__}: {ex}", dict(traceback=tb[-3000:]))
        rc = ctx.finish()
    except Exception:
        traceback.print_exc()
        print(f"[{a.pid}] infrastructure failure (exit 2)")
        sys.exit(2)
    sys.exit(rc)


if __name__ == "__main__":
    main()
