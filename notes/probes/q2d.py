import numpy as np, warnings, sys
warnings.simplefilter("ignore")
from koala import phase_diagrams as pd
for s in [2,3,4,7,10]:
    tp, tri = pd.get_triangular_sampling_points(s)
    u = np.unique(np.round(tp,12),axis=0)
    print("sym sampling", s, len(tp), len(u), [len(t.x) for t in tri][:2], tp.min(), np.abs(tp.sum(1)-1).max(), flush=True)
    tp2, tri2 = pd.get_non_symmetric_triangular_sampling_points(s)
    print("  nonsym", len(tp2), len(tri2.x), tp2.min(), np.abs(tp2.sum(1)-1).max(), flush=True)
