import numpy as np, warnings, itertools, pickle
warnings.simplefilter("ignore")
from koala import example_graphs as eg, graph_utils as gu, voronization as vz
from koala.lattice import Lattice, INVALID, cut_boundaries, permute_vertices
rng = np.random.default_rng(33)
def canon_plaqs(l):
    out=[]
    for p in l.plaquettes:
        f=[(int(e),int(d)) for e,d in zip(p.edges,p.directions)]
        i=f.index(min(f)); out.append(tuple(f[i:]+f[:i]))
    return out
def check_tables(l,name):
    bad=[]
    E=l.n_edges; V=l.n_vertices
    ei=l.edges.indices
    # incident lists complete
    for v in range(V):
        want = sorted(np.where((ei[:,0]==v)|(ei[:,1]==v))[0].tolist())
        got = sorted(l.vertices.adjacent_edges[v].tolist())
        if want!=got: bad.append("inc%d"%v)
    deg = np.bincount(ei.flatten(),minlength=V)
    cn = l.vertices.coordination_numbers
    if len(cn)!=V or np.any(cn!=deg[:len(cn)]): bad.append("coord len %d vs %d"%(len(cn),V))
    ev = l.vertices.positions[ei[:,1]]-l.vertices.positions[ei[:,0]]+l.edges.crossing
    if not np.allclose(ev,l.edges.vectors): bad.append("vec")
    for e in range(E):
        want = sorted(x for x in range(E) if x!=e and set(ei[x])&set(ei[e]))
        if want!=sorted(l.edges.adjacent_edges[e].tolist()): bad.append("en%d"%e)
        if want!=sorted(gu.edge_neighbours(l,e).tolist()): bad.append("enq%d"%e)
    P=l.plaquettes
    ap = np.full((E,2),INVALID)
    for n,p in enumerate(P):
        for e,d in zip(p.edges,p.directions): 
            col = 0 if d==1 else 1
            if ap[e,col]!=INVALID: bad.append("dart twice")
            ap[e,col]=n
    if not np.array_equal(ap,l.edges.adjacent_plaquettes): bad.append("edge->plaq")
    vp = l.vertices.adjacent_plaquettes
    for v in range(V):
        want = sorted(n for n,p in enumerate(P) if v in p.vertices)
        got = sorted(x for x in vp[v].tolist() if x!=INVALID) if len(vp)>v else None
        if want!=got: bad.append("v->plaq %d %s %s"%(v,want,got))
    for n,p in enumerate(P):
        want=[ap[e,1] if d==1 else ap[e,0] for e,d in zip(p.edges,p.directions)]
        if want!=p.adjacent_plaquettes.tolist(): bad.append("p->p %d"%n)
        if len(P)>0:
            q,es = gu.adjacent_plaquettes(l,n)
            w2=[(x,e) for x,e in zip(want,p.edges.tolist()) if x!=INVALID]
            if [(int(a),int(b)) for a,b in zip(q,es)]!=[(int(a),int(b)) for a,b in w2]: bad.append("adjplaq helper %d"%n)
    A=l.adjacency_matrix
    W=np.zeros((V,V),bool); W[ei[:,0],ei[:,1]]=True; W|=W.T
    if not np.array_equal(A,W): bad.append("adjmat")
    for v in range(V):
        vi,eidx = gu.vertex_neighbours(l,v)
        for a,e in zip(vi,eidx):
            if set(ei[e].tolist())!={v,int(a)} and not (ei[e][0]==ei[e][1]): bad.append("vn%d"%v)
        if len(eidx)>0:
            ov,oe = gu.clockwise_about(v,l)
            row = l.vertices.adjacent_edges[v].tolist()
            oe=oe.tolist()
            if sorted(oe)!=sorted(row): bad.append("cw set %d"%v)
            else:
                r=row[::-1]; k=r.index(oe[0]); 
                if r[k:]+r[:k]!=oe: bad.append("cw order %d %s %s"%(v,row,oe))
    if bad: print(name,"BAD",bad[:6])
    return not bad
def zoo():
    yield "tsp",eg.tri_square_pent(); yield "tt",eg.two_triangles(); yield "tutte",eg.tutte_graph(); yield "ladder",eg.n_ladder(6,True); yield "bridge",eg.bridge_graph()
    yield "wheel9",eg.higher_coordination_number_example(9); yield "honey3",eg.honeycomb_lattice(3); yield "honey1",eg.honeycomb_lattice(1); yield "sq23",eg.square_lattice(2,3)
    for t in range(12):
        N=int(rng.integers(2,25)); l=vz.generate_lattice(rng.uniform(size=(N,2)),shift_vertices=bool(t%2)); yield "vor%d"%N,l
        yield "vor%dx"%N,cut_boundaries(l,[True,False]); yield "vor%dxy"%N,cut_boundaries(l)
        keep=rng.random(l.n_edges)<0.6; 
        if keep.sum()>0: yield "vor%dsub"%N,Lattice(l.vertices.positions,l.edges.indices[keep],l.edges.crossing[keep])
ok=0;n=0
for name,l in zoo():
    n+=1; ok+=check_tables(l,name)
print("tables ok",ok,"of",n)
# access orders
attrs=[lambda l:l.plaquettes, lambda l:l.n_plaquettes, lambda l:l.edges.adjacent_plaquettes, lambda l:l.vertices.adjacent_plaquettes]
base=eg.tri_square_pent(); ref=(canon_plaqs(base),base.edges.adjacent_plaquettes.copy(),base.vertices.adjacent_plaquettes.copy())
badorders=0
for perm in itertools.permutations(range(4)):
    for mk in (eg.tri_square_pent, lambda: pickle.loads(pickle.dumps(eg.tri_square_pent()))):
        l=mk()
        try:
            for i in perm: attrs[i](l)
            same = canon_plaqs(l)==ref[0] and np.array_equal(l.edges.adjacent_plaquettes,ref[1]) and np.array_equal(l.vertices.adjacent_plaquettes,ref[2])
        except Exception as e: same=False; print("order",perm,"ERR",type(e).__name__,e)
        badorders+= (not same)
print("bad access orders",badorders)
