import numpy as np, warnings, sys, itertools
warnings.simplefilter("ignore")
from koala import example_graphs as eg, graph_utils as gu, voronization as vz
from koala.lattice import Lattice, INVALID, cut_boundaries
import koala.flux_finder as ff
rng = np.random.default_rng(7)
# C14 spanning tree
def check_tree(l, name, short):
    F = l.n_plaquettes
    t = gu.plaquette_spanning_tree(l, short)
    ok = len(t)==F-1 and len(set(t.tolist()))==F-1 and (-1 not in t)
    ap = l.edges.adjacent_plaquettes[t]
    ok2 = not np.any(ap==INVALID)
    # union find
    par = list(range(F))
    def f(x):
        while par[x]!=x: x=par[x]
        return x
    acyc=True
    for a,b in ap:
        ra,rb=f(a),f(b)
        if ra==rb: acyc=False
        par[ra]=rb
    conn = len({f(x) for x in range(F)})==1
    res=None
    if F<=11:
        u0 = rng.choice([-1,1],size=l.n_edges).astype(np.int8); u00=u0.copy()
        secs=set()
        for n in range(2**(F-1)):
            u = ff.n_to_ujk_flipped(n,u0,t)
            rest = np.delete(np.arange(l.n_edges), t)
            assert np.array_equal(u[rest],u0[rest]) and np.array_equal(u0,u00)
            secs.add(tuple(ff.fluxes_from_ujk(l,u).tolist()))
        res = (len(secs)==2**(F-1))
    print(name, short, "F",F,"len ok",ok,"valid",ok2,"acyclic",acyc,"conn",conn,"sectors",res, flush=True)
for short in [True, False]:
    check_tree(eg.honeycomb_lattice(2),"honey2",short)
    check_tree(eg.honeycomb_lattice(3),"honey3",short)
    check_tree(eg.square_lattice(3,3),"sq33",short)
    check_tree(eg.tri_non_lattice(2),"trinon2",short)
    check_tree(cut_boundaries(eg.honeycomb_lattice(4)),"honey4open",short)
    for n in [9,11,40]:
        l = vz.generate_lattice(rng.uniform(size=(n,2)))
        check_tree(l,"vor%d"%n,short)
