import numpy as np, warnings
warnings.simplefilter("ignore")
from koala import example_graphs as eg, voronization as vz, hamiltonian as hm, phase_space as ps
from koala.lattice import Lattice
rng = np.random.default_rng(2)
def test(cell, name, nx, ny):
    E = cell.n_edges
    u = rng.choice([-1,1],size=E); col = rng.integers(0,3,size=E); J = rng.uniform(0.5,1.5,size=3)
    big = eg.tile_unit_cell(cell.vertices.positions, cell.edges.indices, cell.edges.crossing, [nx,ny])
    H = hm.majorana_hamiltonian(big, np.tile(col,nx*ny), np.tile(u,nx*ny), J)
    ev = np.sort(np.linalg.eigvalsh(H))
    Hk = ps.k_hamiltonian_generator(cell,col,u,J)
    evk = np.sort(np.concatenate([np.linalg.eigvalsh(Hk(np.array([2*np.pi*a/nx,2*np.pi*b/ny]))) for a in range(nx) for b in range(ny)]))
    multi = len(set(map(tuple,np.sort(cell.edges.indices,1).tolist()))) < E
    print(name,nx,ny,"maxdiff %.2e"%np.abs(ev-evk).max(),"multigraph",multi,"herm %.1e"%np.abs(Hk(np.array([.3,.7]))-Hk(np.array([.3,.7])).conj().T).max(), flush=True)
for N in [12,20]:
    cell = vz.generate_lattice(rng.uniform(size=(N,2)))
    test(cell,"vor%d"%N,2,3); test(cell,"vor%d"%N,1,1); test(cell,"vor%d"%N,3,1)
test(eg.honeycomb_lattice(1),"honey1",2,2); test(eg.honeycomb_lattice(2),"honey2",2,3); test(eg.tri_non_lattice(1),"trinon1",3,2); test(eg.hex_square_oct_lattice(1),"hso1",2,2)
test(vz.generate_lattice(rng.uniform(size=(3,2))),"vor3",2,2)
