import numpy as np, warnings, sys, itertools
warnings.simplefilter("ignore")
from collections import Counter
from koala import quasicrystals as qc, plotting as pl
def check(l,name,B,disorder):
    ev = l.edges.vectors; ln = np.linalg.norm(ev,axis=1)
    sides = Counter(p.n_sides for p in l.plaquettes)
    deg = Counter(len(a) for a in l.vertices.adjacent_edges)
    chi = l.n_vertices - l.n_edges + l.n_plaquettes
    ang = (np.arctan2(ev[:,1],ev[:,0]) % (2*np.pi/B*1)) # modulo star spacing... 
    angs = np.arctan2(ev[:,1],ev[:,0]) % np.pi
    # distance to multiples of 2pi/B mod pi
    star = (np.arange(B)*2*np.pi/B) % np.pi
    dmin = np.min(np.abs(((angs[:,None]-star[None,:]) + np.pi/2) % np.pi - np.pi/2),axis=1).max()
    lines = l.vertices.positions[l.edges.indices]
    X = pl.line_intersection(lines,lines)
    # exclude edges sharing a vertex
    share = (l.edges.indices[:,None,:,None]==l.edges.indices[None,:,None,:]).any(axis=(2,3))
    cross = np.sum(X & ~share)
    pos = l.vertices.positions
    dd = np.linalg.norm(pos[:,None]-pos[None,:],axis=-1)+np.eye(len(pos)); 
    import scipy.sparse.csgraph as cs
    ncomp = cs.connected_components(l.adjacency_matrix)[0]
    print(name,"V",l.n_vertices,"sides",dict(sides),"len spread %.2e"%(ln.max()/ln.min()-1),"deg1",deg.get(1,0),"deg0",deg.get(0,0),"chi",chi,"angdev %.2e"%dmin,"cross",cross,"minsep %.3e"%dd.min(),"ncomp",ncomp,"inside",pos.min()>=0 and pos.max()<=1, flush=True)
for B in [3,5,7]:
    for n in [5,6,8]:
        for off in [None, 0.13, "rand"]:
            np.random.seed(B*100+n)
            o = qc.random_offsets(B) if off=="rand" else off
            try:
                l = qc.de_brujin_grid(n,B,o)
                check(l,"B%d n%d off=%s"%(B,n,off),B,0)
            except Exception as e:
                print("B%d n%d off=%s"%(B,n,off),"ERR",type(e).__name__,e, flush=True)
