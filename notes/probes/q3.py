import numpy as np, warnings, sys
warnings.simplefilter("ignore")
from collections import Counter
from koala import example_graphs as eg
from koala.lattice import Lattice
def area(l,p):
    vec = l.edges.vectors[p.edges]*p.directions[:,None]
    pts = l.vertices.positions[p.vertices[0]] + np.cumsum(vec,0)
    x,y = pts[:,0],pts[:,1]
    return 0.5*np.sum(x*np.roll(y,-1)-np.roll(x,-1)*y)
def summary(name,l,col=None):
    c = Counter(p.n_sides for p in l.plaquettes)
    A = sum(area(l,p) for p in l.plaquettes)
    deg = Counter(l.vertices.coordination_numbers.tolist())
    chi = l.n_vertices - l.n_edges + l.n_plaquettes
    ok=None
    if col is not None:
        ok = all(len(set(col[l.vertices.adjacent_edges[v]]))==len(l.vertices.adjacent_edges[v]) for v in range(l.n_vertices))
    print(name, "V",l.n_vertices,"E",l.n_edges,"F",l.n_plaquettes, dict(c), "area %.6f"%A, "deg",dict(deg),"chi",chi,"col",ok, flush=True)
for n in [1,2,3,4,5,7]:
    l,c = eg.honeycomb_lattice(n,True); 
    try: summary("honey%d"%n,l,c)
    except Exception as e: print("honey",n,"ERR",type(e),e)
for n in [1,2,3]:
    try: summary("hso%d"%n, eg.hex_square_oct_lattice(n))
    except Exception as e: print("hso",n,"ERR",type(e),e)
for n in [1,2,(2,3),(3,2),(1,2)]:
    try:
        l,c = eg.tri_non_lattice(n,True); summary("trinon%s"%(n,),l,c)
    except Exception as e: print("trinon",n,"ERR",type(e),e)
for n in [(1,1),(2,2),(2,3),(3,2),(4,2),(1,3)]:
    try: summary("square%s"%(n,), eg.square_lattice(*n))
    except Exception as e: print("square",n,"ERR",type(e),e)
