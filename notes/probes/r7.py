import numpy as np, warnings
warnings.simplefilter("ignore")
import matplotlib; matplotlib.use("Agg")
from matplotlib import pyplot as plt
from matplotlib.path import Path
from koala import example_graphs as eg, voronization as vz, plotting as pl, chern_number as cn, hamiltonian as hm
from koala.lattice import cut_boundaries
import koala.flux_finder as ff
rng=np.random.default_rng(3)
# C16 plaquette coverage on a sample grid
def cover(l,name,subset=None):
    fig,ax=plt.subplots()
    labels=np.arange(l.n_plaquettes)%3
    cols=pl.plot_plaquettes(l,labels=labels,ax=ax) if subset is None else pl.plot_plaquettes(l,labels=labels,ax=ax,subset=subset)
    g=(np.arange(40)+0.37)/40; X,Y=np.meshgrid(g,g); P=np.stack([X.flatten(),Y.flatten()],1)
    count=np.zeros(len(P),int)
    for c in cols:
        for path in c.get_paths():
            count+=Path(path.vertices[:-1] if np.allclose(path.vertices[0],path.vertices[-1]) else path.vertices).contains_points(P)
    plt.close(fig)
    # reference: point inside plaquette (any periodic image) 
    sel=range(l.n_plaquettes) if subset is None else np.arange(l.n_plaquettes)[subset]
    ref=np.zeros(len(P),int)
    for i in sel:
        p=l.plaquettes[i]; vec=l.edges.vectors[p.edges]*p.directions[:,None]; pts=l.vertices.positions[p.vertices[0]]+np.cumsum(vec,0)
        for dx in (-1,0,1):
            for dy in (-1,0,1):
                ref+=Path(pts+np.array([dx,dy])).contains_points(P)
    bad=np.sum(count!=ref)
    print(name,"grid points",len(P),"covered once",np.sum(count==1),"mismatch vs reference",bad,"max cover",count.max(),flush=True)
for N in [6,20,60]:
    l=vz.generate_lattice(rng.uniform(size=(N,2))); cover(l,"vor%d"%N); cover(cut_boundaries(l),"vor%d open"%N); cover(l,"vor%d sub"%N,np.arange(0,l.n_plaquettes,2))
cover(eg.honeycomb_lattice(3),"honey3"); cover(eg.square_lattice(3,3),"sq33"); cover(eg.tri_non_lattice(2),"trinon2")
# C18 formula
l=vz.generate_lattice(rng.uniform(size=(10,2)))
V=l.n_vertices; A=rng.normal(size=(V,V))+1j*rng.normal(size=(V,V)); H=A+A.conj().T; w,v=np.linalg.eigh(H); P=v[:,:7]@v[:,:7].conj().T
pos=l.vertices.positions; ch=np.array([pos[3,0],0.5])
tx=np.diag((pos[:,0]<ch[0])*1.0); ty=np.diag((pos[:,1]<ch[1])*1.0)
ref=4*np.pi*np.diag(P@tx@P@ty@P).imag
got=cn.crosshair_marker(l,P,ch)
print("crosshair formula ok",np.allclose(ref,got),"sum %.2e"%got.sum(),"swap antisym",np.allclose(cn.crosshair_marker(type(l)(pos[:,::-1].copy(),l.edges.indices,l.edges.crossing[:,::-1].copy()),P,ch[::-1]),-got))
cm=cn.chern_marker(l,P); print("chern sum %.2e"%cm.sum())
# C05 formula
u=rng.choice([-1,1],size=l.n_edges); f=ff.fluxes_from_ujk(l,u); fc=ff.fluxes_from_ujk(l,u,False)
ref=np.array([np.prod([-u[e]*d for e,d in zip(p.edges,p.directions)]) for p in l.plaquettes])
print("flux formula",np.array_equal(f,ref),"complex",np.allclose(fc,ref*(1j)**np.array([p.n_sides for p in l.plaquettes])),"product",np.prod(f),(-1)**l.n_edges,"labels",ff.fluxes_to_labels(np.array([1,-1])).tolist())
