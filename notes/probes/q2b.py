import numpy as np, pickle, warnings, sys
warnings.simplefilter("ignore")
from koala.lattice import Lattice
from koala import graph_utils as gu
sq = Lattice(np.array([[.1,.1],[.9,.1],[.9,.9],[.1,.9],[.5,.5]]), np.array([[0,1],[1,2],[2,3],[3,0],[0,4]]), np.zeros((5,2),int))
print("sq plaquettes", sq.n_plaquettes, flush=True)
t = gu.remove_trailing_edges(sq); print("trimmed", t.n_vertices, t.n_edges, t.n_plaquettes, flush=True)
sq2 = Lattice(np.array([[.3,.3],[.7,.3],[.7,.7],[.3,.7],[.1,.1]]), np.array([[0,1],[1,2],[2,3],[3,0],[0,4]]), np.zeros((5,2),int))
print("sq2 plaquettes", sq2.n_plaquettes, gu.remove_trailing_edges(sq2).n_plaquettes, flush=True)
