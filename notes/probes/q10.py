import numpy as np, warnings
warnings.simplefilter("ignore")
import matplotlib; matplotlib.use("Agg")
from matplotlib import pyplot as plt
from koala import example_graphs as eg, voronization as vz, plotting as pl
from koala.lattice import cut_boundaries
rng = np.random.default_rng(4)
def clip_len(seg):
    # Liang-Barsky on [0,1]^2
    p,q = seg; d=q-p; t0,t1=0.0,1.0
    for i in range(2):
        for (pp,qq) in ((-d[i], p[i]-0),(d[i],1-p[i])):
            if pp==0:
                if qq<0: return 0.0
            else:
                t=qq/pp
                if pp<0: t0=max(t0,t)
                else: t1=min(t1,t)
    return max(0,t1-t0)*np.linalg.norm(d)
def test(l,name):
    fig,ax=plt.subplots()
    pl.plot_edges(l,ax=ax)
    lc = ax.collections[-1]
    segs = lc.get_segments()
    tot = sum(clip_len(np.array(s)) for s in segs)
    want = np.linalg.norm(l.edges.vectors,axis=1).sum()
    plt.close(fig)
    print(name,"drawn %.6f want %.6f"%(tot,want),len(segs),l.n_edges,flush=True)
for N in [4,12,40]:
    l = vz.generate_lattice(rng.uniform(size=(N,2))); test(l,"vor%d"%N); test(cut_boundaries(l),"vor%d open"%N)
test(eg.honeycomb_lattice(3),"honey3"); test(eg.square_lattice(3,3),"sq33"); test(eg.honeycomb_lattice(1),"honey1"); test(eg.tri_non_lattice(2),"trinon2")
