import numpy as np, sys, signal
from koala import pointsets
def handler(s,f): raise TimeoutError()
signal.signal(signal.SIGALRM, handler)
for (nx,ny) in [(1,1),(1,2),(2,1),(2,2),(1,3),(3,1),(2,3),(3,3)]:
    hung=0;ok=0
    for seed in range(10):
        signal.alarm(3)
        try:
            p=pointsets.bluenoise(20,nx,ny,rng=np.random.default_rng(seed)); ok+=1
        except TimeoutError: hung+=1
        finally: signal.alarm(0)
    print((nx,ny),"ok",ok,"hung(>3s)",hung,flush=True)
