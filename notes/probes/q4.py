import numpy as np, warnings, sys, itertools
warnings.simplefilter("ignore")
from koala import example_graphs as eg, graph_utils as gu, voronization as vz
from koala.lattice import Lattice, INVALID, cut_boundaries
import koala.flux_finder as ff
from koala.flux_finder import pathfinding as pf
rng = np.random.default_rng(5)
# C06: all targets on small lattices
def check_solver(l, name, ntargets=200):
    F = l.n_plaquettes
    bad = 0; n=0
    targets = itertools.product([-1,1], repeat=F) if F<=8 else (rng.choice([-1,1],size=F) for _ in range(ntargets))
    for t in targets:
        t = np.array(t)
        u0 = rng.choice([-1,1], size=l.n_edges)
        t0, u00 = t.copy(), u0.copy()
        try:
            u = ff.ujk_from_fluxes(l, t, u0)
        except Exception as e:
            print(name, "RAISED", type(e).__name__, e, t.tolist(), u0.tolist()); bad+=1; 
            if bad>3: break
            continue
        f = ff.fluxes_from_ujk(l, u)
        f0 = ff.fluxes_from_ujk(l, u0)
        need = np.count_nonzero(f0 != t)
        miss = np.count_nonzero(f != t)
        n+=1
        if miss != need % 2 or not np.array_equal(t,t0) or not np.array_equal(u0,u00) or not set(np.unique(u)) <= {-1,1}:
            bad+=1; print(name, "BAD", need, miss)
            if bad>3: break
    print(name, "F",F, "checked", n, "bad", bad, flush=True)
check_solver(eg.honeycomb_lattice(2), "honey2")
check_solver(eg.honeycomb_lattice(3), "honey3", 100)
check_solver(eg.square_lattice(2,3), "sq23")
check_solver(eg.tri_non_lattice(2), "trinon2")
check_solver(cut_boundaries(eg.honeycomb_lattice(4)), "honey4 open",100)
check_solver(cut_boundaries(eg.honeycomb_lattice(4),[True,False]), "honey4 strip",100)
for n in [9, 16, 30]:
    l = vz.generate_lattice(rng.uniform(size=(n,2)))
    check_solver(l, "vor%d"%n, 100)
    check_solver(cut_boundaries(l), "vor%d open"%n, 100)
