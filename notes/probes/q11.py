import numpy as np, warnings, time
warnings.simplefilter("ignore")
from koala import phase_diagrams as pd
pts,_ = pd.get_non_symmetric_triangular_sampling_points(6)
def f(J, a=1.0):
    time.sleep(0.001*((J[0]*97)%5))
    return np.array([J[0]+2*J[1], a*J[2]])
def g(J, a=1.0):
    return J[0]-J[1]
ser = np.array([f(J,a=2.0) for J in pts]).T
for nj in [1,2,3,5]:
    out = pd.compute_phase_diagram(pts, f, dict(a=2.0), n_jobs=nj)
    print(nj, out.shape, np.array_equal(out,ser))
out = pd.compute_phase_diagram(pts, g, dict(a=2.0), n_jobs=3); print(out.shape, np.array_equal(out, np.array([g(J) for J in pts])))
