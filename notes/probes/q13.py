import numpy as np, warnings
warnings.simplefilter("ignore")
from koala import voronization as vz
rng = np.random.default_rng(9)
bad=0
for t in range(300):
    N = int(rng.integers(2,60))
    pts = rng.uniform(size=(N,2))
    for sv in (True,False):
        try:
            l = vz.generate_lattice(pts, shift_vertices=sv)
        except Exception as e:
            print("ERR",N,sv,type(e).__name__,e); bad+=1; continue
        deg = np.bincount(l.edges.indices.flatten(), minlength=l.n_vertices)
        if l.n_vertices!=2*N or l.n_edges!=3*N or not np.all(deg==3):
            bad+=1; print("N",N,"sv",sv,"V",l.n_vertices,"E",l.n_edges,"degs",np.bincount(deg))
print("bad",bad)
