import numpy as np, warnings, itertools, sys
warnings.simplefilter("ignore")
from scipy.spatial import Delaunay
from koala import voronization as vz
rng = np.random.default_rng(int(sys.argv[1]) if len(sys.argv)>1 else 0)
def circum(a,b,c):
    d = 2*(a[0]*(b[1]-c[1])+b[0]*(c[1]-a[1])+c[0]*(a[1]-b[1]))
    ux = ((a@a)*(b[1]-c[1])+(b@b)*(c[1]-a[1])+(c@c)*(a[1]-b[1]))/d
    uy = ((a@a)*(c[0]-b[0])+(b@b)*(a[0]-c[0])+(c@c)*(b[0]-a[0]))/d
    return np.array([ux,uy])
def reference(pts, shift, pad=3):
    N=len(pts)
    offs=[(i,j) for i in range(-pad,pad+1) for j in range(-pad,pad+1)]
    allp=np.concatenate([pts+np.array(o) for o in offs]); owner=[(k,o) for o in offs for k in range(N)]
    tri=Delaunay(allp)
    cent={}; rmax=0
    pos=[]
    for t,s in enumerate(tri.simplices):
        a,b,c=allp[s]; cc=circum(a,b,c)
        p = (a+b+c)/3 if shift else cc
        pos.append(p)
    pos=np.array(pos)
    def key(s):  # canonical id of triangle class: sorted (seed, offset) normalised by translating so that min offset... use frozenset of (seed, off - base)
        items=[owner[i] for i in s]
        return items
    incell=[t for t in range(len(pos)) if np.all((0<pos[t])&(pos[t]<=1))]
    # class id of any triangle: translate so its vertex position lies in (0,1]
    def cls(t):
        o=np.ceil(pos[t])-1
        items=sorted((owner[i][0],(owner[i][1][0]-int(o[0]),owner[i][1][1]-int(o[1]))) for i in tri.simplices[t])
        return tuple(items), o.astype(int)
    ids={cls(t)[0]:k for k,t in enumerate(incell)}
    verts=np.array([pos[t] for t in incell])
    edges=set()
    ok=True
    for k,t in enumerate(incell):
        a,b,c=allp[tri.simplices[t]]; rmax=max(rmax,np.linalg.norm(circum(a,b,c)-a))
        for nb in tri.neighbors[t]:
            if nb<0: ok=False; continue
            cid,o=cls(nb)
            if cid not in ids: ok=False; continue
            j=ids[cid]
            e=(k,j,int(o[0]),int(o[1]))
            er=(j,k,-int(o[0]),-int(o[1]))
            edges.add(min(e,er))
    return verts,edges,rmax,ok
def compare(pts,shift):
    l=vz.generate_lattice(pts,shift_vertices=shift)
    verts,edges,rmax,ok=reference(pts,shift)
    N=len(pts)
    cond = rmax <= (1/3 if N>10 else 2/3)
    if l.n_vertices!=len(verts): return cond,"V %d vs %d"%(l.n_vertices,len(verts))
    # match vertices
    d=np.linalg.norm(l.vertices.positions[:,None]-verts[None],axis=-1); m=d.argmin(1)
    if d.min(1).max()>1e-9 or len(set(m))!=len(m): return cond,"vertex positions"
    got=set(); 
    from collections import Counter
    gotc=Counter()
    for (i,j),(cx,cy) in zip(l.edges.indices,l.edges.crossing):
        e=(int(m[i]),int(m[j]),int(cx),int(cy)); er=(int(m[j]),int(m[i]),-int(cx),-int(cy)); gotc[min(e,er)]+=1
    if set(gotc)!=edges or max(gotc.values())>1: return cond,"edges %d vs %d dup %d"%(len(gotc),len(edges),max(gotc.values()))
    return cond,None
def gens(N):
    yield "uniform", rng.uniform(size=(N,2))
    c=rng.uniform(size=2); yield "cluster", (c+0.08*rng.normal(size=(N,2)))%1
    yield "twocluster", np.concatenate([(rng.uniform(size=2)+0.05*rng.normal(size=(N//2,2))),(rng.uniform(size=2)+0.05*rng.normal(size=(N-N//2,2)))])%1
    g=int(np.ceil(np.sqrt(N))); gx,gy=np.meshgrid(np.arange(g),np.arange(g)); grid=(np.stack([gx.flatten(),gy.flatten()],1)[:N]+0.5+0.3*rng.uniform(-1,1,size=(N,2)))/g; yield "jitter", grid%1
    b=rng.uniform(size=(N,2)); b[:,0]=np.where(rng.random(N)<0.5, 1e-4*rng.random(N), 1-1e-4*rng.random(N)); yield "boundary", b
    x=rng.uniform(size=N); yield "nearcollinear", np.stack([x,(0.5+1e-3*rng.normal(size=N))%1],1)
res={}
for trial in range(25):
    for N in [2,3,4,5,8,10,11,12,20,40]:
        for name,pts in gens(N):
            if len(np.unique(np.round(pts,12),axis=0))<N: continue
            for shift in (False,True):
                try: cond,err=compare(pts,shift)
                except Exception as e: cond,err=None,"EXC "+type(e).__name__+str(e)[:60]
                k=(name,cond,err is None)
                res[k]=res.get(k,0)+1
                if err and cond: print("FAIL under precondition:",name,N,shift,err,flush=True)
for k in sorted(res,key=str): print(k,res[k])
