import numpy as np, warnings, sys, itertools
warnings.simplefilter("ignore")
from collections import Counter
from koala import example_graphs as eg, graph_utils as gu, voronization as vz, quasicrystals as qc
from koala.lattice import Lattice, INVALID, cut_boundaries
rng = np.random.default_rng(11)
def trunc_check(l, name, verts):
    t = gu.vertices_to_polygon(l, verts)
    vs = range(l.n_vertices) if verts is None else (verts if hasattr(verts,'__iter__') else [verts])
    ds = [len(l.vertices.adjacent_edges[v]) for v in set(vs) if len(l.vertices.adjacent_edges[v])>2]
    okV = t.n_vertices == l.n_vertices + sum(d-1 for d in ds)
    okE = t.n_edges == l.n_edges + sum(ds)
    inside = np.all((t.vertices.positions>=0)&(t.vertices.positions<1))
    okF = t.n_plaquettes == l.n_plaquettes + len(ds)
    # edge vectors of original edges scaled: direction preserved
    ev_old = l.edges.vectors; ev_new = t.edges.vectors[:l.n_edges]
    cosang = np.sum(ev_old*ev_new,1)/(np.linalg.norm(ev_old,axis=1)*np.linalg.norm(ev_new,axis=1))
    par = np.all(cosang>1-1e-9)
    print(name, "V",okV,"E",okE,"in",inside,"F",okF, l.n_plaquettes, t.n_plaquettes, "parallel",par, flush=True)
for n in [12, 30]:
    l = vz.generate_lattice(rng.uniform(size=(n,2)))
    trunc_check(l,"vor%d all"%n,None)
    trunc_check(l,"vor%d one"%n,3)
    trunc_check(l,"vor%d sub"%n,rng.choice(l.n_vertices,5,replace=False))
    trunc_check(cut_boundaries(l),"vor%d open all"%n,None)
    t = gu.vertices_to_polygon(l); trunc_check(t,"vor%d twice"%n,None)
trunc_check(eg.honeycomb_lattice(3),"honey3",None)
trunc_check(eg.square_lattice(3,4),"sq34",None)
# dual
def dual_check(l,name):
    try: d = gu.make_dual(l)
    except Exception as e: print(name,"dual ERR",e); return
    both = ~np.any(l.edges.adjacent_plaquettes==INVALID,axis=1)
    print(name,"dualV",d.n_vertices==l.n_plaquettes,"dualE",d.n_edges==both.sum(), "dualF",d.n_plaquettes, l.n_vertices, Counter(p.n_sides for p in d.plaquettes)==Counter(l.vertices.coordination_numbers.tolist()), flush=True)
for n in [12,30,100]:
    l = vz.generate_lattice(rng.uniform(size=(n,2)))
    dual_check(l,"vor%d"%n)
dual_check(eg.honeycomb_lattice(4),"honey4"); dual_check(eg.square_lattice(4,4),"sq44"); dual_check(eg.honeycomb_lattice(2),"honey2"); dual_check(eg.square_lattice(3,3),"sq33")
