import numpy as np, pickle, warnings
warnings.simplefilter("ignore")
from koala.lattice import Lattice, INVALID, cut_boundaries
from koala import example_graphs as eg, graph_utils as gu, graph_color as gc
from koala.flux_finder import pathfinding as pf
import koala.flux_finder as ff
from koala import hamiltonian as ham, phase_space as ps

# C02 isolated highest vertex
L = Lattice(np.array([[.1,.1],[.9,.1],[.5,.9],[.5,.5]]), np.array([[0,1],[1,2],[2,0]]), np.zeros((3,2),int))
print("coord numbers", L.vertices.coordination_numbers, "n_vertices", L.n_vertices)
try:
    print(L.plaquettes, L.vertices.adjacent_plaquettes)
except Exception as e: print("ERR", type(e), e)

# C09 eq different sizes
A = eg.honeycomb_lattice(2); B = eg.honeycomb_lattice(4)
try: print("eq diff sizes", A == B)
except Exception as e: print("EQ ERR", type(e), e)
try: print("eq non lattice", A == 3, A != 3)
except Exception as e: print("EQ ERR", type(e), e)
# dtype narrowing
R = pickle.loads(pickle.dumps(B))
print(R.edges.indices.dtype, R.vertices.positions.dtype, R.edges.crossing.dtype, B.edges.indices.dtype)
L100 = eg.honeycomb_lattice(6)
print(L100.n_vertices)
R100 = pickle.loads(pickle.dumps(L100))
try:
    s1 = gc.vertex_color(L100.edges.indices, 3)
    s2 = gc.vertex_color(R100.edges.indices, 3)
    print("vertex_color same", s1[0], s2[0], np.array_equal(s1[1], s2[1]))
except Exception as e: print("VC ERR", type(e), e)

# C11 periodic metric
a=np.array([0.1,0.1]); b=np.array([0.9,0.2])
print("periodic", pf.periodic_straight_line_length(a,b), pf.periodic_straight_line_length(b,a), pf.periodic_straight_line_length(a,a+0.3))

# C04 vertex color n_colors 2 / 4
K4 = np.array([[0,1],[0,2],[0,3],[1,2],[1,3],[2,3]])
for nc in [1,2,3,4,5]:
    try:
        r = gc.vertex_color(K4, nc); print("K4", nc, r[0], r[1] if r[0] else None)
    except Exception as e: print("K4", nc, "ERR", type(e), e)

# C07 parallel edges
H1 = eg.honeycomb_lattice(1)
print("honeycomb(1)", H1.n_vertices, H1.n_edges, H1.edges.indices.tolist(), H1.edges.crossing.tolist())
u = np.ones(H1.n_edges)
M = ham.majorana_hamiltonian(H1, None, u)
print(np.round(M.imag,3))
# C06 np.product
try:
    print(ff.find_flux_sector(eg.honeycomb_lattice(3)))
except Exception as e: print("FFS ERR", type(e), e)
