import numpy as np, warnings, sys
warnings.simplefilter("ignore")
from koala import pointsets
for (nx,ny) in [(3,6),(6,3),(4,4)]:
    p = pointsets.bluenoise(30,nx,ny,rng=np.random.default_rng(1))
    print("bluenoise", nx,ny, p.shape, p.min(0), p.max(0), flush=True)
np.random.seed(1); a = pointsets.hyperuniform(5,5,rng=np.random.default_rng(3))
np.random.seed(2); b = pointsets.hyperuniform(5,5,rng=np.random.default_rng(3))
print("hyperuniform reproducible", a.shape==b.shape and np.allclose(a,b), flush=True)
