import numpy as np, warnings
warnings.simplefilter("ignore")
import matplotlib; matplotlib.use("Agg")
from matplotlib import pyplot as plt
from koala import example_graphs as eg, plotting as pl
from koala.lattice import Lattice
l = eg.honeycomb_lattice(2)
fig,ax = plt.subplots()
try:
    pl.plot_edges(l, ax=ax, color="lightgrey"); fig.canvas.draw(); print("color kw ok", ax.collections[-1].get_colors()[:1])
except Exception as e: print("color kw ERR", type(e).__name__, e)
try:
    pl.plot_edges(l, ax=ax, labels=np.arange(l.n_edges)%2, color_scheme=["r","lightgrey"]); print("scheme ok", ax.collections[-1].get_colors()[:2])
except Exception as e: print("scheme ERR", type(e).__name__, e)
# eq asymmetry
n=70000
pos = np.full((n,2),0.9); e = np.array([[0,1]]); c = np.zeros((1,2),int)
sep = 1/np.sqrt(n); atol = sep/100
A = Lattice(pos.copy(), e, c)
p2 = pos.copy(); p2[0,0] += atol*1.1
B = Lattice(p2, e, c)
print("displaced by 1.1*atol detected:", A!=B, B!=A, "atol",atol)
