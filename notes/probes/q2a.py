import numpy as np, pickle, warnings, sys
warnings.simplefilter("ignore")
from koala import example_graphs as eg, graph_color as gc
L = eg.honeycomb_lattice(8); print(L.n_vertices, flush=True)
R = pickle.loads(pickle.dumps(L))
adj = R.edges.indices
n_vertices = np.max(adj) + 1
print(type(n_vertices), n_vertices, 3*n_vertices, flush=True)
s2 = gc.vertex_color(R.edges.indices, 3)
print(s2)
