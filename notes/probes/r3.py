import numpy as np, warnings, itertools
warnings.simplefilter("ignore")
from koala import example_graphs as eg, graph_utils as gu, voronization as vz, hamiltonian as hm, chern_number as cn, graph_color as gc
from koala.lattice import Lattice, INVALID, cut_boundaries, permute_vertices
rng = np.random.default_rng(44)
def geo_plaqs(l):
    """plaquettes as frozenset of (sorted endpoint positions rounded, crossing-insensitive) edge descriptors + n_sides"""
    out=set()
    for p in l.plaquettes:
        es=[]
        for e in p.edges:
            a,b=l.edges.indices[e]; pa=tuple(np.round(l.vertices.positions[a],9)); pb=tuple(np.round(l.vertices.positions[b],9)); c=tuple(l.edges.crossing[e])
            es.append((pa,pb,c))
        out.add((frozenset(es),p.n_sides,tuple(np.round(p.center%1,7))))
    return out
def edge_desc(l,e):
    a,b=l.edges.indices[e]; return (tuple(np.round(l.vertices.positions[a],9)),tuple(np.round(l.vertices.positions[b],9)),tuple(l.edges.crossing[e]))
# C12 cut: no new plaquettes, untouched survive
bad=0;n=0
for t in range(40):
    N=int(rng.integers(3,40)); l=vz.generate_lattice(rng.uniform(size=(N,2)))
    keep=rng.random(l.n_edges)<0.85; l=Lattice(l.vertices.positions,l.edges.indices[keep],l.edges.crossing[keep])
    for cutsel in ([True,False],[False,True],[True,True],[False,False]):
        c=cut_boundaries(l,cutsel); n+=1
        before=geo_plaqs(l); after=geo_plaqs(c)
        removed={edge_desc(l,e) for e in range(l.n_edges) if (cutsel[0] and l.edges.crossing[e,0]!=0) or (cutsel[1] and l.edges.crossing[e,1]!=0)}
        if c.n_edges!=l.n_edges-len(removed): bad+=1; print("cut count")
        surv={p for p in before if not (p[0]&removed)}
        if not surv<=after: bad+=1; print("cut lost plaquette")
        if after-before: bad+=1; print("cut NEW plaquette",N,cutsel,len(after-before))
print("cut checks",n,"bad",bad)
# remove_vertices
bad=0;n=0
for t in range(40):
    N=int(rng.integers(3,30)); l=vz.generate_lattice(rng.uniform(size=(N,2)))
    k=int(rng.integers(0,l.n_vertices+1)); idx=rng.choice(l.n_vertices,k,replace=False)
    r,er=gu.remove_vertices(l,idx,True); n+=1
    keepv=np.setdiff1d(np.arange(l.n_vertices),idx)
    if r.n_vertices!=len(keepv) or not np.array_equal(r.vertices.positions,l.vertices.positions[keepv]): bad+=1; print("rv verts")
    touch=np.where(np.isin(l.edges.indices,idx).any(axis=1))[0]
    if not np.array_equal(np.unique(er),touch): bad+=1; print("rv removed edges")
    keepe=np.setdiff1d(np.arange(l.n_edges),touch)
    if r.n_edges!=len(keepe) or not np.array_equal(keepv[r.edges.indices] if r.n_edges else l.edges.indices[keepe],l.edges.indices[keepe]) or not np.array_equal(r.edges.crossing,l.edges.crossing[keepe]): bad+=1; print("rv edges")
    removed={edge_desc(l,e) for e in touch}
    surv={p for p in geo_plaqs(l) if not (p[0]&removed)}
    if r.n_edges and not surv<=geo_plaqs(r): bad+=1; print("rv lost plaquette")
print("remove_vertices",n,"bad",bad)
# permute
bad=0
for t in range(20):
    N=int(rng.integers(3,20)); l=vz.generate_lattice(rng.uniform(size=(N,2)))
    o=rng.permutation(l.n_vertices); p=permute_vertices(l,o)
    if not np.array_equal(p.vertices.positions,l.vertices.positions[o]) or not np.allclose(p.edges.vectors,l.edges.vectors) or geo_plaqs(p)!=geo_plaqs(l): bad+=1
    q=gu.reorder_vertices(l,o)
    if not np.array_equal(q.vertices.positions[o],l.vertices.positions) or not np.allclose(q.edges.vectors,l.edges.vectors) or geo_plaqs(q)!=geo_plaqs(l): bad+=1
print("permute bad",bad)
# C13 dual vectors
bad=0
for t in range(20):
    N=int(rng.integers(12,60)); l=vz.generate_lattice(rng.uniform(size=(N,2)))
    try: d=gu.make_dual(l)
    except Exception as e: print("dual raise N",N); continue
    # true displacement: center of plaquette on back side minus forward side, unwrapped via edge midpoint
    ap=l.edges.adjacent_plaquettes
    for e in range(l.n_edges):
        a,b=ap[e]; ca=l.plaquettes[a].center; cb=l.plaquettes[b].center
        # unwrap both relative to edge midpoint
        m=l.vertices.positions[l.edges.indices[e,0]]+0.5*l.edges.vectors[e]
        ca_u=ca-np.round(ca-m); cb_u=cb-np.round(cb-m)
        true=cb_u-ca_u
        if np.max(np.abs(true))<0.5 and np.max(np.abs(ca_u-m))<0.5 and not np.allclose(d.edges.vectors[e],true,atol=1e-9): bad+=1
print("dual vector bad",bad)
# C07 fermion spectrum
bad=0
for t in range(10):
    N=int(rng.integers(4,20)); l=vz.generate_lattice(rng.uniform(size=(N,2)))
    col=gc.color_lattice(l); u=rng.choice([-1,1],size=l.n_edges); J=rng.uniform(.5,1.5,3)
    for along in range(3):
        b=hm.bisect_lattice(l,col,along)
        H=hm.majorana_hamiltonian(b,col,u,J); Hf=hm.majorana_to_fermion_ham(H)
        e1=np.sort(np.linalg.eigvalsh(H)); e2=np.sort(np.linalg.eigvalsh(Hf))
        if not np.allclose(2*e1,e2,atol=1e-9) or not np.allclose(Hf,Hf.conj().T): bad+=1; print("fermion mismatch max",np.abs(2*e1-e2).max())
        s=l.n_vertices//2
        dim=l.edges.indices[col==along]; inv=np.argsort(np.argsort(np.zeros(1)))  # placeholder
print("fermion bad",bad)
