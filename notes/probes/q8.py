import numpy as np, warnings, sys, itertools, math
warnings.simplefilter("ignore")
from koala import example_graphs as eg, graph_utils as gu, voronization as vz
from koala.lattice import Lattice, INVALID, cut_boundaries
rng = np.random.default_rng(3)
def ref_faces(pos, edges, cross):
    E = len(edges)
    # darts: (e,0) fwd from a->b, (e,1) back
    def tail(d): e,s=d; return edges[e][s]
    def head(d): e,s=d; return edges[e][1-s]
    def vec(d):
        e,s=d; v = pos[edges[e][1]]-pos[edges[e][0]]+cross[e]; return v if s==0 else -v
    out = {v:[] for v in range(len(pos))}
    for e in range(E):
        for s in (0,1): out[tail((e,s))].append((e,s))
    # ccw angle order
    for v in out: out[v].sort(key=lambda d: math.atan2(vec(d)[1],vec(d)[0]))
    # face on the left of dart d: next = at head(d), take the dart that is clockwise-next from reverse(d)
    nxt={}
    for v,ds in out.items():
        k=len(ds)
        for i,d in enumerate(ds):
            # d leaves v; reverse of d arrives at v; the next dart after arriving via rev(d): clockwise neighbour of d in ccw order = ds[i-1]
            nxt[(d[0],1-d[1])] = ds[(i-1)%k]
    seen=set(); faces=[]
    for d0 in nxt:
        if d0 in seen: continue
        f=[]; d=d0
        while d not in seen:
            seen.add(d); f.append(d); d=nxt[d]
        faces.append(f)
    good=[]
    for f in faces:
        es=[d[0] for d in f]
        if len(set(es))!=len(es): continue
        net = sum((cross[e]*(1 if s==0 else -1) for e,s in f), np.zeros(2))
        if np.any(net!=0): continue
        pts = np.cumsum([vec(d) for d in f],0)
        x,y=pts[:,0],pts[:,1]
        A=0.5*np.sum(x*np.roll(y,-1)-np.roll(x,-1)*y)
        if A<=0: continue
        good.append(f)
    return good
def canon(f):
    i=f.index(min(f)); return tuple(f[i:]+f[:i])
def check(l,name):
    ref = sorted(canon(f) for f in ref_faces(l.vertices.positions,l.edges.indices,l.edges.crossing))
    try:
        got = sorted(canon([(int(e),0 if d==1 else 1) for e,d in zip(p.edges,p.directions)]) for p in l.plaquettes)
    except Exception as ex:
        print(name,"ERR",type(ex).__name__,ex); return False
    ok = ref==got
    if not ok: print(name,"MISMATCH ref",len(ref),"got",len(got))
    return ok
n_ok=0;n=0
for trial in range(60):
    N = int(rng.integers(2,40))
    l = vz.generate_lattice(rng.uniform(size=(N,2)), shift_vertices=bool(trial%2))
    for variant in range(4):
        ll = l
        if variant==1: ll = cut_boundaries(l,[True,False])
        if variant==2: ll = cut_boundaries(l)
        if variant==3:
            keep = rng.random(l.n_edges) < 0.7
            ll = Lattice(l.vertices.positions, l.edges.indices[keep], l.edges.crossing[keep])
        if ll.n_edges==0: continue
        n+=1; n_ok+=check(ll,"trial%d N%d var%d"%(trial,N,variant))
print("ok",n_ok,"of",n)
for name,l in [("honey1",eg.honeycomb_lattice(1)),("hso1",eg.hex_square_oct_lattice(1)),("trinon1",eg.tri_non_lattice(1)),("ladder",eg.n_ladder(6,True)),("bridge",eg.bridge_graph()),("tutte",eg.tutte_graph()),("wheel",eg.higher_coordination_number_example(12)),("concave",eg.concave_plaquette())]:
    print(name, check(l,name), l.n_plaquettes)
