import numpy as np, warnings, hashlib, inspect, copy
warnings.simplefilter("ignore")
import matplotlib; matplotlib.use("Agg")
from matplotlib import pyplot as plt
from koala import example_graphs as eg, graph_utils as gu, voronization as vz, hamiltonian as hm, chern_number as cn, graph_color as gc, phase_space as ps, plotting as pl, pointsets
from koala.lattice import Lattice, INVALID, cut_boundaries, permute_vertices
import koala.flux_finder as ff
from koala.flux_finder import pathfinding as pf
rng=np.random.default_rng(5)
def fp_arr(a): return (a.dtype.str,a.shape,hashlib.sha1(np.ascontiguousarray(a).tobytes()).hexdigest())
def fp_lat(l):
    d={"pos":fp_arr(l.vertices.positions),"ei":fp_arr(l.edges.indices),"cr":fp_arr(l.edges.crossing),"vec":fp_arr(l.edges.vectors),
       "ae":tuple(fp_arr(x) for x in l.vertices.adjacent_edges),"cn":fp_arr(l.vertices.coordination_numbers),"ee":tuple(fp_arr(x) for x in l.edges.adjacent_edges)}
    if "plaquettes" in l.__dict__:
        d["pl"]=tuple((fp_arr(p.vertices),fp_arr(p.edges),fp_arr(p.directions),fp_arr(p.center),p.n_sides,fp_arr(p.adjacent_plaquettes)) for p in l.plaquettes)
        d["eap"]=fp_arr(l._edges_adjacent_plaquettes); d["vap"]=fp_arr(l._vertices_adjacent_plaquettes)
    return d
def fp(x):
    if isinstance(x,Lattice): return fp_lat(x)
    if isinstance(x,np.ndarray): return fp_arr(x)
    return repr(x)
l=vz.generate_lattice(rng.uniform(size=(16,2))); l.plaquettes
col=gc.color_lattice(l); u=rng.choice([-1,1],size=l.n_edges).astype(np.int8); J=np.array([1.,.7,1.3]); tgt=rng.choice([-1,1],size=l.n_plaquettes).astype(np.int8)
pts=rng.uniform(size=(16,2)); perm=rng.permutation(l.n_vertices); idx=np.array([1,4,7]); tree=gu.plaquette_spanning_tree(l)
H=hm.majorana_hamiltonian(l,col,u,J); w,v=np.linalg.eigh(H); P=v[:,:l.n_vertices//2]@v[:,:l.n_vertices//2].conj().T
fig,ax=plt.subplots()
calls=[
 ("cut_boundaries",lambda: cut_boundaries(l,[True,False]),[l]),
 ("permute_vertices",lambda: permute_vertices(l,perm),[l,perm]),
 ("reorder_vertices",lambda: gu.reorder_vertices(l,perm),[l,perm]),
 ("make_dual",lambda: gu.make_dual(l),[l]),
 ("spanning_tree",lambda: gu.plaquette_spanning_tree(l,False),[l]),
 ("remove_vertices",lambda: gu.remove_vertices(l,idx,True),[l,idx]),
 ("remove_trailing",lambda: gu.remove_trailing_edges(cut_boundaries(l)),[l]),
 ("vertex_neighbours",lambda: gu.vertex_neighbours(l,3),[l]),
 ("clockwise_about",lambda: gu.clockwise_about(3,l),[l]),
 ("adjacent_plaquettes",lambda: gu.adjacent_plaquettes(l,2),[l]),
 ("vertices_to_polygon",lambda: gu.vertices_to_polygon(l,idx),[l,idx]),
 ("vertices_to_polygon_all",lambda: gu.vertices_to_polygon(l),[l]),
 ("dimerise",lambda: gu.dimerise(l,3),[l]),
 ("lloyd",lambda: gu.lloyd_relaxation(l,2),[l]),
 ("edge_color",lambda: gc.edge_color(l,3,fixed=[(0,1)]),[l]),
 ("vertex_color",lambda: gc.vertex_color(l.edges.indices,3),[l]),
 ("color_lattice",lambda: gc.color_lattice(l),[l]),
 ("fluxes_from_ujk",lambda: ff.fluxes_from_ujk(l,u),[l,u]),
 ("fluxes_from_ujk_c",lambda: ff.fluxes_from_ujk(l,u,False),[l,u]),
 ("ujk_from_fluxes",lambda: ff.ujk_from_fluxes(l,tgt,u),[l,tgt,u]),
 ("n_to_ujk_flipped",lambda: ff.n_to_ujk_flipped(5,u,tree),[u,tree]),
 ("fluxes_to_labels",lambda: ff.fluxes_to_labels(tgt),[tgt]),
 ("path_plaq",lambda: pf.path_between_plaquettes(l,0,5),[l]),
 ("path_vert",lambda: pf.path_between_vertices(l,0,5),[l]),
 ("bisect",lambda: hm.bisect_lattice(l,col,1),[l,col]),
 ("majorana",lambda: hm.majorana_hamiltonian(l,col,u,J),[l,col,u,J]),
 ("fermion",lambda: hm.majorana_to_fermion_ham(H),[H]),
 ("khamgen",lambda: ps.k_hamiltonian_generator(l,col,u,J)(np.array([.3,.4])),[l,col,u,J]),
 ("analyse_hk",lambda: ps.analyse_hk(ps.k_hamiltonian_generator(l,col,u,J),3),[l,col,u,J]),
 ("gap",lambda: ps.gap_over_phase_space(ps.k_hamiltonian_generator(l,col,u,J),3),[l,col,u,J]),
 ("crosshair",lambda: cn.crosshair_marker(l,P,np.array([.5,.5])),[l,P]),
 ("chern",lambda: cn.chern_marker(l,P),[l,P]),
 ("generate_lattice",lambda: vz.generate_lattice(pts),[pts]),
 ("plot_edges",lambda: pl.plot_edges(l,labels=col,ax=ax,directions=u.astype(int)),[l,col,u]),
 ("plot_edges_sub",lambda: pl.plot_edges(l,labels=col,ax=ax,subset=idx),[l,col,idx]),
 ("plot_plaquettes",lambda: pl.plot_plaquettes(l,labels=ff.fluxes_to_labels(tgt),ax=ax),[l,tgt]),
 ("plot_vertices",lambda: pl.plot_vertices(l,ax=ax),[l]),
 ("plot_dual",lambda: pl.plot_dual(l,ax=ax),[l]),
 ("plot_lattice",lambda: pl.plot_lattice(l,ax=ax,edge_labels=col,edge_arrows=True,bond_signs=u.astype(int)),[l,col,u]),
 ("plot_scalar",lambda: pl.plot_scalar(l,np.arange(l.n_vertices)*1.0,ax=ax,resolution=10),[l]),
 ("plot_indices",lambda: (pl.plot_vertex_indices(l,ax=ax),pl.plot_edge_indices(l,ax=ax),pl.plot_plaquette_indices(l,ax=ax)),[l]),
 ("tile",lambda: eg.tile_unit_cell(l.vertices.positions,l.edges.indices,l.edges.crossing,[2,2]),[l]),
 ("eq",lambda: l==copy.deepcopy(l),[l]),
]
bad=0
for name,f,args in calls:
    before=[fp(a) for a in args]
    try: f()
    except Exception as e: print(name,"RAISED",type(e).__name__,str(e)[:80]); 
    after=[fp(a) for a in args]
    if before!=after:
        bad+=1
        for a,b,c in zip(args,before,after):
            if b!=c:
                if isinstance(a,Lattice): print(name,"MUTATED lattice fields",[k for k in b if b.get(k)!=c.get(k)] + [k for k in c if k not in b])
                else: print(name,"MUTATED array")
print("calls",len(calls),"mutating",bad)
