import numpy as np, warnings, heapq, itertools
warnings.simplefilter("ignore")
from koala import example_graphs as eg, graph_utils as gu, voronization as vz
from koala.lattice import Lattice, INVALID, cut_boundaries
from koala.flux_finder import pathfinding as pf
import koala.flux_finder as ff
import scipy.sparse.csgraph as cs
rng = np.random.default_rng(21)
def plaq_graph(l):
    ap = l.edges.adjacent_plaquettes
    ok = ~np.any(ap==INVALID,axis=1)
    return ap[ok], np.where(ok)[0]
def connected(l):
    pairs,_ = plaq_graph(l); F=l.n_plaquettes
    if F==0: return False
    A = np.zeros((F,F)); 
    for a,b in pairs: A[a,b]=A[b,a]=1
    return cs.connected_components(A)[0]==1
def dijkstra(l,s):
    pairs,_ = plaq_graph(l); F=l.n_plaquettes
    adj=[[] for _ in range(F)]
    c = np.array([p.center for p in l.plaquettes])
    for a,b in pairs:
        d=np.linalg.norm(c[a]-c[b]); adj[a].append((b,d)); adj[b].append((a,d))
    dist=[np.inf]*F; dist[s]=0; h=[(0,s)]
    while h:
        d,x=heapq.heappop(h)
        if d>dist[x]: continue
        for y,w in adj[x]:
            if d+w<dist[y]: dist[y]=d+w; heapq.heappush(h,(d+w,y))
    return dist
def check(l,name,npairs=60):
    if not connected(l): print(name,"plaquette graph disconnected; skip"); return
    F=l.n_plaquettes; bad=0;n=0;nonopt=0
    c = np.array([p.center for p in l.plaquettes])
    pairs = list(itertools.product(range(F),range(F))) if F<=8 else [tuple(rng.integers(0,F,2)) for _ in range(npairs)]
    for s,g in pairs:
        D = dijkstra(l,s)
        for es in (True,False):
            try:
                nodes,edges = pf.path_between_plaquettes(l,s,g,early_stopping=es,maxits=l.n_edges)
            except Exception as e:
                bad+=1; print(name,"RAISE",s,g,es,type(e).__name__); continue
            n+=1
            ok = nodes[0]==g and nodes[-1]==s and len(edges)==len(nodes)-1
            for i,e in enumerate(edges):
                ap=set(l.edges.adjacent_plaquettes[e].tolist()); ok &= ap=={nodes[i],nodes[i+1]} or (nodes[i]==nodes[i+1])
            cost = sum(np.linalg.norm(c[nodes[i]]-c[nodes[i+1]]) for i in range(len(edges)))
            if not es and cost > D[g]+1e-9: nonopt+=1
            # flux law
            u = rng.choice([-1,1],size=l.n_edges); f0=ff.fluxes_from_ujk(l,u); u2=u.copy(); u2[edges]*=-1; f1=ff.fluxes_from_ujk(l,u2)
            ch=set(np.where(f0!=f1)[0].tolist()); want = set() if s==g else {s,g}
            ok &= ch==want
            if not ok: bad+=1
    print(name,"F",F,"paths",n,"bad",bad,"nonoptimal(no early stop)",nonopt,flush=True)
check(eg.honeycomb_lattice(2),"honey2"); check(eg.honeycomb_lattice(5),"honey5"); check(eg.square_lattice(3,3),"sq33")
check(cut_boundaries(eg.honeycomb_lattice(5)),"honey5open"); check(cut_boundaries(eg.honeycomb_lattice(5),[True,False]),"honey5strip")
for N in [9,30,100]:
    l=vz.generate_lattice(rng.uniform(size=(N,2))); check(l,"vor%d"%N); check(cut_boundaries(l),"vor%d open"%N)
# vertex paths
l=vz.generate_lattice(rng.uniform(size=(40,2)))
bad=0
for _ in range(100):
    a,b = rng.integers(0,l.n_vertices,2)
    for es in (True,False):
        try:
            nodes,edges = pf.path_between_vertices(l,a,b,early_stopping=es,maxits=l.n_edges)
            ok = nodes[0]==b and nodes[-1]==a and all(set(l.edges.indices[e].tolist())=={nodes[i],nodes[i+1]} for i,e in enumerate(edges))
            bad += (not ok)
        except Exception as e: bad+=1; print("vert RAISE",a,b,es,type(e).__name__,e)
print("vertex paths bad",bad)
