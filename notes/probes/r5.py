import numpy as np, itertools
from koala import hamiltonian as hm
rng=np.random.default_rng(0)
s=3; n=2*s
A=rng.normal(size=(n,n)); A=A-A.T
Hm=0.25j*A
Hf=hm.majorana_to_fermion_ham(Hm)
I=np.eye(s)
best=None
vals=[1,-1,1j,-1j]
for a,b,c,d in itertools.product(vals,repeat=4):
    S2=np.array([[a,b],[c,d]])
    if abs(np.linalg.det(S2))<1e-9: continue
    S=np.kron(S2,I)
    X=S@(2*Hm)@np.linalg.inv(S)
    err=np.abs(X-Hf).max()
    if err<1e-9: print("S2 =",S2.tolist(),"works")
# also try with transposes: maybe Hf = S (2 Hm)^T S^-1
for a,b,c,d in itertools.product(vals,repeat=4):
    S2=np.array([[a,b],[c,d]])
    if abs(np.linalg.det(S2))<1e-9: continue
    S=np.kron(S2,I)
    X=S@(2*Hm.T)@np.linalg.inv(S)
    if np.abs(X-Hf).max()<1e-9: print("T: S2 =",S2.tolist(),"works")
print(np.allclose(np.sort(np.linalg.eigvalsh(Hf)),np.sort(2*np.linalg.eigvalsh(Hm))))
