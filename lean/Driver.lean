import KoalaVerif.Model.All
open Lean KJ

/-! JSON-lines model driver: one request per line on stdin, one reply per line on stdout. -/

def parseLat (j : Json) : Except String Lat := do
  let nV ← nat (← field j "nV")
  let edges ← listOf pairN (← field j "edges")
  let cross ← match fieldOpt j "cross" with | some c => listOf pairI c | none => pure (edges.map fun _ => (0, 0))
  let pos ← match fieldOpt j "pos" with | some c => listOf pairI c | none => pure []
  let scale ← match fieldOpt j "scale" with | some c => int c | none => pure 1
  if cross.length != edges.length then throw "cross-length"
  if edges.any (fun e => e.1 ≥ nV || e.2 ≥ nV) then throw "edge-out-of-range"
  pure { nV := nV, edges := edges, cross := cross, pos := pos, scale := scale }

def jdarts (w : List Dart) : List (String × Json) :=
  [("e", jnats (w.map (·.1))), ("d", jints (w.map dirSign))]

def opPlaquettes (j : Json) : Except String Json := do
  let L ← parseLat j
  if !L.noSelfLoop then throw "precondition:self-loop"
  let T := rotTable L
  let R := rotOfTable T
  if anyStuck L R then throw "stuck"
  let ws := (allWalks L R).map (analyse L)
  let pj := ws.map fun p => Json.mkObj (jdarts p.darts ++ [
        ("valid", Json.bool p.valid), ("w", jint p.w), ("a2", jint p.area2),
        ("net", jpairI p.net), ("norep", Json.bool p.noRepeat),
        ("cx", jint p.cnum.1), ("cy", jint p.cnum.2)])
  pure (Json.mkObj [("walks", Json.arr pj.toArray), ("rot", jlist jnats T.toList)])

/-- fluxes of the model's own plaquettes for a batch of bond configurations -/
def opFluxes (j : Json) : Except String Json := do
  let L ← parseLat j
  if !L.noSelfLoop then throw "precondition:self-loop"
  let R := rotOfTable (rotTable L)
  if anyStuck L R then throw "stuck"
  let ps := plaquettes L R
  let us ← listOf ints (← field j "us")
  if us.any (fun u => u.length != L.E) then throw "u-length"
  let variant ← str (← field j "variant")
  let signReal ← match fieldOpt j "sign_real" with | some s => ints s | none => pure []
  let res ← us.mapM fun u => match variant with
    | "real" => pure (jints (ps.map fun p => flux (uOf u) p.darts))
    | "complex" => pure (jlist jpairI (ps.map fun p => fluxC (uOf u) p.darts))
    | "old" => pure (jints (ps.map fun p => fluxOld signReal (uOf u) p.darts))
    | _ => throw "bad-variant"
  pure (Json.mkObj [("fluxes", Json.arr res.toArray), ("nplaq", jnat ps.length),
                    ("sides", jnats (ps.map fun p => p.darts.length))])

def jopt (x : Option Nat) : Json := match x with | some n => jnat n | none => Json.null

/-- every adjacency table and helper of C02 -/
def opTables (j : Json) : Except String Json := do
  let L ← parseLat j
  if !L.noSelfLoop then throw "precondition:self-loop"
  let T := rotTable L
  let R := rotOfTable T
  if anyStuck L R then throw "stuck"
  let ps := (plaquettes L R).map (·.darts)
  let es := List.range L.E
  let vs := List.range L.nV
  let np := List.range ps.length
  pure (Json.mkObj [
    ("coordination", jnats (Tab.coordination L)),
    ("rot", jlist jnats T.toList),
    ("evec", jlist jpairI (es.map L.evec)),
    ("edge_neighbours", jlist jnats (es.map (Tab.edgeNeighbours L))),
    ("joined", jlist jpairN ((vs.flatMap fun a => (vs.filter fun b => Tab.adjacent L a b).map fun b => (a, b)))),
    ("plaq", jlist (fun w => Json.mkObj (jdarts w)) ps),
    ("plaq_vertices", jlist jnats (ps.map (Tab.walkVertices L))),
    ("edge_plaq", jlist (fun e => Json.arr #[jopt (Tab.edgePlaq ps (e, false)), jopt (Tab.edgePlaq ps (e, true))]) es),
    ("vertex_plaq", jlist jnats (vs.map (Tab.vertexPlaq L ps))),
    ("plaq_neighbours", jlist (jlist jopt) (np.map (Tab.plaqNeighbours ps))),
    ("vertex_neighbours", jlist (jlist jpairN) (vs.map (Tab.vertexNeighbours L))),
    ("clockwise_about", jlist jnats (vs.map (Tab.clockwiseAbout L))),
    ("adjacent_plaquettes", jlist (jlist jpairN) (np.map (Tab.adjacentPlaquettes ps)))])


/-! ### C04: CNF encodings -/

def jformula (f : Cnf.Formula) : Json := jlist (fun c => jints (c.map Cnf.toDimacs)) f

def assignOfModel (m : List Int) : Nat → Bool := fun v => v != 0 && decide (m.getD (v - 1) 0 > 0)

def opCnf (j : Json) : Except String Json := do
  let kind ← str (← field j "kind")
  let ms ← match fieldOpt j "models" with | some m => listOf ints m | none => pure []
  let wantCount ← match fieldOpt j "count" with | some b => bool b | none => pure false
  let (f, nItems, k) ← match kind with
    | "edge" => do
      let L ← parseLat j
      let k ← nat (← field j "k")
      let fixed ← listOf pairN (← field j "fixed")
      if fixed.any (fun p => p.1 ≥ k || p.2 ≥ L.E) then throw "precondition:fixed-range"
      pure (Cnf.encodeEdge L k fixed, L.E, k)
    | "lattice" => do
      let L ← parseLat j
      let fixed := Cnf.latticeFixed L
      if fixed.any (fun p => p.1 ≥ 3 || p.2 ≥ L.E) then throw "precondition:fixed-range"
      pure (Cnf.encodeEdge L 3 fixed, L.E, 3)
    | "vertex" => do
      let adj ← listOf pairN (← field j "adj")
      let k ← nat (← field j "k")
      pure (Cnf.encodeVertex adj k, Cnf.nVerticesOf adj, k)
    | "dimer" => do
      let L ← parseLat j
      pure (Cnf.encodeDimer ((List.range L.nV).map (rotAt L)), L.E, 0)
    | _ => throw "bad-kind"
  let nvars := if kind == "dimer" then nItems else nItems * k
  let dec := ms.map fun m =>
    let a := assignOfModel m
    if kind == "dimer" then (List.range nItems).map (Cnf.decodeDimer a) else (List.range nItems).map (Cnf.decode k a)
  let sats := ms.map fun m => Cnf.sat (assignOfModel m) f
  let cnt : Json := if wantCount && nvars ≤ 16 then jnat (Cnf.models nvars f).length else Json.null
  pure (Json.mkObj [("cnf", jformula f), ("nvars", jnat nvars), ("decoded", jlist jnats dec),
                    ("sat", Json.arr (sats.map Json.bool).toArray), ("count", cnt)])


/-! ### C14: plaquette spanning tree, n_to_ujk_flipped -/

def opTree (j : Json) : Except String Json := do
  let L ← parseLat j
  if !L.noSelfLoop then throw "precondition:self-loop"
  let R := rotOfTable (rotTable L)
  if anyStuck L R then throw "stuck"
  let ps := (plaquettes L R).map (·.darts)
  if ps.length == 0 then throw "precondition:no-plaquette"
  let S0 := Tree.sysOf ps
  -- tabulate the edge table once (same function, array-backed)
  let sidesArr := ((List.range L.E).map S0.sides).toArray
  let S : Tree.Sys := { S0 with sides := fun e => sidesArr.getD e (none, none) }
  let orders ← match fieldOpt j "orders" with | some o => listOf nats o | none => pure []
  let ords : Nat → List Nat → List Nat := fun n b =>
    match orders[n]? with | some idx => Tree.ordOfIndices idx b | none => b
  let r := Tree.run S ords (S.F - 1)
  let tree := Tree.chosen' r
  let u ← match fieldOpt j "u" with | some u => ints u | none => pure (List.replicate L.E 1)
  if u.length != L.E then throw "u-length"
  let ns ← match fieldOpt j "ns" with | some o => nats o | none => pure []
  if ns.any (fun n => n ≥ 2 ^ tree.length) then throw "precondition:n-range"
  let res := ns.map fun n =>
    let u' := Tree.nToUjkFlipped n (uOf u) tree
    Json.mkObj [("u", jints ((List.range L.E).map u')), ("fluxes", jints (ps.map fun w => flux u' w))]
  pure (Json.mkObj [("F", jnat S.F), ("tree", jlist jopt r.edgesIn), ("plaq_in", jnats r.plaqIn),
                    ("flipped", Json.arr res.toArray)])


/-! ### C06: flux-sector solver -/

def parseStep (j : Json) : Except String (Nat × Nat × List Nat × List Nat) := do
  pure (← nat (← field j "a"), ← nat (← field j "b"), ← nats (← field j "nodes"), ← nats (← field j "edges"))

def opSolve (j : Json) : Except String Json := do
  let L ← parseLat j
  if !L.noSelfLoop then throw "precondition:self-loop"
  let R := rotOfTable (rotTable L)
  if anyStuck L R then throw "stuck"
  let ps := (plaquettes L R).map (·.darts)
  let S0 := Tree.sysOf ps
  let sidesArr := ((List.range L.E).map S0.sides).toArray
  let S : Tree.Sys := { S0 with sides := fun e => sidesArr.getD e (none, none) }
  let variant ← str (← field j "variant")
  let signReal ← match fieldOpt j "sign_real" with | some s => ints s | none => pure []
  let phi : (Nat → Int) → Nat → Int ← match variant with
    | "new" => pure (fun u p => flux u (S.pdarts p))
    | "old" => pure (fun u p => fluxOld signReal u (S.pdarts p))
    | _ => throw "bad-variant"
  let target ← ints (← field j "target")
  let guess ← ints (← field j "guess")
  if target.length != S.F then throw "target-length"
  if guess.length != L.E then throw "guess-length"
  let steps ← listOf parseStep (← field j "steps")
  let tf : Nat → Int := fun p => Int.fdiv (uOf target p) (phi (uOf guess) p)
  let todo := Solver.negs S.F tf
  let s1 := Solver.adjacentPass S (List.range L.E) { bonds := uOf guess, toFlip := tf }
  let idx := Solver.negs S.F s1.toFlip
  let pairingOK := Solver.pairingOK idx (steps.map fun t => (t.1, t.2.1))
  let chains := steps.map fun t =>
    Solver.chainOK S t.2.2.1 t.2.2.2 && t.2.2.1.head? == some t.2.1 && t.2.2.1.getLast? == some t.1
      && t.2.2.2.eraseDups.length == t.2.2.2.length
  let r := Solver.isolatedPass s1 (steps.map fun t => (t.1, t.2.1, t.2.2.2))
  pure (Json.mkObj [("bonds", jints ((List.range L.E).map r.bonds)),
                    ("after_adjacent", jints ((List.range L.E).map s1.bonds)),
                    ("to_flip", jints ((List.range S.F).map r.toFlip)),
                    ("fluxes", jints ((List.range S.F).map (phi r.bonds))),
                    ("todo", jnat todo.length), ("isolated", jnats idx),
                    ("pairing_ok", Json.bool pairingOK), ("chains_ok", Json.arr (chains.map Json.bool).toArray)])


/-! ### C12: cutting, deleting, relabelling -/

def jlat (L : Lat) : List (String × Json) :=
  [("nV", jnat L.nV), ("edges", jlist jpairN L.edges), ("cross", jlist jpairI L.cross), ("pos", jlist jpairI L.pos)]

def opSurgery (j : Json) : Except String Json := do
  let L ← parseLat j
  let kind ← str (← field j "kind")
  match kind with
  | "cut" => do
    let bx ← bool (← field j "bx"); let bY ← bool (← field j "by")
    pure (Json.mkObj (jlat (Surgery.cut L bx bY)))
  | "remove" => do
    let idx ← nats (← field j "idx")
    if idx.any (· ≥ L.nV) then throw "precondition:index-out-of-range"
    pure (Json.mkObj (jlat (Surgery.removeVertices L idx) ++ [("removed_edges", jnats (Surgery.removedEdges L idx))]))
  | "trailing" => do
    let r := Surgery.trailing L
    let removedV := Surgery.danglingRounds L.nV (L.E + 1) L.edges []
    let rm : Nat → Bool := fun v => removedV.contains v
    let coreE := (Surgery.core L.E L.edges).map fun e => (Surgery.newIndex rm e.1, Surgery.newIndex rm e.2)
    pure (Json.mkObj (jlat r ++ [("core_agrees", Json.bool (coreE == r.edges)), ("removed_vertices", jnats removedV)]))
  | "permute" => do
    let o ← nats (← field j "ordering")
    if !Surgery.isPerm L.nV o then throw "precondition:not-a-permutation"
    pure (Json.mkObj (jlat (Surgery.permute L o)))
  | "reorder" => do
    let o ← nats (← field j "ordering")
    if !Surgery.isPerm L.nV o then throw "precondition:not-a-permutation"
    pure (Json.mkObj (jlat (Surgery.reorder L o)))
  | _ => throw "bad-kind"


/-! ### C09: pickling and equality -/

def opPickle (j : Json) : Except String Json := do
  let L ← parseLat j
  let ladder ← nats (← field j "ladder")
  let cw ← nat (← field j "crossing_width")
  match Pickle.getstate ladder cw L with
  | .error .tooManyVertices => throw "too-many-vertices"
  | .error .crossingDoesNotFit => throw "crossing-does-not-fit"
  | .ok s =>
    let r := Pickle.setstate L.scale s
    pure (Json.mkObj [("width", jnat s.width), ("pos", jlist jpairI s.pos), ("edges", jlist jpairN s.edges),
                      ("cross", jlist jpairI s.cross), ("eq", Json.bool (Pickle.latEq L r)),
                      ("restored_edges_equal", Json.bool (r.edges == L.edges && r.cross == L.cross && r.nV == L.nV))])

def opLatEq (j : Json) : Except String Json := do
  let A ← parseLat (← field j "a")
  let B ← parseLat (← field j "b")
  if A.scale != B.scale then throw "scale-mismatch"
  let ms := Pickle.eqMargins A B
  -- margin relative to the tolerance: |(100Δ)²·n − S²| / S²  ≥ 1e-6 ?  reported as a boolean to keep numbers small
  let tight := ms.any fun m => decide (m.natAbs * 1000000 < (A.scale ^ 2).natAbs)
  pure (Json.mkObj [("eq", Json.bool (Pickle.latEq A B)), ("eq_rev", Json.bool (Pickle.latEq B A)), ("tight", Json.bool tight)])


/-! ### C10: generators (index level) -/

def jecs (x : G10.ECs) : List (String × Json) :=
  [("edges", jlist jpairN (x.map (·.1))), ("cross", jlist jpairI (x.map (·.2)))]

def opGen (j : Json) : Except String Json := do
  let kind ← str (← field j "kind")
  match kind with
  | "tile" => do
    let k ← nat (← field j "k"); let ue ← listOf pairN (← field j "uedges"); let uc ← listOf pairI (← field j "ucross")
    let nx ← nat (← field j "nx"); let ny ← nat (← field j "ny")
    if ue.length != uc.length then throw "cross-length"
    pure (Json.mkObj (jecs (G10.tile k ue uc nx ny)))
  | "honeycomb" => do
    let n ← nat (← field j "n")
    let nv := G10.nVertical n
    pure (Json.mkObj (jecs (G10.honeycomb n nv) ++ [("coloring", jnats (G10.honeycombColouring n nv)), ("n_vertical", jnat nv)]))
  | "hso" => do pure (Json.mkObj (jecs (G10.hso (← nat (← field j "n")))))
  | "square" => do pure (Json.mkObj (jecs (G10.square (← nat (← field j "nx")) (← nat (← field j "ny")))))
  | "single" => do pure (Json.mkObj (jecs (G10.singlePlaquette (← nat (← field j "n")))))
  | "wheel" => do pure (Json.mkObj (jecs (G10.wheel (← nat (← field j "n")))))
  | "ladder" => do pure (Json.mkObj (jecs (G10.ladder (← nat (← field j "n")))))
  | _ => throw "bad-kind"


/-! ### C07 / C08: Hamiltonians (integer level) -/

def opMajorana (j : Json) : Except String Json := do
  let n ← nat (← field j "nV")
  let edges ← listOf pairN (← field j "edges")
  let w ← ints (← field j "w")
  if w.length != edges.length then throw "w-length"
  if edges.any (fun e => e.1 ≥ n || e.2 ≥ n) then throw "edge-out-of-range"
  let gauges ← match fieldOpt j "gauge_at" with | some g => nats g | none => pure []
  let gm := gauges.map fun v => jlist jints (Ham.majMatrix n edges (Ham.gaugeW edges w v))
  pure (Json.mkObj [("A", jlist jints (Ham.majMatrix n edges w)), ("gauged", Json.arr gm.toArray)])

def opBloch (j : Json) : Except String Json := do
  let n ← nat (← field j "nV")
  let edges ← listOf pairN (← field j "edges")
  let cross ← listOf pairI (← field j "cross")
  let w ← ints (← field j "w")
  let qs ← listOf pairI (← field j "qs")
  if w.length != edges.length || cross.length != edges.length then throw "length"
  if edges.any (fun e => e.1 ≥ n || e.2 ≥ n) then throw "edge-out-of-range"
  let ms := qs.map fun q => jlist (jlist jpairI) (Ham.blochMatrix n edges cross w q)
  pure (Json.mkObj [("H2", Json.arr ms.toArray)])


/-! ### C18: markers (exact) -/

def opMarker (j : Json) : Except String Json := do
  let N ← listOf (listOf pairI) (← field j "N")
  let xs ← ints (← field j "xs")
  let ys ← ints (← field j "ys")
  let n := N.length
  if N.any (fun r => r.length != n) || xs.length != n || ys.length != n then throw "shape"
  let cross ← match fieldOpt j "crosshairs" with | some c => listOf pairI c | none => pure []
  let ch := cross.map fun c => jints (Marker.crosshair N xs ys c.1 c.2)
  pure (Json.mkObj [("chern", jints (Marker.chern N xs ys)), ("crosshair", Json.arr ch.toArray)])


/-! ### C19: blue noise as a function of the recorded draws -/

def parseIter (j : Json) : Except String (Nat × List (Int × Int)) := do
  pure (← nat (← field j "pos"), ← listOf pairI (← field j "cands"))

def opBluenoise (j : Json) : Except String Json := do
  let S ← int (← field j "S")
  let nx ← nat (← field j "nx"); let ny ← nat (← field j "ny"); let k ← nat (← field j "k")
  let x0 ← pairI (← field j "x0")
  let its ← listOf parseIter (← field j "iterations")
  let r := Points.run S nx ny k x0 its
  -- smallest margin of any accept/reject decision against the spacing (dist² vs S²) over all candidates: reported so that
  -- float ties can be excluded
  pure (Json.mkObj [("samples", jlist jpairI r.samples), ("active", jnats r.active)])


/-! ### C11: A* with IEEE doubles -/

def opAstar (j : Json) : Except String Json := do
  let adjL ← listOf (listOf pairN) (← field j "adj")
  let hbits ← listOf (listOf nat) (← field j "h")
  let adjA := adjL.toArray
  let hA : Array (Array Float) := (hbits.map fun r => (r.map fun b => Float.ofBits (UInt64.ofNat b)).toArray).toArray
  let adj : Nat → List (Nat × Nat) := fun p => adjA.getD p []
  let h : Nat → Nat → Float := fun a b => (hA.getD a #[]).getD b 0.0
  let queries ← listOf (fun q => do
      pure (← nat (← field q "start"), ← nat (← field q "goal"), ← bool (← field q "early"), ← nat (← field q "maxits"))) (← field j "queries")
  let res := queries.map fun q =>
    match Path.path adj h (0.0 : Float) q.1 q.2.1 q.2.2.1 q.2.2.2 with
    | none => Json.mkObj [("found", Json.bool false)]
    | some (ns, es) => Json.mkObj [("found", Json.bool true), ("nodes", jnats ns), ("edges", jnats es),
                                   ("valid", Json.bool (C11Exec.validChainB adj ns es))]
  pure (Json.mkObj [("paths", Json.arr res.toArray)])

def opMetric (j : Json) : Except String Json := do
  let S ← int (← field j "S")
  let pairs ← listOf (listOf pairI) (← field j "pairs")
  let res := pairs.map fun pq =>
    let a := pq.getD 0 (0, 0); let b := pq.getD 1 (0, 0)
    Json.arr #[jint (Path.periodic2 S a b), jint (Path.euclid2 a b)]
  pure (Json.mkObj [("d2", Json.arr res.toArray)])


/-! ### C13: dual and truncation (exact) -/

def opDual (j : Json) : Except String Json := do
  let L ← parseLat j
  if !L.noSelfLoop then throw "precondition:self-loop"
  let R := rotOfTable (rotTable L)
  if anyStuck L R then throw "stuck"
  let pl := plaquettes L R
  let ps := pl.map (·.darts)
  -- centre of plaquette p = cnum / (3·area2) in scaled units; as a fraction of a cell: cnum / (3·area2·scale)
  let cen := pl.map fun p => (p.cnum, 3 * p.area2 * L.scale)
  let de := Dual.dualEdges L.E ps
  let rows := de.map fun eab =>
    let (ca, Da) := cen.getD eab.2.1 ((0, 0), 1)
    let (cb, Db) := cen.getD eab.2.2 ((0, 0), 1)
    let D := Da * Db
    let ax := ca.1 * Db; let ay := ca.2 * Db; let bx := cb.1 * Da; let bY := cb.2 * Da
    let cx := Dual.dualCross1 ax bx D; let cy := Dual.dualCross1 ay bY D
    -- distance of the rounding argument from a half-integer, relative: tight when |2|a%D − b%D| − D| < D / 10^9
    let m1 := (2 * (ax % D - bx % D).natAbs : Int) - D; let m2 := (2 * (ay % D - bY % D).natAbs : Int) - D
    -- a centre coordinate within 1e-9 of the cell wall is non-generic too (`% 1` jumps there)
    let wall := fun (x : Int) => (x % D) * 1000000000 < D || (D - x % D) * 1000000000 < D
    let tight := m1.natAbs * 1000000000 < D.natAbs || m2.natAbs * 1000000000 < D.natAbs || wall ax || wall ay || wall bx || wall bY
    Json.mkObj [("e", jnat eab.1), ("a", jnat eab.2.1), ("b", jnat eab.2.2), ("c", jpairI (cx, cy)), ("tight", Json.bool tight)]
  let verts := cen.map fun cd => Json.arr #[jint (cd.1.1 % cd.2), jint (cd.1.2 % cd.2), jint cd.2]
  pure (Json.mkObj [("edges", Json.arr rows.toArray), ("verts", Json.arr verts.toArray)])

def opTruncate (j : Json) : Except String Json := do
  let L ← parseLat j
  if !L.noSelfLoop then throw "precondition:self-loop"
  let chosen ← nats (← field j "chosen")
  let T := Dual.truncate L fun n => chosen.contains n
  pure (Json.mkObj (jlat T ++ [("scale", jint T.scale)]))


/-! ### C20: sampling points (exact) -/

def jtriple (t : Int × Int × Int) : Json := Json.arr #[jint t.1, jint t.2.1, jint t.2.2]

def opSampling (j : Json) : Except String Json := do
  let s ← nat (← field j "samples")
  if s < 2 then throw "precondition:samples<2"
  let ties := ((Phase.grid s).filter (Phase.tieSym s)).length
  pure (Json.mkObj [("den", jint (2 * ((s : Int) - 1))), ("plain", jlist jtriple (Phase.plain s)),
                    ("symmetric", jlist jtriple (Phase.symmetric s)), ("ties", jnat ties)])


/-! ### C03: periodic bookkeeping of the Voronoi generator -/

def opVoro (j : Json) : Except String Json := do
  let S ← int (← field j "S")
  let verts ← listOf pairI (← field j "verts")
  let ridges ← listOf pairI (← field j "ridges")
  let o := Voro.process S verts ridges
  pure (Json.mkObj [("edges", jlist jpairN o.edges), ("cross", jlist jpairI o.cross), ("verts", jnats o.verts)])


/-! ### C16: segment intersection (exact) -/

def opIntersect (j : Json) : Except String Json := do
  let pairs ← listOf (listOf pairI) (← field j "pairs")
  let res := pairs.map fun q =>
    match Plot.intersects (q.getD 0 (0, 0)) (q.getD 1 (0, 0)) (q.getD 2 (0, 0)) (q.getD 3 (0, 0)) with
    | some b => Json.bool b
    | none => Json.null
  pure (Json.mkObj [("hit", Json.arr res.toArray)])


/-- exact clip fractions: each case is `[pxn, pxd, pyn, pyd, dxn, dxd, dyn, dyd]` (numerators / denominators) -/
def opClipfrac (j : Json) : Except String Json := do
  let cases ← listOf ints (← field j "cases")
  let res := cases.map fun c =>
    let q (i : Nat) : Rat := mkRat (c.getD (2 * i) 0) (c.getD (2 * i + 1) 1).toNat
    let f := Plot.frac (q 0, q 1) (q 2, q 3)
    jints [f.num, (f.den : Int)]
  pure (Json.mkObj [("frac", Json.arr res.toArray)])

/-- the mask `vis` of `plot_edges`: each case is `[s1n, s1d, s2n, s2d, e1n, e1d, e2n, e2d]` (start, end as numerators / denominators) -/
def opVisible (j : Json) : Except String Json := do
  let cases ← listOf ints (← field j "cases")
  let res := cases.map fun c =>
    let q (i : Nat) : Rat := mkRat (c.getD (2 * i) 0) (c.getD (2 * i + 1) 1).toNat
    Json.bool (Plot.visible (q 0, q 1) (q 2, q 3))
  pure (Json.mkObj [("vis", Json.arr res.toArray)])

/-- the offsets of the copies `plot_plaquettes` draws: each polygon is a list of corners `[xn, xd, yn, yd]` -/
def opPolyOffsets (j : Json) : Except String Json := do
  let polys ← listOf (listOf ints) (← field j "polys")
  let res := polys.map fun poly =>
    let pts : List (Rat × Rat) := poly.map fun c => (mkRat (c.getD 0 0) (c.getD 1 1).toNat, mkRat (c.getD 2 0) (c.getD 3 1).toNat)
    Json.arr ((Plot.polyOffsets pts).map fun (a, b) => jints [a, b]).toArray
  pure (Json.mkObj [("offsets", Json.arr res.toArray)])

/-- `_broadcast_args` on a batch of (N, subset, argument) cases; the argument is a scalar (`x`) or an array (`xs`) -/
def opBroadcast (j : Json) : Except String Json := do
  let cases ← listOf (fun c => do
      let N ← nat (← field c "N")
      let subset ← nats (← field c "subset")
      let lab ← match field c "x" with
        | .ok x => do pure (Plot.Labels.scalar (← int x))
        | .error _ => do pure (Plot.Labels.array (← ints (← field c "xs")))
      pure (N, subset, lab)) (← field j "cases")
  let res := cases.map fun (N, subset, lab) =>
    match Plot.broadcast N subset lab with
    | some l => jints l
    | none => Json.null
  pure (Json.mkObj [("out", Json.arr res.toArray)])


/-! ### C17: index space of the de Bruijn grid -/

def opQuasi (j : Json) : Except String Json := do
  let B ← nat (← field j "B")
  let idx ← listOf ints (← field j "idx")
  let edges ← listOf pairN (← field j "edges")
  let gens ← listOf (fun g => do pure (← nat (← field g "pivot"), ← ints (← field g "vec"))) (← field j "gens")
  if idx.any (fun x => x.length != B) then throw "index-length"
  let bundles := edges.map fun e =>
    match Quasi.starOf B (Quasi.subI (idx.getD e.2 []) (idx.getD e.1 [])) with
    | some (b, neg) => jint (if neg then -(b : Int) - 1 else (b : Int) + 1)
    | none => Json.null
  pure (Json.mkObj [("edges_are_star", Json.bool (Quasi.edgesAreStar B idx edges)), ("bundles", Json.arr bundles.toArray),
                    ("distinct", Json.bool (Quasi.allDistinct (idx.map (Quasi.reduce gens))))])

def dispatch (op : String) (j : Json) : Except String Json :=
  match op with
  | "plaquettes" => opPlaquettes j
  | "tables" => opTables j
  | "fluxes" => opFluxes j
  | "cnf" => opCnf j
  | "tree" => opTree j
  | "solve" => opSolve j
  | "surgery" => opSurgery j
  | "pickle" => opPickle j
  | "gen" => opGen j
  | "majorana" => opMajorana j
  | "bloch" => opBloch j
  | "marker" => opMarker j
  | "bluenoise" => opBluenoise j
  | "astar" => opAstar j
  | "dual" => opDual j
  | "sampling" => opSampling j
  | "voro" => opVoro j
  | "intersect" => opIntersect j
  | "broadcast" => opBroadcast j
  | "clipfrac" => opClipfrac j
  | "visible" => opVisible j
  | "polyoffsets" => opPolyOffsets j
  | "quasi" => opQuasi j
  | "truncate" => opTruncate j
  | "metric" => opMetric j
  | "lateq" => opLatEq j
  | _ => throw "bad-op"

def handle (line : String) : String :=
  match Json.parse line with
  | .error _ => "{\"err\":\"bad-json\"}"
  | .ok j =>
    match (do let op ← str (← field j "op"); dispatch op j) with
    | .ok r => r.compress
    | .error e => (Json.mkObj [("err", Json.str e)]).compress

partial def loop (h : IO.FS.Stream) (out : IO.FS.Stream) : IO Unit := do
  let line ← h.getLine
  if line.isEmpty then return ()
  out.putStrLn (handle line)
  loop h out

def main : IO Unit := do loop (← IO.getStdin) (← IO.getStdout)
