import KoalaVerif.Model.All
import KoalaVerif.Props.C01
