import KoalaVerif.Model.Lattice
import KoalaVerif.Lemmas.CMap
import KoalaVerif.Lemmas.Orbit
import KoalaVerif.Lemmas.Sweep
import KoalaVerif.Lemmas.Glue
