import KoalaVerif.Model.All
import KoalaVerif.Props.C01
import KoalaVerif.Props.C02
import KoalaVerif.Props.C04
import KoalaVerif.Props.C05
import KoalaVerif.Props.C06
import KoalaVerif.Props.C12
import KoalaVerif.Props.C14
