import KoalaVerif.Model.Tables

/-! Executable model of the CNF encodings of `koala.graph_color` (vertex / edge colouring) and of
    `koala.graph_utils.dimerise`, of the decoding of solver models, and a brute-force model
    counter used by the driver on small instances (import-free).

    Literals are structural `(variable, positive?)`; the driver prints DIMACS integers. -/

namespace Cnf

abbrev Lit : Type := Nat × Bool           -- (variable, positive?)
abbrev Clause : Type := List Lit
abbrev Formula : Type := List Clause

/-- `l[i, j] = i * n_colors + j + 1` -/
def var (k i j : Nat) : Nat := i * k + j + 1

def litTrue (a : Nat → Bool) (l : Lit) : Bool := if l.2 then a l.1 else !(a l.1)
def clauseSat (a : Nat → Bool) (c : Clause) : Bool := c.any (litTrue a)
def sat (a : Nat → Bool) (f : Formula) : Bool := f.all (clauseSat a)

/-- the negative pairs of pysat's `CardEnc.equals(lits, bound=1, encoding=pairwise)` -/
def negPairs : List Nat → Formula
  | [] => []
  | x :: xs => xs.map (fun y => [(x, false), (y, false)]) ++ negPairs xs

/-- pysat's pairwise exactly-one: one at-least-one clause, then every negative pair (no auxiliaries) -/
def exactlyOne (vs : List Nat) : Formula := vs.map (fun v => (v, true)) :: negPairs vs

def itemVars (k i : Nat) : List Nat := (List.range k).map fun j => var k i j

/-- `[[-l[i,c], -l[j,c]] for c in range(n_colors)]` -/
def conflict (k i i' : Nat) : Formula := (List.range k).map fun c => [(var k i c, false), (var k i' c, false)]

/-- items `0..n-1`, `adj` = the (ordered) pairs of conflicting items the loops visit,
    `fixed` = `(colour, item)` unit clauses -/
def encode (k n : Nat) (adj : List (Nat × Nat)) (fixed : List (Nat × Nat)) : Formula :=
  ((List.range n).map fun i => exactlyOne (itemVars k i)).flatten ++
  (adj.map fun p => conflict k p.1 p.2).flatten ++
  fixed.map fun p => [(var k p.2 p.1, true)]

/-- the pairs `(i, j)` visited by `for i in range(n_edges): for j in edge_neighbours(lattice, i)` -/
def edgeAdj (L : Lat) : List (Nat × Nat) :=
  (List.range L.E).flatMap fun i => (Tab.edgeNeighbours L i).map fun j => (i, j)

def encodeEdge (L : Lat) (k : Nat) (fixed : List (Nat × Nat)) : Formula := encode k L.E (edgeAdj L) fixed

/-- `vertex_color(adjacency, n_colors)`: `n_vertices = max(adjacency) + 1` -/
def nVerticesOf (adj : List (Nat × Nat)) : Nat := adj.foldl (fun m p => max m (max p.1 p.2 + 1)) 0

def encodeVertex (adj : List (Nat × Nat)) (k : Nat) : Formula := encode k (nVerticesOf adj) adj []

/-- `dimerise`: for every vertex, exactly one of its incident edges (variable = edge index + 1) -/
def encodeDimer (rows : List (List Nat)) : Formula := (rows.map fun r => exactlyOne (r.map (· + 1))).flatten

/-- `np.array(model).reshape(n, k).argmax(-1)` on a signed model: the highest true colour of the item,
    colour 0 when none is true (the least negative entry is the first) -/
def decode (k : Nat) (a : Nat → Bool) (i : Nat) : Nat :=
  (((List.range k).filter fun j => a (var k i j)).getLast?).getD 0

/-- `(sign(model) + 1) // 2` -/
def decodeDimer (a : Nat → Bool) (e : Nat) : Nat := if a (e + 1) then 1 else 0

/-- `fixed = enumerate(clockwise_edges_about(0))` of `color_lattice` -/
def latticeFixed (L : Lat) : List (Nat × Nat) := (Tab.clockwiseAbout L 0).zipIdx.map fun p => (p.2, p.1)

def toDimacs (l : Lit) : Int := if l.2 then (l.1 : Int) else -(l.1 : Int)

/-! brute-force model enumeration over the variables `1..m` (driver, small instances only) -/

def assignmentOf (bits : List Bool) : Nat → Bool := fun v => if v = 0 then false else bits.getD (v - 1) false

def allBits : Nat → List (List Bool)
  | 0 => [[]]
  | n + 1 => (allBits n).flatMap fun b => [false :: b, true :: b]

def models (m : Nat) (f : Formula) : List (List Bool) := (allBits m).filter fun b => sat (assignmentOf b) f

end Cnf
