import KoalaVerif.Model.Lattice

/-! Executable model of `lattice.cut_boundaries`, `graph_utils.remove_vertices`,
    `graph_utils.remove_trailing_edges`, `lattice.permute_vertices`, `graph_utils.reorder_vertices`
    (import-free; `Props/C12.lean` proves the boundary mask equal to the kernel translated from the source). -/

namespace Surgery

/-- keep the rows of `xs` whose index satisfies `keep` (`a[mask]`, `np.delete(a, rows)`) -/
def filterIdx {α : Type} (keep : Nat → Bool) (xs : List α) : List α :=
  (xs.zipIdx.filter fun p => keep p.2).map (·.1)

/-! ### cut_boundaries -/

/-- the boolean mask of `cut_boundaries`: `(1 - x_external*cut_x) * (1 - y_external*cut_y) != 0` -/
def cutKeep (L : Lat) (bx bY : Bool) (e : Nat) : Bool :=
  let c := L.crossOf e
  !(bx && c.1 != 0) && !(bY && c.2 != 0)

def cut (L : Lat) (bx bY : Bool) : Lat :=
  { L with edges := filterIdx (cutKeep L bx bY) L.edges, cross := filterIdx (cutKeep L bx bY) L.cross }

/-! ### remove_vertices -/

/-- `np.cumsum(set_for_removal)[v]` -/
def cumRemoved (removed : Nat → Bool) (v : Nat) : Nat := ((List.range (v + 1)).filter removed).length

/-- `new_index = arange(n) - cumsum(set_for_removal)` (the entries of removed vertices are never used) -/
def newIndex (removed : Nat → Bool) (v : Nat) : Nat := v - cumRemoved removed v

def edgeKept (L : Lat) (removed : Nat → Bool) (e : Nat) : Bool :=
  !(removed (L.endsOf e).1) && !(removed (L.endsOf e).2)

def removeVertices (L : Lat) (idx : List Nat) : Lat :=
  let removed : Nat → Bool := fun v => idx.contains v
  { nV := ((List.range L.nV).filter fun v => !removed v).length
    edges := (filterIdx (edgeKept L removed) L.edges).map fun e => (newIndex removed e.1, newIndex removed e.2)
    cross := filterIdx (edgeKept L removed) L.cross
    pos := filterIdx (fun v => !removed v) L.pos
    scale := L.scale }

/-- `edges_to_remove` as a set: the edges with a removed endpoint -/
def removedEdges (L : Lat) (idx : List Nat) : List Nat :=
  (List.range L.E).filter fun e => !(edgeKept L (fun v => idx.contains v) e)

/-! ### remove_trailing_edges (edge level: original labels; see `trailing`) -/

def deg (es : List (Nat × Nat)) (v : Nat) : Nat :=
  (es.filter fun e => e.1 == v).length + (es.filter fun e => e.2 == v).length

def keepE (es : List (Nat × Nat)) (e : Nat × Nat) : Bool := deg es e.1 != 1 && deg es e.2 != 1

/-- one round: drop every edge touching a degree-one vertex -/
def prune (es : List (Nat × Nat)) : List (Nat × Nat) := es.filter (keepE es)

def core : Nat → List (Nat × Nat) → List (Nat × Nat)
  | 0, es => es
  | fuel + 1, es => if prune es = es then es else core fuel (prune es)

/-- the vertices that are dangling in some round of the loop -/
def danglingRounds (nV : Nat) : Nat → List (Nat × Nat) → List Nat → List Nat
  | 0, _, acc => acc
  | fuel + 1, es, acc =>
    let d := (List.range nV).filter fun v => deg es v == 1
    if d.isEmpty then acc else danglingRounds nV fuel (prune es) (acc ++ d)

/-- `remove_trailing_edges`: the staged removals of the loop compose to one removal of every vertex that was
    dangling in some round (the renumbering is order preserving, so stages commute with it) -/
def trailing (L : Lat) : Lat := removeVertices L (danglingRounds L.nV (L.E + 1) L.edges [])

/-! ### permute_vertices / reorder_vertices -/

/-- `inverse_ordering[ordering] = arange(n)` -/
def inversePerm (ordering : List Nat) : Nat → Nat := fun a => ordering.idxOf a

def permute (L : Lat) (ordering : List Nat) : Lat :=
  { L with pos := ordering.map L.posOf
           edges := L.edges.map fun e => (inversePerm ordering e.1, inversePerm ordering e.2) }

/-- `reorder_vertices`: `new_pos = pos[argsort(permutation)]`, `new_edges = permutation[edges]` -/
def reorder (L : Lat) (perm : List Nat) : Lat :=
  { L with pos := (List.range perm.length).map fun j => L.posOf (perm.idxOf j)
           edges := L.edges.map fun e => (perm.getD e.1 0, perm.getD e.2 0) }

def isPerm (n : Nat) (l : List Nat) : Bool := l.length == n && (List.range n).all fun i => l.contains i

end Surgery
