/-! Exact executable model of `chern_number.crosshair_marker` / `chern_marker` (import-free).

A projector with rational (Gaussian) entries is sent as `P = N / d` with `N` a matrix of Gaussian integers
and `d` a positive integer; positions and the crosshair are scaled integers.  The model returns the integers
`Im diag(N·A·N·B·N)`; the marker is `4π` times that, divided by `d³` (and by the coordinate scale² for the
Chern marker). -/

namespace Marker

abbrev GI : Type := Int × Int
def gadd (a b : GI) : GI := (a.1 + b.1, a.2 + b.2)
def gmul (a b : GI) : GI := (a.1 * b.1 - a.2 * b.2, a.1 * b.2 + a.2 * b.1)
def gscale (c : Int) (a : GI) : GI := (c * a.1, c * a.2)

abbrev Mat : Type := List (List GI)

def row (M : Mat) (i : Nat) : List GI := M.getD i []
def entry (M : Mat) (i j : Nat) : GI := (row M i).getD j (0, 0)

/-- `M · diag(a)` -/
def mulDiag (M : Mat) (a : List Int) : Mat := M.map fun r => (r.zip a).map fun xa => gscale xa.2 xa.1

def dot (r : List GI) (c : List GI) : GI := ((r.zip c).map fun xy => gmul xy.1 xy.2).foldl gadd (0, 0)

def col (M : Mat) (j : Nat) : List GI := M.map fun r => r.getD j (0, 0)

def mul (A B : Mat) (n : Nat) : Mat := A.map fun r => (List.range n).map fun j => dot r (col B j)

/-- `θ`: the indicator of positions strictly below the crosshair coordinate -/
def theta (c : Int) (xs : List Int) : List Int := xs.map fun x => if x < c then 1 else 0

/-- `Im diag(N·diag(a)·N·diag(b)·N)` -/
def markerDiagIm (N : Mat) (a b : List Int) : List Int :=
  let n := N.length
  let X := mul (mul (mulDiag N a) (mulDiag N b) n) N n
  (List.range n).map fun i => (entry X i i).2

def crosshair (N : Mat) (xs ys : List Int) (cx cy : Int) : List Int := markerDiagIm N (theta cx xs) (theta cy ys)
def chern (N : Mat) (xs ys : List Int) : List Int := markerDiagIm N xs ys

end Marker
