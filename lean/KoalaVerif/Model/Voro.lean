/-! Exact executable model of koala's post-processing of the replicated Voronoi diagram in
    `voronization.generate_lattice` (everything after the `Voronoi(points)` call and the optional vertex shift)
    (import-free).  Vertices are exact dyadic rationals scaled by `S` (one cell = `S`); ridges are pairs of vertex
    indices, `−1` marking an infinite ridge. -/

namespace Voro

abbrev Pt : Type := Int × Int

/-- `np.all((0 < v) & (v <= 1))`: the half-open unit cell `(0, 1]²` -/
def inCell (S : Int) (v : Pt) : Bool := decide (0 < v.1) && decide (v.1 ≤ S) && decide (0 < v.2) && decide (v.2 ≤ S)

def vget (verts : List Pt) (i : Int) : Pt := if i < 0 then verts.getLastD (0, 0) else verts.getD i.toNat (0, 0)   -- `vertices[-1]` is the last row

def finite (r : Int × Int) : Bool := decide (r.1 ≠ -1) && decide (r.2 ≠ -1)

def nInCell (S : Int) (verts : List Pt) (r : Int × Int) : Nat :=
  (if inCell S (vget verts r.1) then 1 else 0) + (if inCell S (vget verts r.2) then 1 else 0)

def floorCell (S : Int) (v : Pt) : Int × Int := (Int.fdiv v.1 S, Int.fdiv v.2 S)
def modCell (S : Int) (v : Pt) : Pt := (Int.fmod v.1 S, Int.fmod v.2 S)

def dist2 (a b : Pt) : Int := (a.1 - b.1) ^ 2 + (a.2 - b.2) ^ 2

/-- `kdtree.query(p, k=1)`: index of a nearest vertex (the first one on exact ties) -/
def nearest (verts : List Pt) (p : Pt) : Nat :=
  (verts.zipIdx.foldl (fun (best : Option (Int × Nat)) vi =>
      let d := dist2 vi.1 p
      match best with
      | none => some (d, vi.2)
      | some (bd, bi) => if d < bd then some (d, vi.2) else some (bd, bi)) none).elim 0 (·.2)

structure CrossEdge where
  a : Nat            -- in-cell representative of the first (smaller window index) end
  b : Nat
  c : Int × Int      -- `floor(v[second]) − floor(v[first])`
  deriving DecidableEq, Repr

/-- one half-inside ridge: sort its two window indices, take the floor difference, map both ends to the cell -/
def crossEdge (S : Int) (verts : List Pt) (r : Int × Int) : CrossEdge :=
  let lo := min r.1 r.2; let hi := max r.1 r.2
  let vlo := vget verts lo; let vhi := vget verts hi
  let f0 := floorCell S vlo; let f1 := floorCell S vhi
  { a := nearest verts (modCell S vlo), b := nearest verts (modCell S vhi), c := (f1.1 - f0.1, f1.2 - f0.2) }

/-- `edge_key`: the pair sorted (stable), the crossing multiplied by `2·swapped − 1` -/
def key (e : CrossEdge) : Nat × Nat × Int × Int :=
  if e.a ≤ e.b then (e.a, e.b, -e.c.1, -e.c.2) else (e.b, e.a, e.c.1, e.c.2)

def keyLt (x y : Nat × Nat × Int × Int) : Bool :=
  decide (x.1 < y.1) || (x.1 == y.1 && (decide (x.2.1 < y.2.1) || (x.2.1 == y.2.1 &&
    (decide (x.2.2.1 < y.2.2.1) || (x.2.2.1 == y.2.2.1 && decide (x.2.2.2 < y.2.2.2))))))

def insertSorted (e : CrossEdge) : List CrossEdge → List CrossEdge
  | [] => [e]
  | x :: xs => if keyLt (key e) (key x) then e :: x :: xs else x :: insertSorted e xs

/-- insert into a list sorted by key unless an edge with the same key is already there (the *first* occurrence is kept) -/
def insertKey (e : CrossEdge) (l : List CrossEdge) : List CrossEdge :=
  if l.any (fun x => key x == key e) then l else insertSorted e l

/-- `np.unique(edge_key, axis=0, return_index=True)`: one edge per key (its first occurrence), ordered by key -/
def dedup (es : List CrossEdge) : List CrossEdge := es.foldl (fun acc e => insertKey e acc) []

structure Out where
  edges : List (Nat × Nat)          -- window indices of the kept (in-cell) vertices
  cross : List (Int × Int)
  verts : List Nat                  -- the window indices used (sorted, duplicate free)

def insNat (x : Nat) : List Nat → List Nat
  | [] => [x]
  | y :: ys => if x = y then y :: ys else if x < y then x :: y :: ys else y :: insNat x ys

def process (S : Int) (verts : List Pt) (ridges : List (Int × Int)) : Out :=
  let fin := ridges.filter finite
  let inside := (fin.filter fun r => nInCell S verts r == 2).map fun r => (r.1.toNat, r.2.toNat)
  let crossing := dedup ((fin.filter fun r => nInCell S verts r == 1).map (crossEdge S verts))
  let edges := inside ++ crossing.map fun e => (e.a, e.b)
  let cross := inside.map (fun _ => ((0 : Int), (0 : Int))) ++ crossing.map (·.c)
  { edges := edges, cross := cross, verts := (edges.flatMap fun e => [e.1, e.2]).foldl (fun acc x => insNat x acc) [] }

end Voro
