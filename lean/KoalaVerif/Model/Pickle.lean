import KoalaVerif.Model.Lattice

/-! Executable model of `Lattice.__getstate__`, `__setstate__` and `__eq__` (import-free).

Positions are exact dyadic rationals `m / 2^s` (the harness sends every double that way); `r32` is IEEE
round-to-nearest-even to a 24-bit significand, computed exactly on such numbers (normal range). -/

namespace Pickle

/-- the ladder of `__getstate__`: the first width `w` with `n_vertices ≤ 2^w − 1` (`np.iinfo(dtype).max`) -/
def chooseWidth (ladder : List Nat) (nV : Nat) : Option Nat := ladder.find? fun w => decide (nV ≤ 2 ^ w - 1)

/-- `astype(uintW)` of a non-negative integer -/
def narrow (w : Nat) (x : Nat) : Nat := x % 2 ^ w

/-- `astype(int8)` (two's complement wrap) -/
def toSigned (w : Nat) (c : Int) : Int := (c + 2 ^ (w - 1)) % 2 ^ w - 2 ^ (w - 1)

/-- `check_fits(crossing, int8)` -/
def fits (w : Nat) (cs : List (Int × Int)) : Bool :=
  cs.all fun c => decide (-(2 ^ (w - 1) : Int) ≤ c.1 ∧ c.1 ≤ 2 ^ (w - 1) - 1 ∧ -(2 ^ (w - 1) : Int) ≤ c.2 ∧ c.2 ≤ 2 ^ (w - 1) - 1)

def bitLen : Nat → Nat → Nat
  | 0, _ => 0
  | fuel + 1, m => if m = 0 then 0 else 1 + bitLen fuel (m / 2)

/-- round the non-negative integer `m` to a multiple of `2^shift` with at most `p` significant bits,
    nearest, ties to even: the float32 rounding of `m / 2^s` is `r m / 2^s` -/
def roundSig (p : Nat) (m : Nat) : Nat :=
  let b := bitLen (m + 1) m
  if b ≤ p then m
  else
    let shift := b - p
    let q := m / 2 ^ shift
    let rem := m % 2 ^ shift
    let half := 2 ^ (shift - 1)
    let q' := if rem > half || (rem == half && q % 2 == 1) then q + 1 else q
    q' * 2 ^ shift

def r32 (x : Int) : Int := if x < 0 then -(roundSig 24 x.natAbs : Int) else (roundSig 24 x.natAbs : Int)

structure State where
  width : Nat
  pos : List (Int × Int)
  edges : List (Nat × Nat)
  cross : List (Int × Int)

inductive Err where
  | tooManyVertices | crossingDoesNotFit
  deriving DecidableEq, Repr

/-- `__getstate__` -/
def getstate (ladder : List Nat) (cw : Nat) (L : Lat) : Except Err State :=
  match chooseWidth ladder L.nV with
  | none => .error .tooManyVertices
  | some w =>
    if !fits cw L.cross then .error .crossingDoesNotFit
    else .ok { width := w
               pos := L.pos.map fun p => (r32 p.1, r32 p.2)
               edges := L.edges.map fun e => (narrow w e.1, narrow w e.2)
               cross := L.cross.map fun c => (toSigned cw c.1, toSigned cw c.2) }

/-- `__setstate__` (tuple branch): widen and re-run the constructor -/
def setstate (scale : Int) (s : State) : Lat :=
  { nV := s.pos.length, edges := s.edges, cross := s.cross, pos := s.pos, scale := scale }

/-- `Lattice.__eq__` on two lattices with a common coordinate scale: shape guard, positions within
    `1/(100·√n)` (compared as squares: `(100·Δ)²·n ≤ scale²`), edges and crossings identical -/
def latEq (A B : Lat) : Bool :=
  A.pos.length == B.pos.length && A.edges.length == B.edges.length &&
  ((A.pos.zip B.pos).all fun pq =>
      decide ((100 * (pq.1.1 - pq.2.1)) ^ 2 * (A.pos.length : Int) ≤ A.scale ^ 2) &&
      decide ((100 * (pq.1.2 - pq.2.2)) ^ 2 * (A.pos.length : Int) ≤ A.scale ^ 2)) &&
  A.edges == B.edges && A.cross == B.cross

/-- smallest distance of a coordinate difference from the tolerance (genericity margin, as a pair num/den² test) -/
def eqMargins (A B : Lat) : List Int :=
  (A.pos.zip B.pos).flatMap fun pq =>
    [(100 * (pq.1.1 - pq.2.1)) ^ 2 * (A.pos.length : Int) - A.scale ^ 2,
     (100 * (pq.1.2 - pq.2.2)) ^ 2 * (A.pos.length : Int) - A.scale ^ 2]

end Pickle
