import KoalaVerif.Model.Lattice

/-! Index-level executable models of the generators of `koala.example_graphs` (import-free): edge lists, crossings
    and colourings as functions of the size parameters.  (`Props/C10.lean` proves `nextCell`/`crossing` equal to the
    kernels translated from the source.) -/

namespace G10

abbrev ECs : Type := List ((Nat × Nat) × (Int × Int))

/-- `_next_cell_number` (and the two nested `next_direction`s) -/
def nextCell (nh nv n s0 s1 : Int) : Int := Int.fmod (Int.fdiv n nh + s1) nv * nh + Int.fmod (n + s0) nh

/-- `_crossing` -/
def crossing (nx ny n s0 s1 : Int) : Int × Int :=
  ((if Int.fdiv (Int.fmod n nx + s0) nx ≠ Int.fdiv (Int.fmod n nx) nx then s0 else 0),
   (if Int.fdiv (Int.fdiv n nx + s1) ny ≠ Int.fdiv (Int.fdiv n nx) ny then s1 else 0))

def nc (nh nv : Nat) (n : Nat) (s0 s1 : Int) : Nat := (nextCell nh nv n s0 s1).toNat

/-- `tile_unit_cell`: position-major, unit-edge-minor -/
def tile (nSites : Nat) (uedges : List (Nat × Nat)) (ucross : List (Int × Int)) (nx ny : Nat) : ECs :=
  (List.range (nx * ny)).flatMap fun p => (uedges.zip ucross).map fun ec =>
    ((ec.1.1 + p * nSites, ec.1.2 + nSites * nc nx ny p ec.2.1 ec.2.2), crossing nx ny p ec.2.1 ec.2.2)

def cells (nh nv : Nat) : List Nat := List.range (nh * nv)

/-- last column / last row index sets of the hard-coded crossing masks -/
def lastCol (nh : Nat) (n : Nat) : Bool := n % nh == nh - 1
def lastRow (nh nv : Nat) (n : Nat) : Bool := decide (nh * (nv - 1) ≤ n)

/-- `honeycomb_lattice` for `n_horizontal = nh`, `n_vertical = nv` -/
def honeycomb (nh nv : Nat) : ECs :=
  let cs := cells nh nv
  (cs.flatMap fun n => [((4 * n, 4 * n + 1), (0, 0)), ((4 * n + 2, 4 * n + 1), (0, 0)), ((4 * n + 2, 4 * n + 3), ((0 : Int), (0 : Int)))]) ++
  (cs.map fun n => ((2 + 4 * n, 1 + 4 * nc nh nv n 1 0), ((if lastCol nh n then 1 else 0), (0 : Int)))) ++
  (cs.map fun n => ((4 * nc nh nv n 0 1, 3 + 4 * n), ((0 : Int), (if lastRow nh nv n then -1 else 0)))) ++
  (cs.map fun n => ((4 * nc nh nv n 1 1, 3 + 4 * n), ((if lastCol nh n then -1 else 0), (if lastRow nh nv n then -1 else 0))))

def honeycombColouring (nh nv : Nat) : List Nat :=
  ((cells nh nv).flatMap fun _ => [0, 2, 0]) ++ ((cells nh nv).flatMap fun _ => [1, 1]) ++ ((cells nh nv).map fun _ => 2)

/-- `hex_square_oct_lattice(n)` -/
def hso (n : Nat) : ECs :=
  let cs := cells n n
  (cs.flatMap fun c => [(0, 1), (1, 2), (2, 3), (3, 4), (4, 5), (5, 0)].map fun e => ((e.1 + 6 * c, e.2 + 6 * c), ((0 : Int), (0 : Int)))) ++
  (cs.map fun c => ((4 + 6 * c, 2 + 6 * nc n n c 1 0), ((if lastCol n c then 1 else 0), (0 : Int)))) ++
  (cs.map fun c => ((1 + 6 * nc n n c 1 0, 5 + 6 * c), ((if lastCol n c then -1 else 0), (0 : Int)))) ++
  (cs.map fun c => ((6 * nc n n c 0 1, 3 + 6 * c), ((0 : Int), (if lastRow n n c then -1 else 0))))

/-- `square_lattice(nx, ny)`: vertex `(i, j)` has index `i*ny + j` -/
def square (nx ny : Nat) : ECs :=
  let ij := (List.range nx).flatMap fun i => (List.range ny).map fun j => (i, j)
  (ij.map fun p => ((((p.1 + nx - 1) % nx) * ny + p.2, p.1 * ny + p.2), ((if p.1 = 0 then 1 else 0 : Int), (0 : Int)))) ++
  (ij.map fun p => ((p.1 * ny + (p.2 + ny - 1) % ny, p.1 * ny + p.2), ((0 : Int), (if p.2 = 0 then 1 else 0 : Int))))

def singlePlaquette (n : Nat) : ECs := (List.range n).map fun k => ((k, (k + 1) % n), (0, 0))

/-- `higher_coordination_number_example(x)` -/
def wheel (x : Nat) : ECs := singlePlaquette x ++ (List.range x).map fun k => ((k, x), (0, 0))

def ladder (n : Nat) : ECs :=
  let bottom := (List.range n).map fun k => ((k, (k + 1) % n), ((if k = n - 1 then 1 else 0 : Int), (0 : Int)))
  bottom ++ (bottom.map fun ec => ((ec.1.1 + n, ec.1.2 + n), ec.2)) ++ (List.range n).map fun k => ((k, k + n), (0, 0))

/-- `int(np.round(n / sqrt 3))` decided exactly: the integer `v` with `(2v−1)²·3 ≤ 4n² ≤ (2v+1)²·3`
    (no tie is possible: `√3` is irrational) -/
def nVertical (n : Nat) : Nat :=
  ((List.range (n + 2)).find? fun v => decide (4 * n * n ≤ (2 * v + 1) * (2 * v + 1) * 3)).getD 0

end G10
