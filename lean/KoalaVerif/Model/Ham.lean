import KoalaVerif.Model.Lattice

/-! Executable integer model of `hamiltonian.majorana_hamiltonian` and `phase_space.k_hamiltonian`
    (import-free).  The real Hamiltonian is `H = (i/4)·A` with `A` the integer matrix below when the
    couplings are sent as scaled integers `w_e = 2·J[colour e]·u_e`. -/

namespace Ham

/-- contribution of one edge `e = (a, b)` with weight `x` to entry `[k, j]`:
    `A[b, a] += x`, `A[a, b] -= x` -/
def term {V : Type} [DecidableEq V] (e : V × V) (x : Int) (k j : V) : Int :=
  (if k = e.2 ∧ j = e.1 then x else 0) - (if k = e.1 ∧ j = e.2 then x else 0)

/-- `np.add.at` accumulation over the edge list: parallel edges add up.  (Polymorphic in the vertex type: the
    driver runs it on `Nat`, the matrix theorems use it on any finite type.) -/
def majEntry {V : Type} [DecidableEq V] (edges : List (V × V)) (w : List Int) (k j : V) : Int :=
  ((edges.zip w).map fun ex => term ex.1 ex.2 k j).sum

def majMatrix (n : Nat) (edges : List (Nat × Nat)) (w : List Int) : List (List Int) :=
  (List.range n).map fun k => (List.range n).map fun j => majEntry edges w k j

/-- gauge transformation of the weights at vertex `v` -/
def gaugeW {V : Type} [DecidableEq V] (edges : List (V × V)) (w : List Int) (v : V) : List Int :=
  (edges.zip w).map fun ex => if ex.1.1 = v ∨ ex.1.2 = v then -ex.2 else ex.2

/-- Gaussian integers / rationals as pairs (re, im) -/
def cmul (a b : Int × Int) : Int × Int := (a.1 * b.1 - a.2 * b.2, a.1 * b.2 + a.2 * b.1)
def cadd (a b : Int × Int) : Int × Int := (a.1 + b.1, a.2 + b.2)
def cconj (a : Int × Int) : Int × Int := (a.1, -a.2)

/-- `i^m` for the phases at momenta in `(π/2)·ℤ²` -/
def ipowInt (m : Int) : Int × Int :=
  match m % 4 with
  | 0 => (1, 0) | 1 => (0, 1) | 2 => (-1, 0) | _ => (0, -1)

/-- Bloch matrix at `k = (π/2)·(q₁, q₂)`: entry `[b, a] += x·i^(q·c)`, `[a, b] += conj`, in units of `i/2`
    (the real matrix is `(i/2)·` this for the forward term; see `blochEntry`) -/
def blochTerm (e : Nat × Nat) (c : Int × Int) (x : Int) (q : Int × Int) (k j : Nat) : Int × Int :=
  -- hopping h = (i/2)·x·φ with φ = i^(q·c); we return 2·(H contribution) = i·x·φ at [b,a] and conj at [a,b]
  let φ := ipowInt (q.1 * c.1 + q.2 * c.2)
  let h := cmul (0, x) φ
  cadd (if k = e.2 ∧ j = e.1 then h else (0, 0)) (if k = e.1 ∧ j = e.2 then cconj h else (0, 0))

/-- twice the Bloch Hamiltonian at `k = (π/2) q` as Gaussian integers -/
def blochEntry (edges : List (Nat × Nat)) (cross : List (Int × Int)) (w : List Int) (q : Int × Int) (k j : Nat) : Int × Int :=
  ((edges.zip (cross.zip w)).map fun ecx => blochTerm ecx.1 ecx.2.1 ecx.2.2 q k j).foldl cadd (0, 0)

def blochMatrix (n : Nat) (edges : List (Nat × Nat)) (cross : List (Int × Int)) (w : List Int) (q : Int × Int) :
    List (List (Int × Int)) :=
  (List.range n).map fun k => (List.range n).map fun j => blochEntry edges cross w q k j

end Ham
