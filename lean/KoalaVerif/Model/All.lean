import KoalaVerif.Model.Json
import KoalaVerif.Model.Lattice
import KoalaVerif.Model.Flux
import KoalaVerif.Model.Tables
import KoalaVerif.Model.Cnf
import KoalaVerif.Model.Tree
import KoalaVerif.Model.Solver
import KoalaVerif.Model.Surgery
