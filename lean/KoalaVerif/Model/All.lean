import KoalaVerif.Model.Json
import KoalaVerif.Model.Lattice
