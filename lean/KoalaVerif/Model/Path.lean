/-! Executable model of `pathfinding.a_star_search_forward_pass` / `a_star_search_backward_pass` and of the two
    metrics (import-free).  Generic in the cost type: the driver instantiates it with IEEE doubles (`Float`, the same
    arithmetic numpy uses, transported bit for bit), the theorems are about any cost type. -/

namespace Path

/-- association list as a Python dict: later `set` replaces the value -/
def lookup {α : Type} (k : Nat) : List (Nat × α) → Option α
  | [] => none
  | (k', v) :: t => if k' = k then some v else lookup k t

def set {α : Type} (k : Nat) (v : α) : List (Nat × α) → List (Nat × α)
  | [] => [(k, v)]
  | (k', v') :: t => if k' = k then (k, v) :: t else (k', v') :: set k v t

structure St (C : Type) where
  came : List (Nat × (Nat × Nat))       -- node ↦ (parent, shared edge); the start has no entry here (`(None, None)`)
  cost : List (Nat × C)
  frontier : List (C × Nat)              -- the priority queue as a bag of `(priority, node)` tuples

variable {C : Type} [Add C] [LT C] [DecidableRel (fun a b : C => a < b)]

/-- tuple order of the priority queue: by priority, then by node index -/
def tupleLt (a b : C × Nat) : Bool := decide (a.1 < b.1) || (!decide (b.1 < a.1) && decide (a.2 < b.2))

/-- `frontier.get()`: remove and return a smallest tuple -/
def popMin : List (C × Nat) → Option ((C × Nat) × List (C × Nat))
  | [] => none
  | x :: xs =>
    match popMin xs with
    | none => some (x, [])
    | some (m, rest) => if tupleLt m x then some (m, x :: rest) else some (x, xs)

inductive Outcome (C : Type) where
  | found (s : St C)
  | exhausted                      -- `PathFindingError`
  deriving Inhabited

/-- relax the neighbours of `current` in order; `none` = early return (goal reached with early stopping) -/
def relax (h : Nat → Nat → C) (goal : Nat) (early : Bool) (current : Nat) :
    List (Nat × Nat) → St C → St C × Bool
  | [], s => (s, false)
  | (next, e) :: rest, s =>
    if early && next == goal then ({ s with came := set next (current, e) s.came }, true)
    else
      match lookup current s.cost with
      | none => relax h goal early current rest s          -- unreachable: `current` always has a cost
      | some cc =>
        let newCost := cc + h current next
        let better := match lookup next s.cost with
          | none => true
          | some old => decide (newCost < old)
        if better then
          relax h goal early current rest
            { came := set next (current, e) s.came, cost := set next newCost s.cost,
              frontier := (newCost + h next goal, next) :: s.frontier }
        else relax h goal early current rest s

/-- the `for i in range(maxits)` loop -/
def forward (adj : Nat → List (Nat × Nat)) (h : Nat → Nat → C) (goal : Nat) (early : Bool) : Nat → St C → Outcome C
  | 0, _ => .exhausted
  | fuel + 1, s =>
    match popMin s.frontier with
    | none => .exhausted                                   -- `frontier.empty(): break` then raise
    | some ((_, current), rest) =>
      if current == goal then .found { s with frontier := rest }
      else
        let r := relax h goal early current (adj current) { s with frontier := rest }
        if r.2 then .found r.1 else forward adj h goal early fuel r.1

def initSt (zero : C) (start : Nat) : St C := { came := [], cost := [(start, zero)], frontier := [(zero, start)] }

/-- `a_star_search_backward_pass`: follow the parents from the goal; fuel = number of keys + 1 -/
def backward (came : List (Nat × (Nat × Nat))) (start : Nat) : Nat → Nat → List Nat → List Nat → Option (List Nat × List Nat)
  | 0, _, _, _ => none
  | fuel + 1, cur, nodes, edges =>
    if cur == start then some ((cur :: nodes).reverse, edges.reverse)
    else match lookup cur came with
      | none => none                                       -- `KeyError`
      | some (p, e) => backward came start fuel p (cur :: nodes) (e :: edges)

def path (adj : Nat → List (Nat × Nat)) (h : Nat → Nat → C) (zero : C) (start goal : Nat) (early : Bool) (maxits : Nat) :
    Option (List Nat × List Nat) :=
  match forward adj h goal early maxits (initSt zero start) with
  | .exhausted => none
  | .found s => backward s.came start (s.came.length + 2) goal [] []

/-! ### metrics on scaled integer coordinates (`S` = one cell) -/

def absI (x : Int) : Int := if x < 0 then -x else x

/-- one coordinate of `periodic_straight_line_length`: `δ = |a−b|`, `1−δ` when `δ > 1/2` -/
def wrap1 (S a b : Int) : Int := let d := absI (a - b); if 2 * d > S then S - d else d

def periodic2 (S : Int) (a b : Int × Int) : Int := wrap1 S a.1 b.1 ^ 2 + wrap1 S a.2 b.2 ^ 2
def euclid2 (a b : Int × Int) : Int := (a.1 - b.1) ^ 2 + (a.2 - b.2) ^ 2

end Path

namespace C11Exec
/-- executable validity test used by the driver on every returned path (sound: `C11.validChainB_sound`) -/
def validChainB (adj : Nat → List (Nat × Nat)) : List Nat → List Nat → Bool
  | [_], [] => true
  | n :: p :: rest, e :: es => (adj p).contains (n, e) && validChainB adj (p :: rest) es
  | _, _ => false
end C11Exec
