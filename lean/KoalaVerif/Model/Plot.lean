/-! Exact executable model of the pure pieces of `koala.plotting` (import-free): the segment-intersection helper on
    integer coordinates, label broadcasting, the 9-fold tiling of colours. -/

namespace Plot

abbrev Pt : Type := Int × Int
def cross2 (a b : Pt) : Int := a.1 * b.2 - a.2 * b.1
def sub (a b : Pt) : Pt := (a.1 - b.1, a.2 - b.2)

/-- `0 ≤ n/d ≤ 1` for `d ≠ 0`, without division -/
def unitFrac (n d : Int) : Bool := if d > 0 then decide (0 ≤ n) && decide (n ≤ d) else decide (n ≤ 0) && decide (d ≤ n)

/-- `line_intersection` for one pair of segments `(s1, e1)`, `(s2, e2)` in general position (not parallel):
    `t1 = cross(s1−s2, d1)/cross(d2, d1)`, `t2 = cross(s2−s1, d2)/cross(d1, d2)`, both in `[0, 1]` -/
def intersects (s1 e1 s2 e2 : Pt) : Option Bool :=
  let d1 := sub e1 s1; let d2 := sub e2 s2
  let den := cross2 d2 d1
  if den = 0 then none          -- parallel / colinear: the tolerance branches of the code, not modelled
  else some (unitFrac (cross2 (sub s1 s2) d1) den && unitFrac (cross2 (sub s2 s1) d2) (cross2 d1 d2))

/-- `_broadcast_args`: a scalar, a full-size array or a subset-size array, normalised to one value per drawn element -/
inductive Labels where
  | scalar (x : Int)
  | array (xs : List Int)

def broadcast (N : Nat) (subset : List Nat) : Labels → Option (List Int)
  | .scalar x => some (subset.map fun _ => x)
  | .array xs =>
    if xs.length = N then some (subset.map fun i => xs.getD i 0)
    else if xs.length = subset.length then some xs
    else none                                        -- `ValueError`

/-- `np.tile(colors, 9)[j*n + i]` -/
def tile9 {α : Type} (colors : List α) : List α := (List.replicate 9 colors).flatten

/-! ### exact clipping of a segment against the unit cell (Liang–Barsky), the harness's `clip_fraction` -/

/-- the parameters `t` with `0 ≤ a + t·δ ≤ 1`, as an interval `(lo, hi)` (empty when `lo > hi`) -/
def tInt (a δ : Rat) : Rat × Rat :=
  if 0 < δ then ((0 - a) / δ, (1 - a) / δ)
  else if δ < 0 then ((1 - a) / δ, (0 - a) / δ)
  else if 0 ≤ a ∧ a ≤ 1 then (0, 1) else (1, 0)

/-- length of `[lo, hi] ∩ [u, v]` -/
def cap (I : Rat × Rat) (u v : Rat) : Rat := max 0 (min I.2 v - max I.1 u)

/-- the fraction of the segment `p + t·d`, `t ∈ [0,1]`, that lies in the closed unit cell -/
def frac (p d : Rat × Rat) : Rat :=
  let X := tInt p.1 d.1; let Y := tInt p.2 d.2
  max 0 (min (min X.2 Y.2) 1 - max (max X.1 Y.1) 0)

/-- the `t`-interval of the image of the segment shifted by `−k` cells along one axis -/
def axisInt (a δ : Rat) (k : Int) : Rat × Rat := tInt (a - k) δ

end Plot
