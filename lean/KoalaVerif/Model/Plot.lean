/-! Exact executable model of the pure pieces of `koala.plotting` (import-free): the segment-intersection helper on
    integer coordinates, label broadcasting, the 9-fold tiling of colours. -/

namespace Plot

abbrev Pt : Type := Int × Int
def cross2 (a b : Pt) : Int := a.1 * b.2 - a.2 * b.1
def sub (a b : Pt) : Pt := (a.1 - b.1, a.2 - b.2)

/-- `0 ≤ n/d ≤ 1` for `d ≠ 0`, without division -/
def unitFrac (n d : Int) : Bool := if d > 0 then decide (0 ≤ n) && decide (n ≤ d) else decide (n ≤ 0) && decide (d ≤ n)

/-- `line_intersection` for one pair of segments `(s1, e1)`, `(s2, e2)` in general position (not parallel):
    `t1 = cross(s1−s2, d1)/cross(d2, d1)`, `t2 = cross(s2−s1, d2)/cross(d1, d2)`, both in `[0, 1]` -/
def intersects (s1 e1 s2 e2 : Pt) : Option Bool :=
  let d1 := sub e1 s1; let d2 := sub e2 s2
  let den := cross2 d2 d1
  if den = 0 then none          -- parallel / colinear: the tolerance branches of the code, not modelled
  else some (unitFrac (cross2 (sub s1 s2) d1) den && unitFrac (cross2 (sub s2 s1) d2) (cross2 d1 d2))

/-- `_broadcast_args`: a scalar, a full-size array or a subset-size array, normalised to one value per drawn element -/
inductive Labels where
  | scalar (x : Int)
  | array (xs : List Int)

def broadcast (N : Nat) (subset : List Nat) : Labels → Option (List Int)
  | .scalar x => some (subset.map fun _ => x)
  | .array xs =>
    if xs.length = N then some (subset.map fun i => xs.getD i 0)
    else if xs.length = subset.length then some xs
    else none                                        -- `ValueError`

/-- `np.tile(colors, 9)[j*n + i]` -/
def tile9 {α : Type} (colors : List α) : List α := (List.replicate 9 colors).flatten

/-! ### exact clipping of a segment against the unit cell (Liang–Barsky), the harness's `clip_fraction` -/

/-- the parameters `t` with `0 ≤ a + t·δ ≤ 1`, as an interval `(lo, hi)` (empty when `lo > hi`) -/
def tInt (a δ : Rat) : Rat × Rat :=
  if 0 < δ then ((0 - a) / δ, (1 - a) / δ)
  else if δ < 0 then ((1 - a) / δ, (0 - a) / δ)
  else if 0 ≤ a ∧ a ≤ 1 then (0, 1) else (1, 0)

/-- length of `[lo, hi] ∩ [u, v]` -/
def cap (I : Rat × Rat) (u v : Rat) : Rat := max 0 (min I.2 v - max I.1 u)

/-- the fraction of the segment `p + t·d`, `t ∈ [0,1]`, that lies in the closed unit cell -/
def frac (p d : Rat × Rat) : Rat :=
  let X := tInt p.1 d.1; let Y := tInt p.2 d.2
  max 0 (min (min X.2 Y.2) 1 - max (max X.1 Y.1) 0)

/-- the `t`-interval of the image of the segment shifted by `−k` cells along one axis -/
def axisInt (a δ : Rat) (k : Int) : Rat × Rat := tInt (a - k) δ

/-! ### which periodic images of an edge `plot_edges` draws: `_lines_cross_unit_cell | _line_fully_in_unit_cell` -/

/-- the parameter `t = (l − end)/(start − end)` at which `start·t + (1−t)·end` reaches the wall `l` along one axis; an
    axis-parallel segment gets `0.5·(l == end)` (the `~isfinite` branch of the code) -/
def wallT (s e l : Rat) : Rat := if s - e = 0 then (if l = e then 1 / 2 else 0) else (l - e) / (s - e)

/-- one entry of `cross`: the segment reaches wall `l` of axis `a` at `0 < t ≤ 1` and the other coordinate is in `(0, 1]` there -/
def crossAt (sa ea sb eb l : Rat) : Bool :=
  let t := wallT sa ea l
  let other := sb * t + (1 - t) * eb
  decide (0 < t) && decide (t ≤ 1) && decide (0 < other) && decide (other ≤ 1)

/-- `_lines_cross_unit_cell` for one segment `(start, end)` -/
def crossesCell (s e : Rat × Rat) : Bool :=
  crossAt s.1 e.1 s.2 e.2 0 || crossAt s.2 e.2 s.1 e.1 0 || crossAt s.1 e.1 s.2 e.2 1 || crossAt s.2 e.2 s.1 e.1 1

/-- `_line_fully_in_unit_cell` -/
def fullyInside (s e : Rat × Rat) : Bool :=
  decide (0 < s.1) && decide (s.1 < 1) && decide (0 < s.2) && decide (s.2 < 1) &&
  decide (0 < e.1) && decide (e.1 < 1) && decide (0 < e.2) && decide (e.2 < 1)

/-- the mask `vis` of `plot_edges` -/
def visible (s e : Rat × Rat) : Bool := crossesCell s e || fullyInside s e

/-! ### which periodic images of a plaquette `plot_plaquettes` draws -/

/-- one entry of `_lines_cross_any_cell_boundary`: `0 < t ≤ 1` -/
def crossLine (sa ea l : Rat) : Bool :=
  let t := wallT sa ea l
  decide (0 < t) && decide (t ≤ 1)

/-- consecutive pairs `(points[i], points[i+1])` of the closed polygon (`zip(points, roll(points, −1))`) -/
def cyclicPairs {α : Type} : List α → List (α × α)
  | [] => []
  | x :: xs => (x :: (xs ++ [x])).zip (xs ++ [x])

/-- `partially_inside[l][axis]`: some side of the polygon crosses the line `axis = l` -/
def polyCrosses (pts : List (Rat × Rat)) (axis : Bool) (l : Rat) : Bool :=
  (cyclicPairs pts).any fun se => if axis then crossLine se.1.2 se.2.2 l else crossLine se.1.1 se.2.1 l

/-- `padx` (axis = false) resp. `pady`: −1 if the line `1` is crossed, 0 always, +1 if the line `0` is crossed -/
def pads (pts : List (Rat × Rat)) (axis : Bool) : List Int :=
  (if polyCrosses pts axis 1 then [-1] else []) ++ [0] ++ (if polyCrosses pts axis 0 then [1] else [])

/-- the offsets of the drawn copies, `itertools.product(padx, pady)` -/
def polyOffsets (pts : List (Rat × Rat)) : List (Int × Int) :=
  (pads pts false).flatMap fun dx => (pads pts true).map fun dy => (dx, dy)

end Plot
