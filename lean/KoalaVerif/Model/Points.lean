/-! Executable model of `pointsets.bluenoise` as a deterministic function of the stream of random draws
    (import-free).  Points are exact dyadic rationals sent as integers scaled by `S`; the harness records the
    generator's draws and sends, for every iteration of the `while active_cells` loop, the position (in the active
    list) of the chosen sample and the candidate points `x1 = x0 + disk_uniform(r, 2r)` it tried. -/

namespace Points

abbrev Pt : Type := Int × Int

structure St where
  samples : List Pt
  active : List Nat        -- indices into `samples`

def dist2 (a b : Pt) : Int := (a.1 - b.1) ^ 2 + (a.2 - b.2) ^ 2

/-- `np.any(x1 < 0) or np.any(x1 > [nx, ny])` negated -/
def inBounds (S : Int) (nx ny : Nat) (p : Pt) : Bool :=
  decide (0 ≤ p.1) && decide (0 ≤ p.2) && decide (p.1 ≤ nx * S) && decide (p.2 ≤ ny * S)

/-- `np.min(norm(x1 - samples)) > r` with `r = 1`, on squares -/
def farFromAll (S : Int) (samples : List Pt) (p : Pt) : Bool := samples.all fun s => decide (dist2 s p > S ^ 2)

/-- the `for i in range(k)` loop: the first accepted candidate among the (at most `k`) tried -/
def firstAccepted (S : Int) (nx ny : Nat) (samples : List Pt) : List Pt → Option Pt
  | [] => none
  | c :: cs => if inBounds S nx ny c && farFromAll S samples c then some c else firstAccepted S nx ny samples cs

/-- one iteration of the `while` loop: `pos` = position of `rng.choice(active_cells)` in the active list -/
def step (S : Int) (nx ny k : Nat) (s : St) (it : Nat × List Pt) : St :=
  match firstAccepted S nx ny s.samples (it.2.take k) with
  | some c => { samples := s.samples ++ [c], active := s.active ++ [s.samples.length] }
  | none => { s with active := s.active.eraseIdx it.1 }      -- `active_cells.remove(idx)` (indices are distinct)

def run (S : Int) (nx ny k : Nat) (x0 : Pt) (its : List (Nat × List Pt)) : St :=
  its.foldl (step S nx ny k) { samples := [x0], active := [0] }

/-- `hyperuniform`'s crop: the points strictly inside the unit square -/
def crop (S : Int) (ps : List Pt) : List Pt := ps.filter fun p => decide (0 < p.1) && decide (0 < p.2) && decide (p.1 < S) && decide (p.2 < S)

end Points
