import KoalaVerif.Model.Flux
import KoalaVerif.Model.Tables

/-! Executable model of `graph_utils.plaquette_spanning_tree` (the Prim-style loop exactly as written:
    insertion-ordered plaquette list, chosen edges, boundary = edges seen an odd number of times) and of
    `flux_finder.n_to_ujk_flipped` (import-free). -/

namespace Tree

/-- the plaquette system the loop reads: number of plaquettes, edges of each, the edge→plaquette row
    (`none` = `INVALID`) -/
structure Sys where
  F : Nat
  pdarts : Nat → List Dart
  sides : Nat → Option Nat × Option Nat

/-- `plaquettes[p].edges` -/
def Sys.pedges (S : Sys) (p : Nat) : List Nat := (S.pdarts p).map (·.1)

structure St where
  plaqIn : List Nat            -- `plaquettes_in[0..]` in insertion order (the `-1` filler is not modelled)
  edgesIn : List (Option Nat)  -- `edges_in`; `none` = the `-1` left when no edge was found
  boundary : List Nat

def ins (x : Nat) : List Nat → List Nat
  | [] => [x]
  | y :: ys => if x ≤ y then x :: y :: ys else y :: ins x ys

/-- ascending insertion sort (structural, so that `decide` can evaluate the model) -/
def isort (l : List Nat) : List Nat := l.foldr ins []

/-- `a, c = np.unique(np.append(boundary, new)); a[c == 1]` : sorted, only the values occurring once -/
def oddOnce (b new : List Nat) : List Nat :=
  let all := b ++ new
  (isort all).filter fun x => all.count x == 1

/-- the test inside the `for edge_index in boundary_edges[order]` loop; returns the plaquette to add -/
def tryEdge (S : Sys) (plaqIn : List Nat) (e : Nat) : Option Nat :=
  match S.sides e with
  | (some a, some b) =>
    let outA := !(plaqIn.contains a)
    let outB := !(plaqIn.contains b)
    -- `np.any(outside) and np.any(inside)`; `position = np.where(outside)[0][0]`
    if (outA || outB) && (!outA || !outB) then some (if outA then a else b) else none
  | _ => none       -- `if INVALID in edge_plaq: continue`

def pick (S : Sys) (plaqIn : List Nat) (cands : List Nat) : Option (Nat × Nat) :=
  cands.findSome? fun e => (tryEdge S plaqIn e).map fun p => (e, p)

/-- one iteration of the outer loop; `ord` is the candidate order (identity, or the distance `argsort`) -/
def step (S : Sys) (ord : List Nat → List Nat) (s : St) : St :=
  match pick S s.plaqIn (ord s.boundary) with
  | some (e, p) => { plaqIn := s.plaqIn ++ [p], edgesIn := s.edgesIn ++ [some e],
                     boundary := oddOnce s.boundary (S.pedges p) }
  | none => { s with edgesIn := s.edgesIn ++ [none] }

def init (S : Sys) : St := { plaqIn := [0], edgesIn := [], boundary := S.pedges 0 }

/-- `ords n` = the order used in iteration `n` -/
def run (S : Sys) (ords : Nat → List Nat → List Nat) : Nat → St
  | 0 => init S
  | n + 1 => step S (ords n) (run S ords n)

/-- `plaquette_spanning_tree(lattice, …)` -/
def spanningTree (S : Sys) (ords : Nat → List Nat → List Nat) : List (Option Nat) := (run S ords (S.F - 1)).edgesIn

/-- the chosen edges without the `-1` fillers -/
def chosen' (s : St) : List Nat := s.edgesIn.filterMap id

/-- the candidate order described by a recorded `argsort` result (positions into the boundary array) -/
def ordOfIndices (idx : List Nat) (b : List Nat) : List Nat := idx.filterMap fun i => b[i]?

/-- the system of a lattice: plaquette edge lists and the edge table of C02 -/
def sysOf (ps : List (List Dart)) : Sys :=
  { F := ps.length
    pdarts := fun p => ps.getD p []
    sides := fun e => (Tab.edgePlaq ps (e, false), Tab.edgePlaq ps (e, true)) }

/-! ### `n_to_ujk_flipped` -/

/-- `format(n, '0Nb')` for `n < 2^N`: the `N` binary digits of `n`, most significant first -/
def bitsMSB (n : Nat) : Nat → List Bool
  | 0 => []
  | N + 1 => (n / 2 ^ N % 2 == 1) :: bitsMSB n N

/-- `ujk_flipped[min_spanning_set] = 1 - 2 * flips` (sequential assignment: a later duplicate wins) -/
def setBonds (u : Nat → Int) : List Nat → List Bool → Nat → Int
  | e :: es, b :: bs => fun x => setBonds (fun y => if y = e then (if b then -1 else 1) else u y) es bs x
  | _, _ => u

def nToUjkFlipped (n : Nat) (u : Nat → Int) (tree : List Nat) : Nat → Int := setBonds u tree (bitsMSB n tree.length)

end Tree
