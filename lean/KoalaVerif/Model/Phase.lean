/-! Exact executable model of the sampling schemes of `koala.phase_diagrams` and of the reassembly of a chunked
    parallel map (import-free).  Couplings are integers over the common denominator `den = 2·(samples − 1)`
    (`np.linspace(0, 0.5, samples)[i] = i / (2·(samples − 1))`); the appended centre point is kept separately. -/

namespace Phase

/-- all grid points `(x, y)` for `y` outer, `x` inner (`[(x, y) for y in Jy for x in Jx]`) as index pairs `(i, j)`, `x = i/den`, `y = j/den` -/
def grid (s : Nat) : List (Nat × Nat) := (List.range s).flatMap fun j => (List.range s).map fun i => (i, j)

/-- coupling triple numerators over `den = 2(s−1)`: `(x, y, 1 − x − y)` -/
def triple (s : Nat) (ij : Nat × Nat) : Int × Int × Int :=
  let den : Int := 2 * ((s : Int) - 1)
  ((ij.1 : Int), (ij.2 : Int), den - ij.1 - ij.2)

/-- `get_non_symmetric_triangular_sampling_points`: the filter `x + y ≤ 1` -/
def keepPlain (s : Nat) (ij : Nat × Nat) : Bool := decide ((ij.1 : Int) + ij.2 ≤ 2 * ((s : Int) - 1))

def plain (s : Nat) : List (Int × Int × Int) := ((grid s).filter (keepPlain s)).map (triple s)

/-- `get_triangular_sampling_points`: `(z − y ≥ −g/2) & (y − x ≥ −g/2)` with `g = 1/samples`, cleared of denominators:
    `(z − y)/den ≥ −1/(2s)  ⇔  2s·(z − y) ≥ −den` -/
def keepSym (s : Nat) (ij : Nat × Nat) : Bool :=
  let den : Int := 2 * ((s : Int) - 1)
  let x : Int := ij.1; let y : Int := ij.2; let z : Int := den - x - y
  decide (2 * (s : Int) * (z - y) ≥ -den) && decide (2 * (s : Int) * (y - x) ≥ -den)

/-- is a filter decision of the symmetric scheme an exact tie (float rounding may decide either way)? -/
def tieSym (s : Nat) (ij : Nat × Nat) : Bool :=
  let den : Int := 2 * ((s : Int) - 1)
  let x : Int := ij.1; let y : Int := ij.2; let z : Int := den - x - y
  decide (2 * (s : Int) * (z - y) = -den) || decide (2 * (s : Int) * (y - x) = -den)

def symmetric (s : Nat) : List (Int × Int × Int) := ((grid s).filter (keepSym s)).map (triple s)

/-! ### chunked parallel map -/

/-- results arrive as `(chunk index, values)` in completion order; reassembly sorts by chunk index and concatenates -/
def insertByIdx {β : Type} (x : Nat × List β) : List (Nat × List β) → List (Nat × List β)
  | [] => [x]
  | y :: ys => if x.1 ≤ y.1 then x :: y :: ys else y :: insertByIdx x ys

def sortByIdx {β : Type} (l : List (Nat × List β)) : List (Nat × List β) := l.foldr insertByIdx []

def reassemble {β : Type} (results : List (Nat × List β)) : List β := (sortByIdx results).flatMap (·.2)

/-- what the workers produce for a chunking of the points -/
def workerResults {α β : Type} (f : α → β) (chunks : List (List α)) : List (Nat × List β) :=
  chunks.zipIdx.map fun ci => (ci.2, ci.1.map f)

end Phase
