import KoalaVerif.Model.Tables

/-! Exact executable model of `graph_utils.make_dual` (index structure and crossing rounding) and of
    `graph_utils.vertices_to_polygon` (vertex truncation) (import-free).  Positions are integers scaled by `L.scale`
    (one cell = `scale`); the truncated lattice is returned on the scale `3·scale` so that the thirds are exact. -/

namespace Dual

/-- `np.round(n / D)` for `D > 0`: nearest integer, ties to even -/
def roundHalfEven (n : Int) (D : Int) : Int :=
  let q := n / D          -- floor (D > 0)
  let r := n % D
  if 2 * r < D then q else if 2 * r > D then q + 1 else (if q % 2 = 0 then q else q + 1)

/-- rows of the edge→plaquette table without `INVALID`, in edge order: `(edge, plaquette of the forward dart, of the backward dart)` -/
def dualEdges (nE : Nat) (ps : List (List Dart)) : List (Nat × Nat × Nat) :=
  (List.range nE).filterMap fun e =>
    match Tab.edgePlaq ps (e, false), Tab.edgePlaq ps (e, true) with
    | some a, some b => some (e, a, b)
    | _, _ => none

/-- dual crossing of one coordinate from the two centres `a/D`, `b/D` (numerators over a common positive `D`):
    `round((a mod 1) − (b mod 1))` -/
def dualCross1 (a b D : Int) : Int := roundHalfEven (a % D - b % D) D

/-! ### truncation -/

structure Corner where
  edge : Nat
  nFirst : Bool             -- is the truncated vertex the first entry of the edge? (`first_or_second == 1`)
  pos : Int × Int           -- `new_set[u]` after `% 1`, on the scale `3·scale`
  shift : Int × Int         -- `shifted[u] = new_set // 1`

/-- the corners of vertex `n`, one per incident edge in the rotation order of the vertex table -/
def cornersOf (L : Lat) (n : Nat) : List Corner :=
  (rotAt L n).map fun e =>
    let nFirst := (L.endsOf e).1 == n
    let v := L.evec e
    let out : Int × Int := if nFirst then v else (-v.1, -v.2)      -- edge vector pointing away from `n`
    let p := L.posOf n
    let S3 := 3 * L.scale
    let u : Int × Int := (3 * p.1 + out.1, 3 * p.2 + out.2)        -- (pos + vec/3) on the scale 3·scale
    { edge := e, nFirst := nFirst, pos := (Int.fmod u.1 S3, Int.fmod u.2 S3), shift := (Int.fdiv u.1 S3, Int.fdiv u.2 S3) }

def truncated (L : Lat) (chosen : Nat → Bool) (n : Nat) : Bool := chosen n && decide ((rotAt L n).length > 2)

structure Acc where
  pos : List (Int × Int)                   -- new positions (scale 3·scale), in order
  added : List ((Nat × Nat) × (Int × Int)) -- polygon edges with their crossings
  ends : List (Nat × Bool × Nat)           -- (edge, column is first?, new vertex index): `original_edges[e, col] = index`
  dcross : List (Nat × (Int × Int))        -- additions to `original_crossing[e]`
  total : Nat                              -- `running_total`

def stepVertex (L : Lat) (chosen : Nat → Bool) (acc : Acc) (n : Nat) : Acc :=
  if truncated L chosen n then
    let cs := cornersOf L n
    let d := cs.length
    let base := acc.total
    let idx := List.range d
    -- crossing_around[u] = −shift[u] + shift[(u+1) % d]
    let around := idx.map fun u =>
      let su := (cs.getD u ⟨0, false, (0, 0), (0, 0)⟩).shift
      let sn := (cs.getD ((u + 1) % d) ⟨0, false, (0, 0), (0, 0)⟩).shift
      (((base + u, base + (u + 1) % d) : Nat × Nat), ((sn.1 - su.1, sn.2 - su.2) : Int × Int))
    { pos := acc.pos ++ cs.map (·.pos)
      added := acc.added ++ around
      ends := acc.ends ++ (cs.zipIdx.map fun cu => (cu.1.edge, cu.1.nFirst, base + cu.2))
      dcross := acc.dcross ++ (cs.map fun c =>
        (c.edge, if c.nFirst then ((-c.shift.1, -c.shift.2) : Int × Int) else (c.shift.1, c.shift.2)))
      total := base + d }
  else
    let p := L.posOf n
    { acc with
      pos := acc.pos ++ [(3 * p.1, 3 * p.2)]
      ends := acc.ends ++ ((rotAt L n).map fun e => (e, (L.endsOf e).1 == n, acc.total))
      total := acc.total + 1 }

def lookupEnd (ends : List (Nat × Bool × Nat)) (e : Nat) (first : Bool) : Nat :=
  ((ends.find? fun x => x.1 == e && x.2.1 == first).map (·.2.2)).getD 0

/-- `vertices_to_polygon(lattice, vertices)` -/
def truncate (L : Lat) (chosen : Nat → Bool) : Lat :=
  let acc := (List.range L.nV).foldl (stepVertex L chosen) { pos := [], added := [], ends := [], dcross := [], total := 0 }
  let es := List.range L.E
  let origEdges := es.map fun e => (lookupEnd acc.ends e true, lookupEnd acc.ends e false)
  let origCross := es.map fun e =>
    let c := L.crossOf e
    (acc.dcross.filter fun x => x.1 == e).foldl (fun (s : Int × Int) x => (s.1 + x.2.1, s.2 + x.2.2)) c
  { nV := acc.total
    edges := origEdges ++ acc.added.map (·.1)
    cross := origCross ++ acc.added.map (·.2)
    pos := acc.pos
    scale := 3 * L.scale }

end Dual
