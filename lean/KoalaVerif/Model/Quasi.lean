/-! Exact executable model of the index space of `quasicrystals.de_brujin_grid` (import-free).

Every vertex of the final tiling is `Σ_b index_b · star_b` for an integer index vector; two faces of the multigrid that
are adjacent across a line of bundle `b` have index vectors differing by `±e_b`.  The harness reconstructs index vectors
from koala's output by integrating along a spanning tree; the model re-checks *every* edge exactly and compares index
vectors modulo the relations among the star vectors. -/

namespace Quasi

abbrev Idx : Type := List Int

def unitVec (B b : Nat) : Idx := (List.range B).map fun c => if c = b then 1 else 0
def addI (x y : Idx) : Idx := (x.zip y).map fun p => p.1 + p.2
def subI (x y : Idx) : Idx := (x.zip y).map fun p => p.1 - p.2
def negI (x : Idx) : Idx := x.map fun a => -a

/-- is `d` equal to `+e_b` or `−e_b` for some bundle `b < B`?  returns the signed bundle -/
def starOf (B : Nat) (d : Idx) : Option (Nat × Bool) :=
  (List.range B).findSome? fun b =>
    if d = unitVec B b then some (b, false) else if d = negI (unitVec B b) then some (b, true) else none

/-- every edge joins vertices whose index vectors differ by `±e_b` -/
def edgesAreStar (B : Nat) (idx : List Idx) (edges : List (Nat × Nat)) : Bool :=
  edges.all fun e => (starOf B (subI (idx.getD e.2 []) (idx.getD e.1 []))).isSome

/-- reduce an index vector modulo the relations `Σ_{k} e_{r + k·(B/p)} = 0` (`p` the smallest prime factor data supplied as
    the list of generators): subtract, for each generator `g` with pivot position `piv`, `idx[piv]·g` -/
def reduce (gens : List (Nat × Idx)) (x : Idx) : Idx :=
  gens.foldl (fun acc pg => let c := acc.getD pg.1 0; subI acc (pg.2.map fun a => c * a)) x

def allDistinct (xs : List Idx) : Bool := xs.eraseDups.length == xs.length

end Quasi
