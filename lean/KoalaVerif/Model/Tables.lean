import KoalaVerif.Model.Lattice

/-! Executable model of the adjacency tables of `koala.lattice.Lattice` and of the query helpers of
    `koala.graph_utils` (import-free).  `none` stands for the `INVALID` sentinel. -/

namespace Tab

/-- `vertices.coordination_numbers` (one entry per vertex: the number of edge ends at it) -/
def coordination (L : Lat) : List Nat :=
  (List.range L.nV).map fun v => (L.edges.filter fun e => e.1 == v).length + (L.edges.filter fun e => e.2 == v).length

/-- `_edge_neighbours`: the other edges sharing a vertex with edge `n` -/
def edgeNeighbours (L : Lat) (n : Nat) : List Nat :=
  let ab := L.endsOf n
  (List.range L.E).filter fun m =>
    m != n && ((L.endsOf m).1 == ab.1 || (L.endsOf m).2 == ab.1 || (L.endsOf m).1 == ab.2 || (L.endsOf m).2 == ab.2)

/-- `adjacency_matrix[a, b]` -/
def adjacent (L : Lat) (a b : Nat) : Bool := L.edges.any fun e => (e.1 == a && e.2 == b) || (e.1 == b && e.2 == a)

/-- the vertices of a walk: the tail of every dart -/
def walkVertices (L : Lat) (w : List Dart) : List Nat := w.map L.tail

/-- `edges.adjacent_plaquettes[e, column]`: index of the last plaquette in the list that traverses
    dart `d` (the assignments run in plaquette order, later ones overwrite earlier ones) -/
def edgePlaq (ps : List (List Dart)) (d : Dart) : Option Nat :=
  (ps.zipIdx.foldl (fun (cur : Option Nat) (pn : List Dart × Nat) => if d ∈ pn.1 then some pn.2 else cur) none)

/-- `vertices.adjacent_plaquettes[v]` without the `INVALID` padding: the plaquettes containing `v`,
    each once, in plaquette order -/
def vertexPlaq (L : Lat) (ps : List (List Dart)) (v : Nat) : List Nat :=
  (ps.zipIdx.filter fun pn => v ∈ walkVertices L pn.1).map (·.2)

/-- `plaquettes[n].adjacent_plaquettes`: for every edge of the plaquette, the entry of that edge's
    row of the edge table that is not `n` (row-major `np.where(row != n)`) -/
def plaqNeighbours (ps : List (List Dart)) (n : Nat) : List (Option Nat) :=
  (ps.getD n []).flatMap fun d =>
    let row := [edgePlaq ps (d.1, false), edgePlaq ps (d.1, true)]
    row.filter fun x => x != some n

/-- `graph_utils.vertex_neighbours`: (other end, edge) for every edge touching `v`, in edge order -/
def vertexNeighbours (L : Lat) (v : Nat) : List (Nat × Nat) :=
  ((List.range L.E).filter fun e => (L.endsOf e).1 == v || (L.endsOf e).2 == v).map fun e =>
    let ab := L.endsOf e
    -- `start_or_end = (edges != v)[:, 1]`: take column 1 when the second entry differs from v, else column 0
    (if ab.2 != v then ab.2 else ab.1, e)

/-- `graph_utils.adjacent_plaquettes(l, p)`: (other plaquette, shared edge) for every edge of `p` that has
    a plaquette on both sides -/
def adjacentPlaquettes (ps : List (List Dart)) (n : Nat) : List (Nat × Nat) :=
  (ps.getD n []).filterMap fun d =>
    match edgePlaq ps (d.1, false), edgePlaq ps (d.1, true) with
    | some a, some b => some (if b == n then a else b, d.1)
    | _, _ => none

/-- pseudo-angle order of `clockwise_about`: anticlockwise angle from the +x axis in (0, 2π]
    (the code maps `arctan2 ≤ 0` to `2π + arctan2`, so the +x direction itself sorts last) -/
def xQuad (v : Int × Int) : Nat :=
  let x := v.1; let y := v.2
  if y > 0 ∧ x > 0 then 0 else if y > 0 ∧ x ≤ 0 then 1 else if y ≤ 0 ∧ x < 0 then (if y = 0 then 1 else 2)
  else if y < 0 ∧ x ≥ 0 then 3 else 4     -- 4: exactly +x (angle 2π), or the zero vector

def xAngLt (a b : Int × Int) : Bool :=
  let qa := xQuad a; let qb := xQuad b
  if qa != qb then qa < qb else (a.1 * b.2 - a.2 * b.1) > 0

def insertAsc (key : Nat → Int × Int) (e : Nat) : List Nat → List Nat
  | [] => [e]
  | x :: xs => if xAngLt (key e) (key x) then e :: x :: xs else x :: insertAsc key e xs

/-- `graph_utils.clockwise_edges_about(v)` (which is anticlockwise from +x, as pinned by koala's own test) -/
def clockwiseAbout (L : Lat) (v : Nat) : List Nat :=
  (incident L v).reverse.foldl (fun acc e => insertAsc (outVec L v) e acc) []

end Tab

/-! ## The lazily computed attributes as a state machine -/

namespace Cache

/-- which attribute is read -/
inductive Attr where
  | plaquettes | nPlaquettes | edgeAdj | vertexAdj
  deriving DecidableEq, Repr

/-- the cache slots (`__dict__` entries of the cached properties + the two private tables) -/
structure State (V : Type) where
  plaq : Option V := none
  nplaq : Option V := none
  eadj : Option V := none
  vadj : Option V := none
  privE : Option V := none     -- `_edges_adjacent_plaquettes`
  privV : Option V := none     -- `_vertices_adjacent_plaquettes`

/-- the pure values, functions of (positions, edges, crossings) only -/
structure Pure (V : Type) where
  plaq : V
  nplaq : V
  eadj : V
  vadj : V

variable {V : Type}

/-- reading `lattice.plaquettes`: compute once, fill both private tables -/
def touchPlaq (pv : Pure V) (s : State V) : State V :=
  match s.plaq with
  | some _ => s
  | none => { s with plaq := some pv.plaq, privE := some pv.eadj, privV := some pv.vadj }

/-- one attribute access: new state and the value observed.  `edges.adjacent_plaquettes` and
    `vertices.adjacent_plaquettes` first touch `plaquettes`, then return (and cache) the private table. -/
def step (pv : Pure V) (s : State V) : Attr → State V × Option V
  | .plaquettes => let s' := touchPlaq pv s; (s', s'.plaq)
  | .nPlaquettes =>
    match s.nplaq with
    | some v => (s, some v)
    | none => let s' := touchPlaq pv s; ({ s' with nplaq := some pv.nplaq }, some pv.nplaq)
  | .edgeAdj =>
    match s.eadj with
    | some v => (s, some v)
    | none => let s' := touchPlaq pv s; ({ s' with eadj := s'.privE }, s'.privE)
  | .vertexAdj =>
    match s.vadj with
    | some v => (s, some v)
    | none => let s' := touchPlaq pv s; ({ s' with vadj := s'.privV }, s'.privV)

/-- pickling drops every cache slot (`__getstate__` returns positions, edges, crossings only) -/
def pickleRoundTrip (_ : State V) : State V := {}

inductive Op where
  | access (a : Attr)
  | pickle
  deriving DecidableEq, Repr

def run (pv : Pure V) : State V → List Op → List (Option V) → State V × List (Option V)
  | s, [], out => (s, out.reverse)
  | s, .access a :: rest, out => let r := step pv s a; run pv r.1 rest (r.2 :: out)
  | s, .pickle :: rest, out => run pv (pickleRoundTrip s) rest out

def pureOf (pv : Pure V) : Attr → V
  | .plaquettes => pv.plaq | .nPlaquettes => pv.nplaq | .edgeAdj => pv.eadj | .vertexAdj => pv.vadj

/-- several lattices alive at once: every lattice object has its own slots (they are instance attributes, `self._…`);
    an operation names the object it is applied to -/
def Heap (V : Type) := Nat → State V

def Heap.set (h : Heap V) (i : Nat) (s : State V) : Heap V := fun j => if j = i then s else h j

def runMany (pvs : Nat → Pure V) : Heap V → List (Nat × Op) → List (Option V) → Heap V × List (Option V)
  | h, [], out => (h, out.reverse)
  | h, (i, .access a) :: rest, out => let r := step (pvs i) (h i) a; runMany pvs (h.set i r.1) rest (r.2 :: out)
  | h, (i, .pickle) :: rest, out => runMany pvs (h.set i (pickleRoundTrip (h i))) rest out

end Cache
