import Lean.Data.Json
open Lean

/-! JSON helpers for the model driver (no defaults that could hide a malformed request:
    every accessor returns `Except`). -/

namespace KJ

def int (j : Json) : Except String Int := match j.getInt? with | .ok i => .ok i | .error e => .error s!"int:{e}"
def nat (j : Json) : Except String Nat := do
  let i ← int j
  if i < 0 then .error "negative-nat" else pure i.toNat
def arr (j : Json) : Except String (Array Json) := match j with | Json.arr a => .ok a | _ => .error "array-expected"
def field (j : Json) (k : String) : Except String Json := match j.getObjVal? k with | .ok v => .ok v | .error _ => .error s!"missing:{k}"
def fieldOpt (j : Json) (k : String) : Option Json := match j.getObjVal? k with | .ok v => some v | .error _ => none
def str (j : Json) : Except String String := match j with | Json.str s => .ok s | _ => .error "string-expected"
def bool (j : Json) : Except String Bool := match j with | Json.bool b => .ok b | _ => .error "bool-expected"
def pairI (j : Json) : Except String (Int × Int) := do
  let a ← arr j
  if a.size != 2 then .error "pair-expected" else pure (← int a[0]!, ← int a[1]!)
def pairN (j : Json) : Except String (Nat × Nat) := do
  let a ← arr j
  if a.size != 2 then .error "pair-expected" else pure (← nat a[0]!, ← nat a[1]!)
def listOf {α} (f : Json → Except String α) (j : Json) : Except String (List α) := do
  let a ← arr j
  a.toList.mapM f
def ints (j : Json) : Except String (List Int) := listOf int j
def nats (j : Json) : Except String (List Nat) := listOf nat j

def jint (i : Int) : Json := Json.num (JsonNumber.fromInt i)
def jnat (n : Nat) : Json := Json.num (JsonNumber.fromNat n)
def jints (l : List Int) : Json := Json.arr (l.map jint).toArray
def jnats (l : List Nat) : Json := Json.arr (l.map jnat).toArray
def jpairI (p : Int × Int) : Json := Json.arr #[jint p.1, jint p.2]
def jpairN (p : Nat × Nat) : Json := Json.arr #[jnat p.1, jnat p.2]
def jlist {α} (f : α → Json) (l : List α) : Json := Json.arr (l.map f).toArray

end KJ
