import KoalaVerif.Model.Lattice

/-! Executable model of `flux_finder.fluxes_from_ujk` / `fluxes_from_bonds` (import-free). -/

/-- bond variables as a function (`ujk[e]`) -/
def uOf (u : List Int) : Nat → Int := fun e => u.getD e 0

/-- `np.prod(-ujk[p.edges] * p.directions)` -/
def flux (u : Nat → Int) (w : List Dart) : Int := (w.map fun d => -(u d.1) * dirSign d).prod

/-- Gaussian integers as pairs (re, im) -/
def gmul (a b : Int × Int) : Int × Int := (a.1 * b.1 - a.2 * b.2, a.1 * b.2 + a.2 * b.1)

/-- `np.prod(-(ujk[p.edges] * 1j) * p.directions)`, multiplied out in ℤ[i] -/
def fluxC (u : Nat → Int) (w : List Dart) : Int × Int :=
  (w.map fun d => ((0 : Int), -(u d.1) * dirSign d)).foldr gmul (1, 0)

/-- i^n -/
def ipow : Nat → Int × Int
  | 0 => (1, 0)
  | n + 1 => gmul (0, 1) (ipow n)

/-- gauge transformation at vertex `v`: flip every bond incident to `v` -/
def gauge (L : Lat) (v : Nat) (u : Nat → Int) : Nat → Int := fun e =>
  if (L.endsOf e).1 = v ∨ (L.endsOf e).2 = v then -(u e) else u e

def flip1 (e : Nat) (u : Nat → Int) : Nat → Int := fun x => if x = e then -(u x) else u x

/-- the deprecated convention of `fluxes_from_bonds(real=True)`: `sign_real[n % 4] * prod(u * dir)` -/
def fluxOld (signReal : List Int) (u : Nat → Int) (w : List Dart) : Int :=
  signReal.getD (w.length % 4) 0 * (w.map fun d => u d.1 * dirSign d).prod

/-- `fluxes_from_ujk(lattice, ujk)` for the model's own plaquettes -/
def fluxesOf (L : Lat) (R : Rot) (u : List Int) : List Int := (plaquettes L R).map fun p => flux (uOf u) p.darts
def fluxesCOf (L : Lat) (R : Rot) (u : List Int) : List (Int × Int) := (plaquettes L R).map fun p => fluxC (uOf u) p.darts
def fluxesOldOf (signReal : List Int) (L : Lat) (R : Rot) (u : List Int) : List Int :=
  (plaquettes L R).map fun p => fluxOld signReal (uOf u) p.darts
