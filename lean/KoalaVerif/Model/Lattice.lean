/-! # Executable model of `koala.lattice` (import-free: core Lean only)

`Lat` mirrors the three arrays a `Lattice` is built from.  All coordinates are integers:
the harness sends every float as an exact dyadic rational scaled by `scale` (a power of two).
Everything here is total and computable; the theorems about these definitions live in
`KoalaVerif/Lemmas` and `KoalaVerif/Props`. -/

structure Lat where
  nV : Nat
  edges : List (Nat × Nat)
  cross : List (Int × Int) := []
  pos : List (Int × Int) := []      -- scaled by `scale`
  scale : Int := 1

abbrev Dart : Type := Nat × Bool   -- (edge index, traversed backwards?)

namespace Lat
def E (L : Lat) : Nat := L.edges.length
def endsOf (L : Lat) (e : Nat) : Nat × Nat := L.edges.getD e (0, 0)
def tail (L : Lat) (d : Dart) : Nat := if d.2 then (L.endsOf d.1).2 else (L.endsOf d.1).1
def head (L : Lat) (d : Dart) : Nat := if d.2 then (L.endsOf d.1).1 else (L.endsOf d.1).2
def crossOf (L : Lat) (e : Nat) : Int × Int := L.cross.getD e (0, 0)
def posOf (L : Lat) (v : Nat) : Int × Int := L.pos.getD v (0, 0)
/-- stored edge vector (`edges.vectors`), scaled: end − start + crossing -/
def evec (L : Lat) (e : Nat) : Int × Int :=
  let ab := L.endsOf e
  let pa := L.posOf ab.1; let pb := L.posOf ab.2; let c := L.crossOf e
  (pb.1 - pa.1 + c.1 * L.scale, pb.2 - pa.2 + c.2 * L.scale)
/-- vector of a dart: the edge vector, negated when traversed backwards -/
def dvec (L : Lat) (d : Dart) : Int × Int := let v := L.evec d.1; if d.2 then (-v.1, -v.2) else v
/-- `edge_indices` contains no self-loop (the precondition of every plaquette property) -/
def noSelfLoop (L : Lat) : Bool := L.edges.all fun e => e.1 != e.2
end Lat

abbrev Rot : Type := Nat → List Nat

/-- one step of `_find_plaquette`: go to the far end `v` of the current dart, take the entry after the
    current edge in `v`'s clockwise list, and orient it away from `v`. -/
def nextD (L : Lat) (R : Rot) (d : Dart) : Dart :=
  let v := L.head d
  let l := R v
  let i := l.idxOf d.1
  let e' := l.getD ((i + 1) % l.length) 0
  (e', decide ((L.endsOf e').1 ≠ v))

/-- mirror of the `_find_plaquette` loop: `acc` holds visited darts, newest first; `none` is the
    `LatticeException("plaquette finder is getting stuck")` branch (or fuel exhausted). -/
def traceLoop {α : Type} [DecidableEq α] (f : α → α) (start : α) : Nat → α → List α → Option (List α)
  | 0, _, _ => none
  | fuel+1, cur, acc =>
    let nxt := f cur
    if nxt = start then some acc.reverse
    else if nxt ∈ acc then none
    else traceLoop f start fuel nxt (nxt :: acc)

def trace {α : Type} [DecidableEq α] (f : α → α) (start : α) (fuel : Nat) : Option (List α) :=
  traceLoop f start fuel start [start]

/-- mirror of `_find_all_plaquettes`: go through the darts in order, trace from every dart not yet
    marked, mark everything on the traced walk. -/
def sweep {α : Type} [DecidableEq α] (tr : α → List α) : List α → List α → List (List α)
  | [], _ => []
  | d :: rest, vis => if d ∈ vis then sweep tr rest vis else tr d :: sweep tr rest (tr d ++ vis)

/-- the order in which `_find_all_plaquettes` tries darts: edge 0 forwards, edge 0 backwards, edge 1 … -/
def dartOrder (nE : Nat) : List Dart := (List.range nE).flatMap fun e => [(e, false), (e, true)]

/-! ## Geometry: the clockwise-from-12 ordering of `_sorted_vertex_adjacent_edges`, exactly -/

/-- quadrant of the anticlockwise angle from the +y axis (the code's `arctan2(-x, y) % 2π`) -/
def quad (v : Int × Int) : Nat :=
  let a := v.2; let b := -v.1
  if a > 0 ∧ b ≥ 0 then 0 else if a ≤ 0 ∧ b > 0 then 1 else if a < 0 ∧ b ≤ 0 then 2 else if a ≥ 0 ∧ b < 0 then 3 else 0

/-- θ(v1) < θ(v2) for θ = anticlockwise angle from +y in [0, 2π) -/
def angLt (v1 v2 : Int × Int) : Bool :=
  let q1 := quad v1; let q2 := quad v2
  if q1 != q2 then q1 < q2
  else (v1.2 * (-v2.1) - v2.2 * (-v1.1)) > 0

def insertDesc (key : Nat → Int × Int) (e : Nat) : List Nat → List Nat
  | [] => [e]
  | x :: xs => if angLt (key x) (key e) then e :: x :: xs else x :: insertDesc key e xs

/-- the edges touching `v` (`np.nonzero((edge_indices[:,0]==v) + (edge_indices[:,1]==v))`) -/
def incident (L : Lat) (v : Nat) : List Nat :=
  (List.range L.E).filter fun e => (L.endsOf e).1 == v || (L.endsOf e).2 == v

/-- direction in which edge `e` leaves `v` -/
def outVec (L : Lat) (v e : Nat) : Int × Int :=
  if (L.endsOf e).1 == v then L.evec e else let w := L.evec e; (-w.1, -w.2)

/-- `_sorted_vertex_adjacent_edges`: incident edges of `v` by decreasing angle (`argsort(-angle)`) -/
def rotAt (L : Lat) (v : Nat) : List Nat :=
  (incident L v).foldl (fun acc e => insertDesc (outVec L v) e acc) []

def crossI (a b : Int × Int) : Int := a.1 * b.2 - a.2 * b.1
def dotI (a b : Int × Int) : Int := a.1 * b.1 + a.2 * b.2

/-- clockwise angle from +y (the code's `arctan2(x, y)`), branch [0, 2π): quadrant + cross comparison -/
def cwQuad (v : Int × Int) : Nat :=
  let a := v.2; let b := v.1
  if a > 0 ∧ b ≥ 0 then 0 else if a ≤ 0 ∧ b > 0 then 1 else if a < 0 ∧ b ≤ 0 then 2 else if a ≥ 0 ∧ b < 0 then 3 else 0
def cwLe (v1 v2 : Int × Int) : Bool :=     -- φ(v1) ≤ φ(v2)
  let q1 := cwQuad v1; let q2 := cwQuad v2
  if q1 != q2 then q1 < q2 else (v1.2 * v2.1 - v2.2 * v1.1) ≥ 0

/-- exact value of `round(sum(wrap(angs - roll(angs,1))) / 2π)`: the sum of the wrap corrections -/
def winding (ds : List (Int × Int)) : Int :=
  match ds.getLast? with
  | none => 0
  | some last =>
    let prevs := last :: ds.dropLast
    (prevs.zip ds).foldl (fun acc (p, c) =>
      let k : Int :=
        if cwLe p c then
          (if crossI p c > 0 ∨ (crossI p c == 0 ∧ dotI p c < 0) then -1 else 0)
        else
          (if crossI c p > 0 then 1 else 0)
      acc + k) 0

def dirSign (d : Dart) : Int := if d.2 then -1 else 1

/-- net boundary crossing of a walk: `sum(directions[:,None] * crossing[edges])` -/
def netCross (L : Lat) (w : List Dart) : Int × Int :=
  w.foldl (fun (acc : Int × Int) d => let c := L.crossOf d.1
                                      (acc.1 + dirSign d * c.1, acc.2 + dirSign d * c.2)) (0, 0)

/-- unwrapped polygon of a walk: `positions[vertices[0]] + cumsum(vectors)` -/
def polyPoints (L : Lat) (w : List Dart) : List (Int × Int) :=
  let p0 := L.posOf (L.tail (w.headD (0, false)))
  ((w.map L.dvec).foldl (fun (acc : List (Int × Int) × (Int × Int)) v =>
      let p := (acc.2.1 + v.1, acc.2.2 + v.2); (p :: acc.1, p)) ([], p0)).1.reverse

structure Plaq where
  darts : List Dart
  valid : Bool
  noRepeat : Bool
  net : Int × Int
  w : Int
  area2 : Int                 -- twice the signed area, scaled²
  cnum : Int × Int            -- centroid numerators; centre = cnum / (3 * area2) (scaled)

/-- everything `_find_plaquette` computes after the walk is closed -/
def analyse (L : Lat) (w : List Dart) : Plaq :=
  let es := w.map (·.1)
  let noRepeat := es.eraseDups.length == es.length
  let net := netCross L w
  let pts := polyPoints L w
  let nxt := pts.drop 1 ++ pts.take 1
  let a2 := (pts.zip nxt).foldl (fun acc (p, q) => acc + crossI p q) 0
  let cx := (pts.zip nxt).foldl (fun acc (p, q) => acc + (p.1 + q.1) * crossI p q) 0
  let cy := (pts.zip nxt).foldl (fun acc (p, q) => acc + (p.2 + q.2) * crossI p q) 0
  let wn := winding (w.map L.dvec)
  { darts := w, valid := noRepeat && net == (0, 0) && wn == -1, noRepeat := noRepeat, net := net,
    w := wn, area2 := a2, cnum := (cx, cy) }

/-- the rotation system as a table (computed once) -/
def rotTable (L : Lat) : Array (List Nat) := (Array.range L.nV).map (rotAt L)
def rotOfTable (T : Array (List Nat)) : Rot := fun v => T.getD v []

/-- walk traced from dart `d` (empty when the tracer is stuck) -/
def walkFrom (L : Lat) (R : Rot) (d : Dart) : List Dart := (trace (nextD L R) d (2 * L.E + 1)).getD []

/-- all traced walks, in the order `_find_all_plaquettes` finds them -/
def allWalks (L : Lat) (R : Rot) : List (List Dart) := sweep (walkFrom L R) (dartOrder L.E) []

/-- does the tracer get stuck somewhere (⇔ `LatticeException`)? -/
def anyStuck (L : Lat) (R : Rot) : Bool :=
  (dartOrder L.E).any fun d => (trace (nextD L R) d (2 * L.E + 1)).isNone

/-- `Lattice.plaquettes` (dart cycles of the valid walks, in order) -/
def plaquettes (L : Lat) (R : Rot) : List Plaq := ((allWalks L R).map (analyse L)).filter (·.valid)
