import KoalaVerif.Model.Tree

/-! Executable model of `flux_finder.ujk_from_fluxes` / `find_flux_sector` (import-free).

The path finder is a parameter: the model takes the recorded sequence of `(a, b, nodes, edges)` that
`path_between_plaquettes` returned (C11 decides the path finder itself) and *checks* each chain. -/

namespace Solver
open Tree

/-- `bonds[edges] *= -1` (fancy-indexed in-place multiply: an index listed twice is flipped once) -/
def flipEdges (es : List Nat) (u : Nat → Int) : Nat → Int := fun x => if es.contains x then -(u x) else u x

/-- `fluxes[a] *= -1` -/
def negAt (f : Nat → Int) (a : Nat) : Nat → Int := fun p => if p = a then -(f p) else f p

structure St where
  bonds : Nat → Int
  toFlip : Nat → Int

/-- `_flip_adjacent_fluxes`: walk the edge table in order, stop at the first edge with an `INVALID` side -/
def adjacentPass (S : Sys) : List Nat → St → St
  | [], s => s
  | e :: rest, s =>
    match S.sides e with
    | (some a, some b) =>
      if s.toFlip a == -1 && s.toFlip b == -1 then
        adjacentPass S rest { bonds := flip1 e s.bonds, toFlip := negAt (negAt s.toFlip a) b }
      else adjacentPass S rest s
    | _ => s

/-- one iteration of the loop in `_flip_isolated_fluxes` -/
def pathStep (s : St) (a b : Nat) (es : List Nat) : St :=
  { bonds := flipEdges es s.bonds, toFlip := negAt (negAt s.toFlip a) b }

def isolatedPass (s : St) (steps : List (Nat × Nat × List Nat)) : St :=
  steps.foldl (fun s t => pathStep s t.1 t.2.1 t.2.2) s

/-- `np.where(fluxes == -1)[0]` -/
def negs (F : Nat) (f : Nat → Int) : List Nat := (List.range F).filter fun p => f p == -1

/-- the chain test applied to a recorded path: `nodes = [n0 … nk]`, `es = [e1 … ek]`,
    every `e_i` has plaquettes `n_{i-1}` and `n_i` on its two sides -/
def chainOK (S : Sys) : List Nat → List Nat → Bool
  | [_], [] => true
  | p :: p' :: ns, e :: es =>
    (S.sides e == (some p, some p') || S.sides e == (some p', some p)) && chainOK S (p' :: ns) es
  | _, _ => false

/-- the pairing test applied to the recorded pairs: all entries different, and together they are the
    `-1` positions (without the last one when their number is odd) -/
def pairingOK (idx : List Nat) (pairs : List (Nat × Nat)) : Bool :=
  let want := if idx.length % 2 == 1 then idx.dropLast else idx
  let flat := pairs.flatMap fun p => [p.1, p.2]
  flat.length == want.length && want.all (fun x => flat.contains x) && flat.all (fun x => want.contains x)

/-- `target // initial` elementwise, then the two passes.  `phi u p` = flux of plaquette `p` -/
def solve (S : Sys) (nE : Nat) (phi : (Nat → Int) → Nat → Int) (target guess : Nat → Int)
    (steps : List (Nat × Nat × List Nat)) : St :=
  let tf : Nat → Int := fun p => Int.fdiv (target p) (phi guess p)
  let s1 := adjacentPass S (List.range nE) { bonds := guess, toFlip := tf }
  isolatedPass s1 steps

end Solver
