/-! Flow-insensitive effect IR for "no operation modifies its arguments" (import-free).

A program is a *bag of atoms* over SSA variable numbers (the translator does the renaming, summarises
koala-internal callees and classifies numpy operations as fresh / alias / mutate).  Any finite sequence of
atoms drawn from the bag over-approximates every path through branches, loops, early returns and exception
edges.  `pt x` is the certificate: a bit mask of the parameters variable `x` may point into. -/

namespace Eff

abbrev Var : Type := Nat
abbrev Loc : Type := Nat

inductive Atom where
  | bindFresh (x : Var)
  | bindParam (x : Var) (i : Nat)
  | bindAlias (x y : Var)          -- x := y, x := view of y, attribute / basic subscript of y, φ
  | mutate (x : Var)               -- in-place write through x
  | useGlobalRng                   -- draws from (and advances) numpy's global random state
  deriving DecidableEq, Repr

structure St where
  env  : Var → Option Loc
  heap : Loc → Nat                 -- version counter of every location: bumped by every write
  next : Loc                       -- next fresh location
  rng  : Nat                       -- version counter of the global random state

/-- locations `< nParams` are the parameter regions (a parameter object and everything reachable from it is
    one region); fresh objects are allocated above them -/
def step (nParams : Nat) (s : St) : Atom → St
  | .bindFresh x   => { s with env := fun v => if v = x then some (max s.next nParams) else s.env v,
                               next := max s.next nParams + 1 }
  | .bindParam x i => { s with env := fun v => if v = x then (if i < nParams then some i else none) else s.env v }
  | .bindAlias x y => { s with env := fun v => if v = x then s.env y else s.env v }
  | .mutate x      => match s.env x with
                      | some l => { s with heap := fun l' => if l' = l then s.heap l' + 1 else s.heap l' }
                      | none   => s
  | .useGlobalRng  => { s with rng := s.rng + 1 }

def run (nParams : Nat) (s : St) (t : List Atom) : St := t.foldl (step nParams) s

/-- `m ⊆ m'` on bit masks -/
def subMask (m m' : Nat) : Bool := m &&& m' == m

/-- certificate check: `pt` is closed under the binds, and every write goes through a variable that can only
    point into the parameters listed in `allowed` (0 for public functions; the summary of a private helper
    that is documented to update its arguments otherwise) -/
def check (prog : List Atom) (pt : Var → Nat) (allowed : Nat) : Bool :=
  prog.all fun a => match a with
    | .bindFresh _   => true
    | .bindParam x i => (pt x).testBit i
    | .bindAlias x y => subMask (pt y) (pt x)
    | .mutate x      => subMask (pt x) allowed
    | .useGlobalRng  => true

def noGlobalRng (prog : List Atom) : Bool := prog.all fun a => a != .useGlobalRng

/-- certificates are emitted as association lists (variables not listed point to no parameter) -/
def ptOf (tbl : List (Nat × Nat)) : Var → Nat := fun v => ((tbl.find? fun p => p.1 == v).map (·.2)).getD 0

end Eff
