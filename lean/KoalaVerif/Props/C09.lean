import KoalaVerif.Model.Pickle
import KoalaVerif.Model.Tables
import KoalaVerif.Generated.Tables
import Mathlib.Data.List.Basic
import Mathlib.Tactic.Ring
import Mathlib.Tactic.NormNum

/-! # C09 — pickling round-trips a lattice to an observationally equivalent lattice; equality is a total,
reflexive, symmetric test that detects every change above its tolerance

The dtype ladder and the crossing width are read from the source (`GenT.index_widths`, `GenT.crossing_width`). -/

namespace C09
open Pickle

/-! ### the narrowing round trip, for every number of vertices -/

/-- the ladder of the source picks, for every lattice that fits 64-bit indices, a width that holds every index -/
theorem chooseWidth_spec (nV : Nat) (h : nV ≤ 2 ^ 64 - 1) :
    ∃ w, chooseWidth GenT.index_widths nV = some w ∧ w ∈ GenT.index_widths ∧ nV ≤ 2 ^ w - 1 := by
  unfold chooseWidth GenT.index_widths
  simp only [List.find?_cons, List.find?_nil]
  by_cases h8 : nV ≤ 255
  · exact ⟨8, by simp [h8], by simp, by omega⟩
  · by_cases h16 : nV ≤ 65535
    · exact ⟨16, by simp [h8, h16], by simp, by omega⟩
    · by_cases h32 : nV ≤ 4294967295
      · exact ⟨32, by simp [h8, h16, h32], by simp, by omega⟩
      · have h64 : nV ≤ 18446744073709551615 := by omega
        exact ⟨64, by simp [h8, h16, h32, h64], by simp, h⟩

/-- the thresholds: 8 bits up to 255 vertices, 16 bits from 256 to 65535, 32 bits from 65536 -/
theorem chooseWidth_thresholds :
    chooseWidth GenT.index_widths 255 = some 8 ∧ chooseWidth GenT.index_widths 256 = some 16 ∧
    chooseWidth GenT.index_widths 65535 = some 16 ∧ chooseWidth GenT.index_widths 65536 = some 32 ∧
    chooseWidth GenT.index_widths 70000 = some 32 ∧ chooseWidth GenT.index_widths 1 = some 8 := by
  unfold chooseWidth GenT.index_widths
  refine ⟨?_, ?_, ?_, ?_, ?_, ?_⟩ <;> decide

/-- **C09.1** narrowing an index below `n_vertices` to the chosen width loses nothing -/
theorem narrow_roundtrip (w nV i : Nat) (hw : nV ≤ 2 ^ w - 1) (hi : i < nV) : narrow w i = i := by
  unfold narrow
  exact Nat.mod_eq_of_lt (by omega)

/-- a crossing that passes `check_fits` survives the cast to the signed width of the source (8 bits) -/
theorem toSigned_roundtrip (c : Int) (h1 : -(2 ^ (GenT.crossing_width - 1) : Int) ≤ c)
    (h2 : c ≤ 2 ^ (GenT.crossing_width - 1) - 1) : toSigned GenT.crossing_width c = c := by
  unfold toSigned
  simp only [GenT.crossing_width] at *
  norm_num at *
  omega

theorem fits_iff (w : Nat) (cs : List (Int × Int)) :
    fits w cs = true ↔ ∀ c ∈ cs, -(2 ^ (w - 1) : Int) ≤ c.1 ∧ c.1 ≤ 2 ^ (w - 1) - 1 ∧ -(2 ^ (w - 1) : Int) ≤ c.2 ∧ c.2 ≤ 2 ^ (w - 1) - 1 := by
  unfold fits
  simp [List.all_eq_true]

/-- **C09.1 round trip**: whenever `__getstate__` succeeds on a lattice whose edges are in range, `__setstate__` of the
    state has identical edges and identical crossings, positions rounded to single precision, and the same
    number of vertices — for every number of vertices (the 255/256 and 65535/65536 thresholds are instances) -/
theorem roundtrip_spec (L : Lat) (s : State) (hpos : L.pos.length = L.nV)
    (hr : ∀ e ∈ L.edges, e.1 < L.nV ∧ e.2 < L.nV)
    (h : getstate GenT.index_widths GenT.crossing_width L = .ok s) :
    (setstate L.scale s).edges = L.edges ∧ (setstate L.scale s).cross = L.cross ∧
    (setstate L.scale s).nV = L.nV ∧ (setstate L.scale s).pos = L.pos.map (fun p => (r32 p.1, r32 p.2)) := by
  unfold getstate at h
  split at h
  · cases h
  · rename_i w hw
    split at h
    · cases h
    · rename_i hf
      simp only [Bool.not_eq_true, Bool.not_eq_false] at hf
      injection h with h
      subst h
      have hwspec : L.nV ≤ 2 ^ w - 1 := by
        unfold chooseWidth at hw
        have := List.find?_some hw
        simpa using this
      refine ⟨?_, ?_, by simp [setstate, hpos], rfl⟩
      · simp only [setstate]
        conv_rhs => rw [← List.map_id L.edges]
        apply List.map_congr_left
        intro e he
        obtain ⟨h1, h2⟩ := hr e he
        simp [narrow_roundtrip w L.nV _ hwspec h1, narrow_roundtrip w L.nV _ hwspec h2]
      · simp only [setstate]
        conv_rhs => rw [← List.map_id L.cross]
        apply List.map_congr_left
        intro c hc
        have := (fits_iff _ _).mp (by simpa using hf) c hc
        simp [toSigned_roundtrip c.1 this.1 this.2.1, toSigned_roundtrip c.2 this.2.2.1 this.2.2.2]

/-- `__getstate__` succeeds exactly on lattices that fit: fewer than 2^64 vertices, crossings in int8 -/
theorem getstate_ok_iff (L : Lat) (hn : L.nV ≤ 2 ^ 64 - 1) :
    (∃ s, getstate GenT.index_widths GenT.crossing_width L = .ok s) ↔ fits GenT.crossing_width L.cross = true := by
  obtain ⟨w, hw, _, _⟩ := chooseWidth_spec L.nV hn
  unfold getstate
  rw [hw]
  by_cases hf : fits GenT.crossing_width L.cross = true
  · simp [hf]
  · simp [hf]

/-- D7, kept as a regression witness: index arithmetic at the pickled width overflows (`3 * uint8(160) = 224`),
    which is why `__setstate__` widens before re-running the constructor -/
example : 3 * (160 : UInt8) = 224 := by decide
example : narrow 8 (3 * 160) = 224 := by decide

/-! ### pickling does not see the caches -/

/-- the pickled state is a function of `(positions, edges, crossings)`: two lattice objects with the same three
    arrays pickle identically whatever cached attributes either has populated (the cache slots of C02's state
    machine are not part of `Lat`; `Cache.pickleRoundTrip` drops them all) -/
theorem getstate_ignores_caches {V : Type} (s : Cache.State V) : Cache.pickleRoundTrip s = ({} : Cache.State V) := rfl

/-! ### equality -/

/-- **C09.4 reflexive** -/
theorem latEq_refl (A : Lat) : latEq A A = true := by
  unfold latEq
  simp only [beq_self_eq_true, Bool.true_and, Bool.and_true]
  rw [List.all_eq_true]
  intro pq hpq
  have : pq.1 = pq.2 := by
    obtain ⟨i, hi, rfl⟩ := List.getElem_of_mem hpq
    simp
  simp only [this, sub_self, mul_zero, Bool.and_self, decide_eq_true_eq]
  have : (0 : Int) ^ 2 * (A.pos.length : Int) = 0 := by ring
  rw [this]
  positivity

theorem all_zip_swap {α : Type} (f : α × α → Bool) (l₁ l₂ : List α) :
    (l₁.zip l₂).all f = (l₂.zip l₁).all (fun p => f (p.2, p.1)) := by
  induction l₁ generalizing l₂ with
  | nil => cases l₂ <;> simp
  | cons a t ih =>
    cases l₂ with
    | nil => simp
    | cons b u => simp [ih u]

/-- **C09.4 symmetric** (for two lattices on the same coordinate scale) -/
theorem latEq_symm (A B : Lat) (hs : A.scale = B.scale) : latEq A B = latEq B A := by
  unfold latEq
  by_cases hl : A.pos.length = B.pos.length
  · rw [all_zip_swap]
    have e1 : (A.pos.length == B.pos.length) = (B.pos.length == A.pos.length) := BEq.comm
    have e2 : (A.edges.length == B.edges.length) = (B.edges.length == A.edges.length) := BEq.comm
    have e3 : (A.edges == B.edges) = (B.edges == A.edges) := BEq.comm
    have e4 : (A.cross == B.cross) = (B.cross == A.cross) := BEq.comm
    have hf : (fun p : (Int × Int) × (Int × Int) =>
          decide ((100 * ((p.2, p.1).1.1 - (p.2, p.1).2.1)) ^ 2 * (A.pos.length : Int) ≤ A.scale ^ 2) &&
          decide ((100 * ((p.2, p.1).1.2 - (p.2, p.1).2.2)) ^ 2 * (A.pos.length : Int) ≤ A.scale ^ 2)) =
        (fun pq : (Int × Int) × (Int × Int) =>
          decide ((100 * (pq.1.1 - pq.2.1)) ^ 2 * (B.pos.length : Int) ≤ B.scale ^ 2) &&
          decide ((100 * (pq.1.2 - pq.2.2)) ^ 2 * (B.pos.length : Int) ≤ B.scale ^ 2)) := by
      funext pq
      have s1 : (100 * (pq.2.1 - pq.1.1)) ^ 2 = (100 * (pq.1.1 - pq.2.1)) ^ 2 := by ring
      have s2 : (100 * (pq.2.2 - pq.1.2)) ^ 2 = (100 * (pq.1.2 - pq.2.2)) ^ 2 := by ring
      simp only [s1, s2, hl, hs]
    rw [e1, e2, e3, e4, hf]
  · have h1 : (A.pos.length == B.pos.length) = false := by simp [hl]
    have h2 : (B.pos.length == A.pos.length) = false := by simp [Ne.symm hl]
    simp [h1, h2]

/-- **C09.4 detects** a changed edge list, a changed crossing list, a different size … -/
theorem latEq_detects (A B : Lat)
    (h : A.edges ≠ B.edges ∨ A.cross ≠ B.cross ∨ A.pos.length ≠ B.pos.length ∨ A.edges.length ≠ B.edges.length) :
    latEq A B = false := by
  unfold latEq
  rcases h with h | h | h | h <;> simp [h]

/-- … and a vertex displaced, in either coordinate, by more than `1/(100·√n)` (stated on squares) -/
theorem latEq_detects_displacement (A B : Lat) (i : Nat) (hi : i < A.pos.length) (hi' : i < B.pos.length)
    (h : A.scale ^ 2 < (100 * (A.pos[i].1 - B.pos[i].1)) ^ 2 * (A.pos.length : Int) ∨
         A.scale ^ 2 < (100 * (A.pos[i].2 - B.pos[i].2)) ^ 2 * (A.pos.length : Int)) :
    latEq A B = false := by
  unfold latEq
  have hmem : (A.pos[i], B.pos[i]) ∈ A.pos.zip B.pos := by
    rw [List.mem_iff_getElem]
    exact ⟨i, by simp [hi, hi'], by simp⟩
  have hall : ((A.pos.zip B.pos).all fun pq =>
      decide ((100 * (pq.1.1 - pq.2.1)) ^ 2 * (A.pos.length : Int) ≤ A.scale ^ 2) &&
      decide ((100 * (pq.1.2 - pq.2.2)) ^ 2 * (A.pos.length : Int) ≤ A.scale ^ 2)) = false := by
    rw [List.all_eq_false]
    refine ⟨_, hmem, ?_⟩
    simp only [Bool.and_eq_true, decide_eq_true_eq, not_and_or, not_le]
    exact h
  simp [hall]

/-- **C09.4 round trip compares equal**: if single-precision rounding moves every coordinate by at most the
    tolerance (true for all positions in the unit square and n ≤ 70 000: `2^-24 < 1/(100·√70000)`), the restored
    lattice compares equal to the original -/
theorem latEq_roundtrip (L : Lat) (s : State) (hpos : L.pos.length = L.nV)
    (hr : ∀ e ∈ L.edges, e.1 < L.nV ∧ e.2 < L.nV)
    (h : getstate GenT.index_widths GenT.crossing_width L = .ok s)
    (hclose : ∀ p ∈ L.pos, (100 * (p.1 - r32 p.1)) ^ 2 * (L.pos.length : Int) ≤ L.scale ^ 2 ∧
                           (100 * (p.2 - r32 p.2)) ^ 2 * (L.pos.length : Int) ≤ L.scale ^ 2) :
    latEq L (setstate L.scale s) = true := by
  obtain ⟨he, hc, _, hp⟩ := roundtrip_spec L s hpos hr h
  unfold latEq
  rw [he, hc, hp]
  simp only [List.length_map, beq_self_eq_true, Bool.true_and, Bool.and_true]
  rw [List.all_eq_true]
  intro pq hpq
  obtain ⟨i, hi, rfl⟩ := List.getElem_of_mem hpq
  simp only [List.getElem_zip, List.getElem_map, Bool.and_eq_true, decide_eq_true_eq]
  have hi' : i < L.pos.length := by simp at hi; exact hi
  exact hclose _ (List.getElem_mem hi')

/-- the arithmetic side condition of the statement: the single-precision rounding error on the unit square,
    `2^-24`, is below the tolerance `1/(100·√n)` for every `n ≤ 70000` (on squares, scale `2^24`) -/
theorem tolerance_side_condition (n : Nat) (hn : n ≤ 70000) : (100 * 1) ^ 2 * (n : Int) ≤ (2 ^ 24 : Int) ^ 2 := by
  have : (n : Int) ≤ 70000 := by exact_mod_cast hn
  norm_num
  omega

/-- **legacy state**: the dictionary branch of `__setstate__` restores the whole attribute dictionary, so the
    restored object has the very arrays of the original (modelled as the identity on `Lat`) and compares equal -/
theorem legacy_state_equal (A : Lat) : latEq A A = true := latEq_refl A

/-! ### single-precision rounding, exactly -/

example : roundSig 24 ((2 : Nat) ^ 30 + 1) = 2 ^ 30 := by decide
example : roundSig 24 (2 ^ 24 + 1) = 2 ^ 24 := by decide            -- tie → even
example : roundSig 24 (2 ^ 24 + 3) = 2 ^ 24 + 4 := by decide        -- tie → even (up)
example : r32 (-(2 ^ 24 + 3)) = -(2 ^ 24 + 4) := by decide

/-! ### non-vacuity -/

def exL : Lat := { nV := 3, edges := [(0, 1), (1, 2), (2, 0)], cross := [(0, 0), (1, 0), (-1, 0)],
                   pos := [(1, 2), (5, 6), (3, 9)], scale := 16 }

example : ∃ s, getstate GenT.index_widths GenT.crossing_width exL = .ok s ∧ latEq exL (setstate exL.scale s) = true :=
  ⟨_, rfl, by decide⟩

end C09
