import Mathlib.Tactic.Positivity
import KoalaVerif.Model.Voro
import Mathlib.Data.List.Basic
import Mathlib.Tactic.Ring
import Mathlib.Tactic.Linarith
import Mathlib.Tactic.Tauto

/-! # C03 — koala's periodic bookkeeping on top of the replicated Voronoi diagram

qhull and the geometric fact that a 3×3 (5×5) replication reproduces the periodic diagram are outside; everything koala
does *after* `Voronoi(points)` is discrete and modelled exactly (`Model/Voro.lean`).  The theorems say: every vertex
`base + offset` with `base` strictly inside the cell is mapped back to `base` and contributes `offset` to the crossing
(so the crossing of an edge is the cell offset between its ends and negates under swapping them); the de-duplication
key identifies exactly the two finds of one translation class of ridges and separates ridges between the same two
vertices that wind differently; de-duplication keeps one edge per key. -/

namespace C03
open Voro

/-! ### cell offsets -/

/-- `floor(base + o) = o` and `(base + o) mod 1 = base` for `base` strictly inside the cell -/
theorem floor_mod_offset (S b o : Int) (hS : 0 < S) (hb : 0 < b ∧ b < S) :
    Int.fdiv (b + o * S) S = o ∧ Int.fmod (b + o * S) S = b := by
  rw [Int.fdiv_eq_ediv_of_nonneg _ (le_of_lt hS), Int.fmod_eq_emod_of_nonneg _ (le_of_lt hS)]
  constructor
  · rw [Int.add_mul_ediv_right _ _ (ne_of_gt hS), Int.ediv_eq_zero_of_lt (le_of_lt hb.1) hb.2]; simp
  · rw [Int.add_mul_emod_self_right, Int.emod_eq_of_lt (le_of_lt hb.1) hb.2]

/-- **crossing = cell offset between the two ends**, and it negates when the ends are swapped -/
theorem crossing_is_cell_offset (S : Int) (hS : 0 < S) (b1 b2 o1 o2 : Int × Int)
    (h1 : 0 < b1.1 ∧ b1.1 < S ∧ 0 < b1.2 ∧ b1.2 < S) (h2 : 0 < b2.1 ∧ b2.1 < S ∧ 0 < b2.2 ∧ b2.2 < S) :
    let v1 : Pt := (b1.1 + o1.1 * S, b1.2 + o1.2 * S)
    let v2 : Pt := (b2.1 + o2.1 * S, b2.2 + o2.2 * S)
    ((floorCell S v2).1 - (floorCell S v1).1, (floorCell S v2).2 - (floorCell S v1).2) = (o2.1 - o1.1, o2.2 - o1.2) ∧
    modCell S v1 = b1 ∧ modCell S v2 = b2 := by
  intro v1 v2
  obtain ⟨a1, m1⟩ := floor_mod_offset S b1.1 o1.1 hS ⟨h1.1, h1.2.1⟩
  obtain ⟨a2, m2⟩ := floor_mod_offset S b1.2 o1.2 hS ⟨h1.2.2.1, h1.2.2.2⟩
  obtain ⟨a3, m3⟩ := floor_mod_offset S b2.1 o2.1 hS ⟨h2.1, h2.2.1⟩
  obtain ⟨a4, m4⟩ := floor_mod_offset S b2.2 o2.2 hS ⟨h2.2.2.1, h2.2.2.2⟩
  simp only [floorCell, modCell, v1, v2, a1, a2, a3, a4, m1, m2, m3, m4, true_and]

/-- a point inside the cell `(0, 1]²` is recognised as such exactly when its offset is zero (for `base` strictly inside) -/
theorem inCell_iff_zero_offset (S b1 b2 o1 o2 : Int) (hS : 0 < S) (h1 : 0 < b1 ∧ b1 < S) (h2 : 0 < b2 ∧ b2 < S) :
    inCell S (b1 + o1 * S, b2 + o2 * S) = true ↔ o1 = 0 ∧ o2 = 0 := by
  unfold inCell
  simp only [Bool.and_eq_true, decide_eq_true_eq]
  constructor
  · rintro ⟨⟨⟨a, b⟩, c⟩, d⟩
    constructor
    · by_contra h
      rcases lt_or_gt_of_ne h with h | h
      · have : o1 * S ≤ -S := by nlinarith
        omega
      · have : S ≤ o1 * S := by nlinarith
        omega
    · by_contra h
      rcases lt_or_gt_of_ne h with h | h
      · have : o2 * S ≤ -S := by nlinarith
        omega
      · have : S ≤ o2 * S := by nlinarith
        omega
  · rintro ⟨rfl, rfl⟩
    simp only [zero_mul, add_zero]
    omega

/-! ### the de-duplication key -/

/-- the two finds of one translation class (ends swapped, crossing negated) have the same key … -/
theorem key_swap (a b : Nat) (c : Int × Int) (hab : a ≠ b) :
    key { a := a, b := b, c := c } = key { a := b, b := a, c := (-c.1, -c.2) } := by
  unfold key
  simp only
  rcases Nat.lt_or_gt_of_ne hab with h | h
  · rw [if_pos (le_of_lt h), if_neg (by omega)]
  · rw [if_neg (by omega), if_pos (le_of_lt h)]
    simp

/-- … and two ridges between the same two vertices with different crossings (they wind differently round the torus)
    have different keys, so parallel edges survive -/
theorem key_crossing_inj (a b : Nat) (c c' : Int × Int)
    (h : key { a := a, b := b, c := c } = key { a := a, b := b, c := c' }) : c = c' := by
  unfold key at h
  simp only at h
  split at h
  · simp only [Prod.mk.injEq, neg_inj, true_and] at h
    exact Prod.ext h.1 h.2
  · simp only [Prod.mk.injEq, true_and] at h
    exact Prod.ext h.1 h.2

/-- edges with equal keys join the same unordered pair of vertices -/
theorem key_pair (e e' : CrossEdge) (h : key e = key e') :
    (e.a = e'.a ∧ e.b = e'.b) ∨ (e.a = e'.b ∧ e.b = e'.a) := by
  unfold key at h
  split at h <;> split at h <;> simp only [Prod.mk.injEq] at h
  · left; exact ⟨h.1, h.2.1⟩
  · right; exact ⟨h.1, h.2.1⟩
  · right; exact ⟨h.2.1, h.1⟩
  · left; exact ⟨h.2.1, h.1⟩

/-! ### de-duplication keeps one edge per key -/

theorem insertSorted_perm (e : CrossEdge) (l : List CrossEdge) : (insertSorted e l).Perm (e :: l) := by
  induction l with
  | nil => exact List.Perm.refl _
  | cons x xs ih =>
    unfold insertSorted
    split
    · exact List.Perm.refl _
    · exact (List.Perm.cons x ih).trans (List.Perm.swap e x xs)

theorem insertKey_nodup (e : CrossEdge) (l : List CrossEdge) (h : (l.map key).Nodup) : ((insertKey e l).map key).Nodup := by
  unfold insertKey
  split
  · exact h
  · rename_i hany
    have hnot : key e ∉ l.map key := by
      intro hm
      obtain ⟨x, hx, hk⟩ := List.mem_map.mp hm
      exact hany (List.any_eq_true.mpr ⟨x, hx, by simp [hk]⟩)
    have hp := (insertSorted_perm e l).map key
    rw [hp.nodup_iff, List.map_cons, List.nodup_cons]
    exact ⟨hnot, h⟩

theorem insertKey_keys (e : CrossEdge) (l : List CrossEdge) (k : Nat × Nat × Int × Int) :
    k ∈ (insertKey e l).map key ↔ k = key e ∨ k ∈ l.map key := by
  unfold insertKey
  split
  · rename_i hany
    obtain ⟨x, hx, hk⟩ := List.any_eq_true.mp hany
    have hkx : key x = key e := by simpa using hk
    constructor
    · intro h; exact Or.inr h
    · rintro (h | h)
      · rw [h, ← hkx]; exact List.mem_map_of_mem hx
      · exact h
  · rw [((insertSorted_perm e l).map key).mem_iff, List.map_cons, List.mem_cons]

theorem insertKey_sub (e : CrossEdge) (l : List CrossEdge) (x : CrossEdge) (h : x ∈ insertKey e l) : x = e ∨ x ∈ l := by
  unfold insertKey at h
  split at h
  · exact Or.inr h
  · exact List.mem_cons.mp ((insertSorted_perm e l).mem_iff.mp h)

/-- **one edge per key**: the de-duplicated list has pairwise different keys, contains exactly the keys that occur,
    and consists of edges that were found -/
theorem dedup_spec (es : List CrossEdge) :
    ((dedup es).map key).Nodup ∧ (∀ k, k ∈ (dedup es).map key ↔ k ∈ es.map key) ∧ ∀ x ∈ dedup es, x ∈ es := by
  unfold dedup
  have gen : ∀ (l acc : List CrossEdge), (acc.map key).Nodup →
      ((l.foldl (fun acc e => insertKey e acc) acc).map key).Nodup ∧
      (∀ k, k ∈ (l.foldl (fun acc e => insertKey e acc) acc).map key ↔ k ∈ l.map key ∨ k ∈ acc.map key) ∧
      ∀ x ∈ l.foldl (fun acc e => insertKey e acc) acc, x ∈ l ∨ x ∈ acc := by
    intro l
    induction l with
    | nil => intro acc h; exact ⟨h, by simp, by simp⟩
    | cons e l ih =>
      intro acc h
      simp only [List.foldl_cons]
      obtain ⟨h1, h2, h3⟩ := ih (insertKey e acc) (insertKey_nodup e acc h)
      refine ⟨h1, ?_, ?_⟩
      · intro k
        rw [h2 k, insertKey_keys e acc k, List.map_cons, List.mem_cons]
        tauto
      · intro x hx
        rcases h3 x hx with h | h
        · exact Or.inl (by simp [h])
        · rcases insertKey_sub e acc x h with h | h
          · exact Or.inl (by simp [h])
          · exact Or.inr h
  obtain ⟨h1, h2, h3⟩ := gen es [] (by simp)
  exact ⟨h1, by intro k; simpa using h2 k, by intro x hx; simpa using h3 x hx⟩

/-! ### counting -/

/-- a trivalent tiling of the torus by `N` cells (`3V = 2E`, `V − E + N = 0`) has `2N` vertices and `3N` edges -/
theorem trivalent_torus_counts (V E N : Nat) (h3 : 3 * V = 2 * E) (he : V + N = E) : V = 2 * N ∧ E = 3 * N := by omega

/-! ### non-vacuity -/
example : key { a := 2, b := 5, c := (1, 0) } = key { a := 5, b := 2, c := (-1, 0) } := by decide
example : (dedup [⟨2, 5, (1, 0)⟩, ⟨5, 2, (-1, 0)⟩, ⟨2, 5, (0, 1)⟩, ⟨1, 1, (0, 0)⟩]).length = 3 := by decide
example : nearest [(0, 0), (4, 4), (9, 1)] (5, 3) = 1 := by decide

/-! ### the nearest-vertex lookup (`KDTree.query`, modelled by an exact argmin) -/

/-- the fold step of `nearest` -/
def nstep (p : Pt) (best : Option (Int × Nat)) (vi : Pt × Nat) : Option (Int × Nat) :=
  let d := dist2 vi.1 p
  match best with
  | none => some (d, vi.2)
  | some (bd, bi) => if d < bd then some (d, vi.2) else some (bd, bi)

/-- what the running minimum knows about the entries seen so far -/
def NInv (p : Pt) (seen : List (Pt × Nat)) (b : Option (Int × Nat)) : Prop :=
  match b with
  | none => seen = []
  | some (d, i) => (∃ v, (v, i) ∈ seen ∧ d = dist2 v p) ∧ ∀ w ∈ seen, d ≤ dist2 w.1 p

theorem nstep_inv (p : Pt) (seen : List (Pt × Nat)) (b : Option (Int × Nat)) (x : Pt × Nat) (h : NInv p seen b) :
    NInv p (seen ++ [x]) (nstep p b x) := by
  unfold nstep
  cases b with
  | none =>
    simp only [NInv] at h ⊢
    subst h
    exact ⟨⟨x.1, by simp, rfl⟩, by intro w hw; simp at hw; subst hw; exact le_refl _⟩
  | some bi =>
    obtain ⟨bd, i⟩ := bi
    simp only [NInv] at h
    obtain ⟨⟨v, hv, hd⟩, hmin⟩ := h
    simp only
    split
    · rename_i hlt
      refine ⟨⟨x.1, by simp, rfl⟩, ?_⟩
      intro w hw
      rcases List.mem_append.mp hw with hw | hw
      · exact le_trans (le_of_lt hlt) (hmin w hw)
      · simp at hw; subst hw; exact le_refl _
    · rename_i hnlt
      refine ⟨⟨v, by simp [hv], hd⟩, ?_⟩
      intro w hw
      rcases List.mem_append.mp hw with hw | hw
      · exact hmin w hw
      · simp at hw; subst hw; exact not_lt.mp hnlt

theorem nfold_inv (p : Pt) : ∀ (xs seen : List (Pt × Nat)) (b : Option (Int × Nat)), NInv p seen b →
    NInv p (seen ++ xs) (xs.foldl (nstep p) b) := by
  intro xs
  induction xs with
  | nil => intro seen b h; simpa using h
  | cons x xs ih =>
    intro seen b h
    simp only [List.foldl_cons]
    have := ih (seen ++ [x]) (nstep p b x) (nstep_inv p seen b x h)
    simpa using this

theorem nearest_eq (verts : List Pt) (p : Pt) :
    nearest verts p = ((verts.zipIdx.foldl (nstep p) none).elim 0 (·.2)) := rfl

/-- **C03 (the in-cell representative)**: for a non-empty vertex list `nearest` returns a valid index of a vertex at
    minimal distance from the query point -/
theorem nearest_spec (verts : List Pt) (p : Pt) (hne : verts ≠ []) :
    ∃ h : nearest verts p < verts.length, ∀ j (hj : j < verts.length), dist2 verts[nearest verts p] p ≤ dist2 verts[j] p := by
  have hinv := nfold_inv p verts.zipIdx [] none (by simp [NInv])
  rw [nearest_eq]
  simp only [List.nil_append] at hinv
  cases hb : verts.zipIdx.foldl (nstep p) none with
  | none =>
    rw [hb] at hinv
    simp only [NInv] at hinv
    have : verts = [] := by
      have := congrArg List.length hinv
      simpa using this
    exact absurd this hne
  | some di =>
    obtain ⟨d, i⟩ := di
    rw [hb] at hinv
    simp only [NInv] at hinv
    obtain ⟨⟨v, hv, hd⟩, hmin⟩ := hinv
    rw [List.mem_zipIdx_iff_getElem?] at hv
    obtain ⟨hi, hvi⟩ := List.getElem?_eq_some_iff.mp hv
    simp only at hi hvi
    refine ⟨hi, ?_⟩
    intro j hj
    simp only [Option.elim]
    rw [hvi, ← hd]
    have := hmin (verts[j], j) (by rw [List.mem_zipIdx_iff_getElem?]; simp [hj])
    exact this

theorem dist2_eq_zero {a b : Pt} (h : dist2 a b = 0) : a = b := by
  unfold dist2 at h
  have h1 : a.1 - b.1 = 0 := by nlinarith [sq_nonneg (a.1 - b.1), sq_nonneg (a.2 - b.2)]
  have h2 : a.2 - b.2 = 0 := by nlinarith [sq_nonneg (a.1 - b.1), sq_nonneg (a.2 - b.2)]
  exact Prod.ext (by omega) (by omega)

/-- … so when the point looked up *is* one of the vertices (the image of a window vertex inside the unit cell, which the
    replication guarantees to be present), `nearest` returns an index of exactly that vertex -/
theorem nearest_of_mem (verts : List Pt) (p : Pt) (hp : p ∈ verts) :
    ∃ h : nearest verts p < verts.length, verts[nearest verts p] = p := by
  have hne : verts ≠ [] := List.ne_nil_of_mem hp
  obtain ⟨h, hmin⟩ := nearest_spec verts p hne
  refine ⟨h, ?_⟩
  obtain ⟨j, hj, hjp⟩ := List.getElem_of_mem hp
  have := hmin j hj
  rw [hjp] at this
  have h0 : dist2 p p = 0 := by unfold dist2; ring
  rw [h0] at this
  have hnn : 0 ≤ dist2 verts[nearest verts p] p := by unfold dist2; positivity
  exact dist2_eq_zero (le_antisymm this hnn)

end C03
