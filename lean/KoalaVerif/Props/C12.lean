import KoalaVerif.Model.Surgery
import KoalaVerif.Lemmas.Walk
import KoalaVerif.Lemmas.AngOrder
import KoalaVerif.Generated.Kernels
import Mathlib.Data.List.Basic
import Mathlib.Data.List.Nodup
import Mathlib.Data.List.Sublists
import Mathlib.Tactic.Linarith
import Mathlib.Tactic.Ring

/-! # C12 — cutting, deleting and relabelling return exactly the described sub-lattice -/

namespace C12
open Surgery

/-! ### masks keep rows in order and keep parallel arrays aligned -/

theorem filterIdx_sublist {α : Type} (keep : Nat → Bool) (xs : List α) : (filterIdx keep xs).Sublist xs := by
  unfold filterIdx
  have h1 : ((xs.zipIdx.filter fun p => keep p.2).map (·.1)).Sublist (xs.zipIdx.map (·.1)) :=
    (List.filter_sublist).map _
  have h2 : xs.zipIdx.map (·.1) = xs := by
    apply List.ext_getElem <;> simp
  rwa [h2] at h1

/-- row `i` survives iff the mask holds at `i` -/
theorem mem_filterIdx {α : Type} (keep : Nat → Bool) (xs : List α) (x : α) :
    x ∈ filterIdx keep xs ↔ ∃ i, xs[i]? = some x ∧ keep i = true := by
  unfold filterIdx
  simp only [List.mem_map, List.mem_filter, List.mem_zipIdx_iff_getElem?, Prod.exists]
  constructor
  · rintro ⟨a, i, ⟨h1, h2⟩, rfl⟩; exact ⟨i, by simpa using h1, h2⟩
  · rintro ⟨i, h1, h2⟩; exact ⟨x, i, ⟨by simpa using h1, h2⟩, rfl⟩

/-- two arrays filtered with the same mask stay aligned (edges with their crossings) -/
theorem filterIdx_zip {α β : Type} (keep : Nat → Bool) (xs : List α) (ys : List β) :
    (filterIdx keep xs).zip (filterIdx keep ys) = filterIdx keep (xs.zip ys) := by
  unfold filterIdx
  suffices h : ∀ (k : Nat),
      (((xs.zipIdx k).filter fun p => keep p.2).map (·.1)).zip (((ys.zipIdx k).filter fun p => keep p.2).map (·.1))
        = (((xs.zip ys).zipIdx k).filter fun p => keep p.2).map (·.1) from h 0
  induction xs generalizing ys with
  | nil => intro k; simp
  | cons x xs ih =>
    intro k
    cases ys with
    | nil => simp
    | cons y ys =>
      simp only [List.zipIdx_cons, List.zip_cons_cons, List.filter_cons]
      by_cases hk : keep k = true
      · simp only [hk, if_true, List.map_cons, List.zip_cons_cons, ih ys (k + 1)]
      · simp only [hk, Bool.false_eq_true, if_false, ih ys (k + 1)]

/-! ### cut_boundaries: the mask is the one in the source -/

/-- the translated mask is non-zero exactly when the edge crosses no selected boundary -/
theorem cut_mask_translated (c0 c1 : Int) (bx bY : Bool) :
    Gen.cut_keep c0 c1 (if bx then 1 else 0) (if bY then 1 else 0) ≠ 0 ↔
      ¬ (bx = true ∧ c0 ≠ 0) ∧ ¬ (bY = true ∧ c1 ≠ 0) := by
  unfold Gen.cut_keep Gen.b2i
  by_cases h0 : c0 = 0 <;> by_cases h1 : c1 = 0 <;> cases bx <;> cases bY <;> simp [h0, h1, Ne.symm] <;>
    (try omega)

/-- **C12.1** the model's mask is the translated one: an edge is kept iff it crosses none of the selected boundaries -/
theorem cutKeep_spec (L : Lat) (bx bY : Bool) (e : Nat) :
    cutKeep L bx bY e = true ↔
      Gen.cut_keep (L.crossOf e).1 (L.crossOf e).2 (if bx then 1 else 0) (if bY then 1 else 0) ≠ 0 := by
  rw [cut_mask_translated]
  unfold cutKeep
  simp only [Bool.and_eq_true, Bool.not_eq_true', Bool.and_eq_false_iff, bne_eq_false_iff_eq, bne_iff_ne, ne_eq]
  constructor
  · rintro ⟨h1, h2⟩
    exact ⟨fun ⟨a, b⟩ => by rcases h1 with h | h <;> simp_all, fun ⟨a, b⟩ => by rcases h2 with h | h <;> simp_all⟩
  · rintro ⟨h1, h2⟩
    refine ⟨?_, ?_⟩
    · cases bx <;> simp_all
    · cases bY <;> simp_all

/-- cutting keeps the vertices, keeps the surviving edges in order with their own crossings, and removes an
    edge iff it crosses a selected boundary -/
theorem cut_spec (L : Lat) (bx bY : Bool) :
    (cut L bx bY).nV = L.nV ∧ (cut L bx bY).pos = L.pos ∧
    (cut L bx bY).edges.Sublist L.edges ∧
    (cut L bx bY).edges.zip (cut L bx bY).cross = filterIdx (cutKeep L bx bY) (L.edges.zip L.cross) ∧
    ∀ x, x ∈ (cut L bx bY).edges ↔ ∃ e, L.edges[e]? = some x ∧ cutKeep L bx bY e = true :=
  ⟨rfl, rfl, filterIdx_sublist _ _, filterIdx_zip _ _ _, fun x => mem_filterIdx _ _ x⟩

/-- cutting nothing changes nothing; cutting twice is cutting once -/
theorem cut_none (L : Lat) : (cut L false false).edges = L.edges := by
  unfold cut filterIdx cutKeep
  simp only [Bool.false_and, Bool.not_false, Bool.and_self, List.filter_true]
  apply List.ext_getElem <;> simp

/-! ### remove_vertices: the renumbering is the order-preserving bijection -/

def keptList (removed : Nat → Bool) (n : Nat) : List Nat := (List.range n).filter fun v => !removed v

theorem kept_add_removed (removed : Nat → Bool) (n : Nat) :
    (keptList removed n).length + ((List.range n).filter removed).length = n := by
  unfold keptList
  induction n with
  | zero => simp
  | succ n ih =>
    rw [List.range_succ, List.filter_append, List.filter_append, List.length_append, List.length_append]
    cases h : removed n <;> simp [h] <;> omega

/-- **C12.2** for a kept vertex `v`, `new_index[v]` is the position of `v` among the kept vertices listed in
    increasing order: the renumbering restricted to the kept vertices is the order-preserving bijection onto
    `0 .. k−1`, and new position `new_index[v]` is old position `v` (`positions[~set_for_removal]`) -/
theorem newIndex_spec (removed : Nat → Bool) (n v : Nat) (hv : v < n) (hk : removed v = false) :
    (keptList removed n)[newIndex removed v]? = some v := by
  induction n with
  | zero => omega
  | succ n ih =>
    have hsplit : keptList removed (n + 1) = keptList removed n ++ (if removed n then [] else [n]) := by
      unfold keptList
      rw [List.range_succ, List.filter_append]
      cases h : removed n <;> simp [h]
    rw [hsplit]
    by_cases hvn : v < n
    · have := ih hvn
      rw [List.getElem?_append_left]
      · exact this
      · exact (List.getElem?_eq_some_iff.mp this).1
    · have hvn' : v = n := by omega
      subst hvn'
      have hcount := kept_add_removed removed v
      have hcum : cumRemoved removed v = ((List.range v).filter removed).length := by
        unfold cumRemoved
        rw [List.range_succ, List.filter_append]
        simp [hk]
      have hidx : newIndex removed v = (keptList removed v).length := by
        unfold newIndex; rw [hcum]; omega
      rw [hidx, hk]
      simp

/-- consequences: strictly increasing on kept vertices, and below the number of kept vertices -/
theorem newIndex_lt (removed : Nat → Bool) (n v : Nat) (hv : v < n) (hk : removed v = false) :
    newIndex removed v < (keptList removed n).length :=
  (List.getElem?_eq_some_iff.mp (newIndex_spec removed n v hv hk)).1

theorem keptList_sorted (removed : Nat → Bool) (n : Nat) : (keptList removed n).Pairwise (· < ·) := by
  unfold keptList
  exact (List.pairwise_lt_range).filter _

theorem newIndex_strictMono (removed : Nat → Bool) (n v w : Nat) (hw : w < n) (hvw : v < w)
    (hkv : removed v = false) (hkw : removed w = false) : newIndex removed v < newIndex removed w := by
  have h1 := List.getElem?_eq_some_iff.mp (newIndex_spec removed n v (by omega) hkv)
  have h2 := List.getElem?_eq_some_iff.mp (newIndex_spec removed n w hw hkw)
  by_contra hge
  have hle : newIndex removed w ≤ newIndex removed v := Nat.le_of_not_lt hge
  rcases Nat.eq_or_lt_of_le hle with heq | hlt
  · have : v = w := by
      obtain ⟨a1, b1⟩ := h1; obtain ⟨a2, b2⟩ := h2
      rw [← b1, ← b2]; congr 1; exact heq.symm
    omega
  · have := (List.pairwise_iff_getElem.mp (keptList_sorted removed n)) _ _ h2.1 h1.1 hlt
    rw [h1.2, h2.2] at this
    omega

/-- an edge survives iff both its ends are kept; survivors keep their order and their crossings and are
    renumbered through `new_index`; the vertex count is the number of kept vertices; positions are those of
    the kept vertices in order -/
theorem removeVertices_spec (L : Lat) (idx : List Nat) :
    let removed : Nat → Bool := fun v => idx.contains v
    (removeVertices L idx).nV = (keptList removed L.nV).length ∧
    (removeVertices L idx).pos = filterIdx (fun v => !removed v) L.pos ∧
    (removeVertices L idx).edges =
      (filterIdx (edgeKept L removed) L.edges).map (fun e => (newIndex removed e.1, newIndex removed e.2)) ∧
    (filterIdx (edgeKept L removed) L.edges).zip (removeVertices L idx).cross
      = filterIdx (edgeKept L removed) (L.edges.zip L.cross) ∧
    (∀ e, e < L.E → (edgeKept L removed e = true ↔ (L.endsOf e).1 ∉ idx ∧ (L.endsOf e).2 ∉ idx)) ∧
    (∀ e, e ∈ removedEdges L idx ↔ e < L.E ∧ ((L.endsOf e).1 ∈ idx ∨ (L.endsOf e).2 ∈ idx)) := by
  intro removed
  refine ⟨rfl, rfl, rfl, filterIdx_zip _ _ _, ?_, ?_⟩
  · intro e _
    simp [edgeKept, removed]
  · intro e
    unfold removedEdges
    simp only [List.mem_filter, List.mem_range, edgeKept, Bool.not_and, Bool.not_not, Bool.or_eq_true,
      List.contains_eq_mem, decide_eq_true_eq]

/-- removing nothing is the identity on the index level -/
theorem newIndex_nil (v : Nat) : newIndex (fun v => ([] : List Nat).contains v) v = v := by
  unfold newIndex cumRemoved; simp

/-! ### remove_trailing_edges: the edge set is the greatest one without degree-one vertices -/

def NoDangling (es : List (Nat × Nat)) : Prop := ∀ e ∈ es, deg es e.1 ≠ 1 ∧ deg es e.2 ≠ 1

theorem deg_mono {s es : List (Nat × Nat)} (h : s.Sublist es) (v : Nat) : deg s v ≤ deg es v := by
  unfold deg
  exact Nat.add_le_add (h.filter _).length_le (h.filter _).length_le

theorem deg_pos_of_mem {es : List (Nat × Nat)} {e : Nat × Nat} (h : e ∈ es) : 0 < deg es e.1 ∧ 0 < deg es e.2 := by
  unfold deg
  constructor
  · have : e ∈ es.filter fun x => x.1 == e.1 := List.mem_filter.mpr ⟨h, by simp⟩
    have := List.length_pos_of_mem this; omega
  · have : e ∈ es.filter fun x => x.2 == e.2 := List.mem_filter.mpr ⟨h, by simp⟩
    have := List.length_pos_of_mem this; omega

theorem prune_sublist (es : List (Nat × Nat)) : (prune es).Sublist es := List.filter_sublist

/-- anything without dangling vertices survives a pruning round -/
theorem sub_prune {s es : List (Nat × Nat)} (hs : s.Sublist es) (hn : NoDangling s) : s.Sublist (prune es) := by
  have hall : ∀ e ∈ s, keepE es e = true := by
    intro e he
    have ⟨p1, p2⟩ := deg_pos_of_mem he
    have ⟨n1, n2⟩ := hn e he
    have m1 := deg_mono hs e.1
    have m2 := deg_mono hs e.2
    simp only [keepE, Bool.and_eq_true, bne_iff_ne, ne_eq]
    constructor <;> omega
  have : s.filter (keepE es) = s := List.filter_eq_self.mpr hall
  rw [← this]; exact hs.filter _

theorem core_sublist (fuel : Nat) (es : List (Nat × Nat)) : (core fuel es).Sublist es := by
  induction fuel generalizing es with
  | zero => exact List.Sublist.refl _
  | succ n ih =>
    unfold core; split
    · exact List.Sublist.refl _
    · exact (ih (prune es)).trans (prune_sublist es)

theorem core_greatest (fuel : Nat) {s es : List (Nat × Nat)} (hs : s.Sublist es) (hn : NoDangling s) :
    s.Sublist (core fuel es) := by
  induction fuel generalizing es with
  | zero => exact hs
  | succ n ih =>
    unfold core; split
    · exact hs
    · exact ih (sub_prune hs hn)

theorem noDangling_of_fix {es : List (Nat × Nat)} (h : prune es = es) : NoDangling es := by
  intro e he
  have : e ∈ prune es := by rw [h]; exact he
  have hk := (List.mem_filter.mp this).2
  simpa [keepE] using hk

theorem prune_length_lt {es : List (Nat × Nat)} (h : prune es ≠ es) : (prune es).length < es.length := by
  have hle := (prune_sublist es).length_le
  rcases Nat.lt_or_ge (prune es).length es.length with h' | h'
  · exact h'
  · exact absurd ((prune_sublist es).eq_of_length_le h') h

theorem core_fix (fuel : Nat) (es : List (Nat × Nat)) (hf : es.length ≤ fuel) : prune (core fuel es) = core fuel es := by
  induction fuel generalizing es with
  | zero =>
    have : es = [] := List.eq_nil_of_length_eq_zero (by omega)
    subst this; rfl
  | succ n ih =>
    unfold core; split
    · assumption
    · next h => exact ih (prune es) (by have := prune_length_lt h; omega)

/-- **C12.3** the loop of `remove_trailing_edges` at the level of the edge list (multigraphs included: sub-*lists*):
    the result has no degree-one vertex, is a sub-list of the input, contains every sub-list of the input without
    degree-one vertices (it is the largest such), and a second application changes nothing -/
theorem trailing_spec (es : List (Nat × Nat)) :
    NoDangling (core es.length es) ∧ (core es.length es).Sublist es ∧
    (∀ s, s.Sublist es → NoDangling s → s.Sublist (core es.length es)) ∧
    prune (core es.length es) = core es.length es :=
  ⟨noDangling_of_fix (core_fix _ _ (Nat.le_refl _)), core_sublist _ _, fun _ hs hn => core_greatest _ hs hn,
   core_fix _ _ (Nat.le_refl _)⟩

theorem trailing_idempotent (es : List (Nat × Nat)) :
    core (core es.length es).length (core es.length es) = core es.length es := by
  have hfix := (trailing_spec es).2.2.2
  generalize core es.length es = r at hfix
  cases hn : r.length with
  | zero => rfl
  | succ n => unfold core; rw [if_pos hfix]

/-! ### permute_vertices / reorder_vertices: index bookkeeping -/

/-- `ordering` is a permutation of `0..n−1` -/
structure IsPerm (n : Nat) (l : List Nat) : Prop where
  len : l.length = n
  nodup : l.Nodup
  lt : ∀ x ∈ l, x < n

theorem IsPerm.mem {n : Nat} {l : List Nat} (h : IsPerm n l) (a : Nat) (ha : a < n) : a ∈ l := by
  have hsub : l ⊆ List.range n := fun x hx => List.mem_range.mpr (h.lt x hx)
  have hperm : l.Perm (List.range n) := (h.nodup.subperm hsub).perm_of_length_le (by simp [h.len])
  exact hperm.mem_iff.mpr (List.mem_range.mpr ha)

/-- `ordering[inverse_ordering[a]] = a` and `inverse_ordering[ordering[i]] = i` -/
theorem inverse_spec {n : Nat} {l : List Nat} (h : IsPerm n l) :
    (∀ a, a < n → inversePerm l a < n ∧ l[inversePerm l a]? = some a) ∧
    (∀ i (hi : i < l.length), inversePerm l l[i] = i) := by
  constructor
  · intro a ha
    have hm := h.mem a ha
    have hlt : l.idxOf a < l.length := List.idxOf_lt_length_of_mem hm
    exact ⟨by unfold inversePerm; rw [← h.len]; exact hlt, by unfold inversePerm; simp [List.getElem?_eq_getElem hlt]⟩
  · intro i hi
    unfold inversePerm
    exact h.nodup.idxOf_getElem i hi

/-- **C12.5a** `permute_vertices`: new position `i` is old position `ordering[i]` … -/
theorem permute_pos (L : Lat) (ordering : List Nat) (i : Nat) (hi : i < ordering.length) :
    (permute L ordering).posOf i = L.posOf ordering[i] := by
  unfold permute Lat.posOf
  simp [List.getD_eq_getElem?_getD, hi]

/-- … the edge list keeps its order and length, every edge keeps its two (renamed) ends … -/
theorem permute_edges (L : Lat) (ordering : List Nat) (e : Nat) :
    (permute L ordering).E = L.E ∧
    (permute L ordering).endsOf e = if e < L.E then (inversePerm ordering (L.endsOf e).1, inversePerm ordering (L.endsOf e).2)
      else (0, 0) := by
  unfold permute Lat.E Lat.endsOf
  simp only [List.length_map, true_and]
  by_cases he : e < L.edges.length
  · simp [List.getD_eq_getElem?_getD, he]
  · simp [List.getD_eq_getElem?_getD, he, Nat.le_of_not_lt he]

/-- … and every edge vector is unchanged -/
theorem permute_evec (L : Lat) (n : Nat) (ordering : List Nat) (h : IsPerm n ordering)
    (hr : ∀ e ∈ L.edges, e.1 < n ∧ e.2 < n) (e : Nat) (he : e < L.E) :
    (permute L ordering).evec e = L.evec e := by
  have hends := (permute_edges L ordering e).2
  rw [if_pos he] at hends
  have he' : e < L.edges.length := he
  have hmem : L.endsOf e ∈ L.edges := by
    unfold Lat.endsOf
    rw [List.getD_eq_getElem?_getD, List.getElem?_eq_getElem he']
    exact List.getElem_mem he'
  obtain ⟨h1, h2⟩ := hr _ hmem
  have hp : ∀ a, a < n → (permute L ordering).posOf (inversePerm ordering a) = L.posOf a := by
    intro a ha
    obtain ⟨hlt, hget⟩ := (inverse_spec h).1 a ha
    have hlt' : inversePerm ordering a < ordering.length := by rw [h.len]; exact hlt
    rw [permute_pos L ordering _ hlt']
    congr 1
    have := List.getElem?_eq_some_iff.mp hget
    exact this.2
  unfold Lat.evec
  simp only [hends, hp _ h1, hp _ h2]
  rfl

/-! ### non-vacuity -/

example : IsPerm 3 [2, 0, 1] := ⟨rfl, by decide, by decide⟩
example : NoDangling (core 4 [(0, 1), (1, 2), (2, 0), (2, 3)]) ∧ core 4 [(0, 1), (1, 2), (2, 0), (2, 3)] = [(0, 1), (1, 2), (2, 0)] := by
  constructor
  · intro e he; revert e he; decide
  · decide
example : (List.range 5).map (newIndex fun v => [1, 3].contains v) = [0, 0, 1, 1, 2] := by decide

/-! ### faces none of whose edges is removed survive (rotation systems with the labels kept; the order-preserving
    renumbering of the surviving edges is `newIndex_spec`) -/

open Lat in
/-- the entry after `x` in the cyclic list `l` (what `nextD` reads off a vertex's clockwise list) -/
def succIn (l : List Nat) (x : Nat) : Nat := l.getD ((l.idxOf x + 1) % l.length) 0

theorem succIn_mid (pre post : List Nat) (x y : Nat) (hx : x ∉ pre) : succIn (pre ++ x :: y :: post) x = y := by
  unfold succIn
  have hi : (pre ++ x :: y :: post).idxOf x = pre.length := by
    rw [List.idxOf_append_of_notMem hx]; simp
  rw [hi]
  have hlen : (pre ++ x :: y :: post).length = pre.length + 2 + post.length := by simp; omega
  rw [hlen, Nat.mod_eq_of_lt (by omega)]
  simp [List.getD_eq_getElem?_getD, List.getElem?_append_right]

theorem succIn_last (pre : List Nat) (x y : Nat) (hxy : x ≠ y) (hx : x ∉ pre) : succIn (y :: pre ++ [x]) x = y := by
  unfold succIn
  have hi : (y :: pre ++ [x]).idxOf x = pre.length + 1 := by
    rw [List.cons_append, List.idxOf_cons_ne _ (Ne.symm hxy), List.idxOf_append_of_notMem hx]; simp
  rw [hi]
  have hlen : (y :: pre ++ [x]).length = pre.length + 2 := by simp
  rw [hlen]
  simp

theorem succIn_single (x : Nat) : succIn [x] x = x := by simp [succIn]

/-- **cyclic successor survives filtering**: in a duplicate-free cyclic list, if `x` and the entry after `x` are both
    kept, the entry after `x` in the filtered list is the same -/
theorem succIn_filter (keep : Nat → Bool) (l : List Nat) (hnd : l.Nodup) (x : Nat) (hx : x ∈ l) (hkx : keep x = true)
    (hks : keep (succIn l x) = true) : succIn (l.filter keep) x = succIn l x := by
  obtain ⟨pre, post, rfl⟩ := List.append_of_mem hx
  have hnd' := hnd
  rw [List.nodup_append] at hnd
  obtain ⟨_, hnd2, hdisj⟩ := hnd
  have hxpre : x ∉ pre := fun h => hdisj x h x (by simp) rfl
  have hxpost : x ∉ post := (List.nodup_cons.mp hnd2).1
  have hxfpre : x ∉ pre.filter keep := fun h => hxpre (List.mem_filter.mp h).1
  cases post with
  | cons y post' =>
    rw [succIn_mid pre post' x y hxpre] at hks ⊢
    have : (pre ++ x :: y :: post').filter keep = pre.filter keep ++ x :: y :: post'.filter keep := by
      simp [List.filter_append, List.filter_cons, hkx, hks]
    rw [this, succIn_mid _ _ x y hxfpre]
  | nil =>
    cases pre with
    | nil => simp [List.filter_cons, hkx, succIn_single]
    | cons y pre' =>
      have hxy : x ≠ y := fun h => hxpre (by simp [h])
      have hxpre' : x ∉ pre' := fun h => hxpre (by simp [h])
      rw [show y :: pre' ++ [x] = y :: pre' ++ [x] from rfl, succIn_last pre' x y hxy hxpre'] at hks ⊢
      have : (y :: pre' ++ [x]).filter keep = y :: pre'.filter keep ++ [x] := by
        simp [List.filter_append, List.filter_cons, hkx, hks]
      rw [this, succIn_last _ x y hxy (fun h => hxpre' (List.mem_filter.mp h).1)]

/-- `nextD` in terms of the cyclic successor -/
theorem nextD_eq_succIn (L : Lat) (R : Rot) (d : Dart) :
    nextD L R d = (succIn (R (L.head d)) d.1, decide ((L.endsOf (succIn (R (L.head d)) d.1)).1 ≠ L.head d)) := rfl

/-- **one step survives edge deletion**: if the edge of `d` and the edge of the next dart are kept, then the next dart
    computed from the thinned-out clockwise lists is the same -/
theorem nextD_filter (L : Lat) (R : Rot) (keep : Nat → Bool) (hnd : ∀ v, (R v).Nodup) (d : Dart)
    (hmem : d.1 ∈ R (L.head d)) (hk : keep d.1 = true) (hk' : keep (nextD L R d).1 = true) :
    nextD L (fun v => (R v).filter keep) d = nextD L R d := by
  rw [nextD_eq_succIn, nextD_eq_succIn]
  have := succIn_filter keep (R (L.head d)) (hnd _) d.1 hmem hk (by rw [nextD_eq_succIn] at hk'; exact hk')
  simp only [this]

/-- **a face none of whose edges is removed survives**: if every dart on the walk from `d` keeps its edge, the walk
    from `d` through the thinned-out lists visits the same darts, step for step -/
theorem walk_survives (L : Lat) (R : Rot) (keep : Nat → Bool) (hwf : WF L R) (d : Dart) (hd : d.1 < L.E)
    (hk : ∀ k, keep ((nextD L R)^[k] d).1 = true) :
    ∀ k, (nextD L (fun v => (R v).filter keep))^[k] d = (nextD L R)^[k] d := by
  intro k
  induction k with
  | zero => rfl
  | succ k ih =>
    rw [Function.iterate_succ_apply', Function.iterate_succ_apply', ih]
    have hv : ((nextD L R)^[k] d).1 < L.E := _root_.iter_valid L R hwf hd k
    apply nextD_filter L R keep hwf.nodup _ (head_mem hwf hv) (hk k)
    have := hk (k + 1)
    rwa [Function.iterate_succ_apply'] at this

theorem traceLoop_congr {α : Type} [DecidableEq α] (f g : α → α) (start : α) :
    ∀ (fuel : Nat) (cur : α) (acc : List α), (∀ k, g^[k] cur = f^[k] cur) →
      traceLoop g start fuel cur acc = traceLoop f start fuel cur acc := by
  intro fuel
  induction fuel with
  | zero => intros; rfl
  | succ fuel ih =>
    intro cur acc hfg
    have h1 : g cur = f cur := hfg 1
    simp only [traceLoop, h1]
    split
    · rfl
    · split
      · rfl
      · apply ih
        intro k
        have := hfg (k + 1)
        rw [Function.iterate_succ_apply, Function.iterate_succ_apply, h1] at this
        exact this

/-- **C12 (untouched faces survive)**: if no dart of the face traced from `d` loses its edge, tracing from `d` in the
    thinned-out rotation system returns the very same face -/
theorem face_survives (L : Lat) (R : Rot) (keep : Nat → Bool) (hwf : WF L R) (d : Dart) (hd : d.1 < L.E)
    (hk : ∀ y ∈ walkFrom L R d, keep y.1 = true) :
    walkFrom L (fun v => (R v).filter keep) d = walkFrom L R d := by
  have hk' : ∀ k, keep ((nextD L R)^[k] d).1 = true := fun k => hk _ ((_root_.mem_walkFrom L R hwf hd _).mpr ⟨k, rfl⟩)
  unfold walkFrom trace
  rw [traceLoop_congr (nextD L R) (nextD L (fun v => (R v).filter keep)) d _ d [d] (walk_survives L R keep hwf d hd hk')]

section Relabel
open Lat
/-! ### relabelling the vertices leaves the rotation system, hence every face walk, unchanged -/

theorem insertDesc_congr (key key' : Nat → Int × Int) (e : Nat) (l : List Nat)
    (h : ∀ x, x = e ∨ x ∈ l → key x = key' x) : insertDesc key e l = insertDesc key' e l := by
  induction l with
  | nil => rfl
  | cons x xs ih =>
    unfold insertDesc
    rw [h x (Or.inr (by simp)), h e (Or.inl rfl)]
    split
    · rfl
    · rw [ih (fun y hy => h y (by rcases hy with hy | hy; exact Or.inl hy; exact Or.inr (List.mem_cons_of_mem _ hy)))]

theorem foldl_insertDesc_congr (key key' : Nat → Int × Int) (l acc : List Nat)
    (h : ∀ x, x ∈ l ∨ x ∈ acc → key x = key' x) :
    l.foldl (fun acc e => insertDesc key e acc) acc = l.foldl (fun acc e => insertDesc key' e acc) acc := by
  induction l generalizing acc with
  | nil => rfl
  | cons e l ih =>
    simp only [List.foldl_cons]
    rw [insertDesc_congr key key' e acc (fun x hx => h x (by rcases hx with hx | hx; exact Or.inl (by simp [hx]); exact Or.inr hx))]
    apply ih
    intro x hx
    rcases hx with hx | hx
    · exact h x (Or.inl (List.mem_cons_of_mem _ hx))
    · have := (insertDesc_perm key' e acc).mem_iff.mp hx
      rcases List.mem_cons.mp this with h1 | h1
      · exact h x (Or.inl (by simp [h1]))
      · exact h x (Or.inr h1)

theorem inversePerm_inj {n : Nat} {o : List Nat} (hp : IsPerm n o) {a b : Nat} (ha : a < n) (hb : b < n)
    (h : inversePerm o a = inversePerm o b) : a = b := by
  have ha' := ((inverse_spec hp).1 a ha).2
  have hb' := ((inverse_spec hp).1 b hb).2
  rw [h] at ha'
  rw [ha'] at hb'
  exact Option.some.inj hb'

variable (L : Lat) (n : Nat) (o : List Nat) (hp : IsPerm n o) (hr : ∀ e ∈ L.edges, e.1 < n ∧ e.2 < n)

theorem ends_lt {L : Lat} {n : Nat} (hr : ∀ e ∈ L.edges, e.1 < n ∧ e.2 < n) {e : Nat} (he : e < L.E) :
    (L.endsOf e).1 < n ∧ (L.endsOf e).2 < n := by
  apply hr
  unfold Lat.endsOf
  have he' : e < L.edges.length := he
  rw [List.getD_eq_getElem?_getD, List.getElem?_eq_getElem he']
  exact List.getElem_mem he'

include hp hr

theorem permute_incident (v : Nat) (hv : v < n) :
    incident (permute L o) (inversePerm o v) = incident L v := by
  unfold incident
  rw [(permute_edges L o 0).1]
  apply List.filter_congr
  intro e he
  have heE : e < L.E := List.mem_range.mp he
  have hends := (permute_edges L o e).2
  rw [if_pos heE] at hends
  obtain ⟨h1, h2⟩ := ends_lt hr heE
  rw [hends]
  simp only
  have e1 : (inversePerm o (L.endsOf e).1 == inversePerm o v) = ((L.endsOf e).1 == v) := by
    by_cases h : (L.endsOf e).1 = v
    · simp [h]
    · have : inversePerm o (L.endsOf e).1 ≠ inversePerm o v := fun hh => h (inversePerm_inj hp h1 hv hh)
      simp [h, this]
  have e2 : (inversePerm o (L.endsOf e).2 == inversePerm o v) = ((L.endsOf e).2 == v) := by
    by_cases h : (L.endsOf e).2 = v
    · simp [h]
    · have : inversePerm o (L.endsOf e).2 ≠ inversePerm o v := fun hh => h (inversePerm_inj hp h2 hv hh)
      simp [h, this]
  rw [e1, e2]

theorem permute_outVec (v : Nat) (hv : v < n) (e : Nat) (he : e < L.E) :
    outVec (permute L o) (inversePerm o v) e = outVec L v e := by
  unfold outVec
  have hends := (permute_edges L o e).2
  rw [if_pos he] at hends
  obtain ⟨h1, _⟩ := ends_lt hr he
  rw [permute_evec L n o hp hr e he, hends]
  simp only
  have e1 : (inversePerm o (L.endsOf e).1 == inversePerm o v) = ((L.endsOf e).1 == v) := by
    by_cases h : (L.endsOf e).1 = v
    · simp [h]
    · have : inversePerm o (L.endsOf e).1 ≠ inversePerm o v := fun hh => h (inversePerm_inj hp h1 hv hh)
      simp [h, this]
  rw [e1]

/-- **the clockwise list of a vertex is the same before and after relabelling** -/
theorem permute_rotAt (v : Nat) (hv : v < n) : rotAt (permute L o) (inversePerm o v) = rotAt L v := by
  unfold rotAt
  rw [permute_incident L n o hp hr v hv]
  apply foldl_insertDesc_congr
  intro x hx
  rcases hx with hx | hx
  · have hxE : x < L.E := by
      have := (mem_incident L v x).mp hx
      exact this.1
    exact permute_outVec L n o hp hr v hv x hxE
  · simp at hx

/-- **C12.5b** the face walk takes the same step in the relabelled lattice: same next edge, same orientation — so every
    plaquette of the relabelled lattice is the same list of (edge, direction) pairs as before -/
theorem permute_nextD (d : Dart) (hd : d.1 < L.E) :
    nextD (permute L o) (rotAt (permute L o)) d = nextD L (rotAt L) d := by
  have hends := (permute_edges L o d.1).2
  rw [if_pos hd] at hends
  obtain ⟨h1, h2⟩ := ends_lt hr hd
  have hhead : (permute L o).head d = inversePerm o (L.head d) := by
    unfold Lat.head; rw [hends]; split <;> rfl
  have hhl : L.head d < n := by unfold Lat.head; split <;> assumption
  unfold nextD
  simp only
  rw [hhead, permute_rotAt L n o hp hr _ hhl]
  set e' := (rotAt L (L.head d)).getD (((rotAt L (L.head d)).idxOf d.1 + 1) % (rotAt L (L.head d)).length) 0 with he'
  apply Prod.ext
  · rfl
  · simp only
    by_cases hmem : e' < L.E
    · have hends' := (permute_edges L o e').2
      rw [if_pos hmem] at hends'
      obtain ⟨g1, _⟩ := ends_lt hr hmem
      rw [hends']
      simp only
      by_cases h : (L.endsOf e').1 = L.head d
      · simp [h]
      · have : inversePerm o (L.endsOf e').1 ≠ inversePerm o (L.head d) := fun hh => h (inversePerm_inj hp g1 hhl hh)
        simp [h, this]
    · -- the next edge is always a real edge (it is taken from the list of incident edges, which contains d.1)
      exfalso
      have hdm : d.1 ∈ rotAt L (L.head d) := by
        rw [(rotAt_perm L _).mem_iff, mem_incident]
        refine ⟨hd, ?_⟩
        unfold Lat.head; split <;> simp
      have hlen : 0 < (rotAt L (L.head d)).length := List.length_pos_of_mem hdm
      have hidx : ((rotAt L (L.head d)).idxOf d.1 + 1) % (rotAt L (L.head d)).length < (rotAt L (L.head d)).length :=
        Nat.mod_lt _ hlen
      have : e' ∈ rotAt L (L.head d) := by
        rw [he', List.getD_eq_getElem?_getD, List.getElem?_eq_getElem hidx]
        exact List.getElem_mem hidx
      rw [(rotAt_perm L _).mem_iff, mem_incident] at this
      exact hmem this.1


omit hp hr in
theorem sweep_congr {α : Type} [DecidableEq α] (tr tr' : α → List α) :
    ∀ (l vis : List α), (∀ x ∈ l, tr x = tr' x) → sweep tr l vis = sweep tr' l vis := by
  intro l
  induction l with
  | nil => intros; rfl
  | cons d rest ih =>
    intro vis h
    unfold sweep
    rw [h d (by simp)]
    split
    · exact ih vis (fun x hx => h x (List.mem_cons_of_mem _ hx))
    · rw [ih _ (fun x hx => h x (List.mem_cons_of_mem _ hx))]

omit hp hr in
theorem mem_dartOrder {nE : Nat} {d : Dart} (h : d ∈ dartOrder nE) : d.1 < nE := by
  unfold dartOrder at h
  simp only [List.mem_flatMap, List.mem_range, List.mem_cons, List.not_mem_nil, or_false] at h
  obtain ⟨e, he, hd⟩ := h
  rcases hd with rfl | rfl <;> exact he

/-- **C12.5c `permute_vertices` keeps the plaquettes**: the relabelled lattice has the very same face walks — the same
    lists of (edge, direction) pairs, found in the same order (`hL`: no self-loops, the precondition of every plaquette
    property) -/
theorem permute_allWalks (hL : L.noSelfLoop = true) :
    allWalks (permute L o) (rotAt (permute L o)) = allWalks L (rotAt L) := by
  have hwf := rotAt_wf L hL
  have hE : (permute L o).E = L.E := (permute_edges L o 0).1
  unfold allWalks
  rw [hE]
  apply sweep_congr
  intro d hd
  have hdE : d.1 < L.E := mem_dartOrder hd
  have hiter : ∀ k, (nextD (permute L o) (rotAt (permute L o)))^[k] d = (nextD L (rotAt L))^[k] d := by
    intro k
    induction k with
    | zero => rfl
    | succ k ih =>
      rw [Function.iterate_succ_apply', Function.iterate_succ_apply', ih]
      exact permute_nextD L n o hp hr _ (_root_.iter_valid L (rotAt L) hwf hdE k)
  unfold walkFrom trace
  rw [hE, traceLoop_congr (nextD L (rotAt L)) (nextD (permute L o) (rotAt (permute L o))) d _ d [d] hiter]

end Relabel

section Thinned
open Lat AngOrder
/-! ### recomputing the rotation system after deleting edges = thinning out the old one -/

/-- **thinning out commutes with insertion**: inserting a kept element into the sorted list and then dropping the removed
    ones gives the same list as dropping them first -/
theorem insertDesc_filter_pos (key : Nat → Int × Int) (p : Nat → Bool) (e : Nat) (l : List Nat) (hp : p e = true)
    (hnz : ∀ x, x = e ∨ x ∈ l → key x ≠ (0, 0)) (hs : DescSorted key l) :
    (insertDesc key e l).filter p = insertDesc key e (l.filter p) := by
  induction l with
  | nil => simp [insertDesc, hp]
  | cons x xs ih =>
    have hs' := List.pairwise_cons.mp hs
    have hnz' : ∀ y, y = e ∨ y ∈ xs → key y ≠ (0, 0) :=
      fun y hy => hnz y (by rcases hy with h | h; exact Or.inl h; exact Or.inr (List.mem_cons_of_mem _ h))
    by_cases hlt : angLt (key x) (key e) = true
    · -- e goes in front of x; every element from x on is below e, so in the thinned list e goes in front as well
      have hall : ∀ y ∈ x :: xs, angLt (key y) (key e) = true := by
        intro y hy
        rcases List.mem_cons.mp hy with rfl | hy
        · exact hlt
        · rcases angLt_negTrans (key x) (key y) (key e) (hnz x (Or.inr (by simp))) (hnz y (Or.inr (List.mem_cons_of_mem _ hy)))
            (hnz e (Or.inl rfl)) hlt with h1 | h1
          · rw [hs'.1 y hy] at h1; cases h1
          · exact h1
      have hfront : ∀ m : List Nat, (∀ y ∈ m, angLt (key y) (key e) = true) → insertDesc key e m = e :: m := by
        intro m hm
        cases m with
        | nil => rfl
        | cons a m' => unfold insertDesc; rw [if_pos (hm a (by simp))]
      rw [hfront (x :: xs) hall, hfront ((x :: xs).filter p) (fun y hy => hall y (List.mem_filter.mp hy).1)]
      simp [List.filter_cons, hp]
    · have hnl : ¬ angLt (key x) (key e) = true := hlt
      have e1 : insertDesc key e (x :: xs) = x :: insertDesc key e xs := by
        show (if angLt (key x) (key e) then e :: x :: xs else x :: insertDesc key e xs) = _
        rw [if_neg hnl]
      rw [e1]
      by_cases hpx : p x = true
      · have e2 : insertDesc key e (x :: xs.filter p) = x :: insertDesc key e (xs.filter p) := by
          show (if angLt (key x) (key e) then e :: x :: xs.filter p else x :: insertDesc key e (xs.filter p)) = _
          rw [if_neg hnl]
        simp only [List.filter_cons, hpx, if_true]
        rw [e2, ih hnz' hs'.2]
      · simp only [List.filter_cons, hpx, if_false]
        exact ih hnz' hs'.2
        
/-- the insertion sort of the thinned-out list is the thinned-out insertion sort -/
theorem foldl_insertDesc_filter (key : Nat → Int × Int) (p : Nat → Bool) (l acc : List Nat)
    (hnz : ∀ x, x ∈ l ∨ x ∈ acc → key x ≠ (0, 0)) (hs : DescSorted key acc) :
    (l.foldl (fun acc e => insertDesc key e acc) acc).filter p
      = (l.filter p).foldl (fun acc e => insertDesc key e acc) (acc.filter p) := by
  induction l generalizing acc with
  | nil => rfl
  | cons e l ih =>
    simp only [List.foldl_cons]
    have hnz1 : ∀ x, x = e ∨ x ∈ acc → key x ≠ (0, 0) :=
      fun x hx => hnz x (by rcases hx with h | h; exact Or.inl (by simp [h]); exact Or.inr h)
    have hnz2 : ∀ x, x ∈ l ∨ x ∈ insertDesc key e acc → key x ≠ (0, 0) := by
      intro x hx
      rcases hx with h | h
      · exact hnz x (Or.inl (List.mem_cons_of_mem _ h))
      · rcases (insertDesc_mem key e acc x).mp h with h | h
        · exact hnz x (Or.inl (by simp [h]))
        · exact hnz x (Or.inr h)
    rw [ih (insertDesc key e acc) hnz2 (insertDesc_sorted key e acc hnz1 hs)]
    by_cases hp : p e = true
    · rw [insertDesc_filter_pos key p e acc hp hnz1 hs]
      simp [List.filter_cons, hp]
    · have hp' : p e = false := by simpa using hp
      rw [insertDesc_filter_neg key p e acc hp']
      simp [List.filter_cons, hp']

/-- **C12 (rotation system after deleting edges)**: sorting the surviving incident edges of a vertex by angle gives the old
    cyclic order with the deleted edges dropped — for every vertex, every set of deleted edges, provided no incident edge has
    zero length.  Together with `face_survives` (tracing in the thinned-out rotation system) this is "every plaquette none of
    whose edges was removed is a plaquette of the output" at the level of the recomputed adjacency. -/
theorem rotAt_thinned (L : Lat) (v : Nat) (keep : Nat → Bool) (hnz : ∀ e ∈ incident L v, outVec L v e ≠ (0, 0)) :
    ((incident L v).filter keep).foldl (fun acc e => insertDesc (outVec L v) e acc) [] = (rotAt L v).filter keep := by
  unfold rotAt
  rw [foldl_insertDesc_filter (outVec L v) keep (incident L v) [] (fun x hx => by
    rcases hx with h | h
    · exact hnz x h
    · cases h) List.Pairwise.nil]
  rfl

end Thinned

section Renumbered
open Lat AngOrder
/-! ### the rotation system of the lattice with edges deleted *and renumbered* -/

/-- number of kept indices in `[k, k + n)` -/
def rankFrom (keep : Nat → Bool) (k n : Nat) : Nat := ((List.range' k n).filter keep).length

/-- new index of the kept row `e`: the number of kept rows before it -/
def rank (keep : Nat → Bool) (e : Nat) : Nat := rankFrom keep 0 e

theorem filterIdx_getD_aux {α : Type} (keep : Nat → Bool) (d : α) :
    ∀ (xs : List α) (k n : Nat), keep (k + n) = true →
      (((xs.zipIdx k).filter fun p => keep p.2).map (·.1)).getD (rankFrom keep k n) d = xs.getD n d := by
  intro xs
  induction xs with
  | nil => intro k n _; simp
  | cons x xs ih =>
    intro k n hk
    cases n with
    | zero =>
      simp only [Nat.add_zero] at hk
      simp [rankFrom, List.zipIdx_cons, List.filter_cons, hk]
    | succ n =>
      have hk' : keep (k + 1 + n) = true := by rw [Nat.add_assoc, Nat.add_comm 1 n]; exact hk
      have hr : rankFrom keep k (n + 1) = (if keep k then 1 else 0) + rankFrom keep (k + 1) n := by
        unfold rankFrom
        rw [List.range'_succ, List.filter_cons]
        split <;> simp [Nat.add_comm]
      rw [hr]
      simp only [List.zipIdx_cons, List.filter_cons]
      by_cases h : keep k = true
      · simp only [h, if_true, List.map_cons]
        rw [Nat.add_comm 1, List.getD_cons_succ, List.getD_cons_succ]
        exact ih (k + 1) n hk'
      · simp only [h, Bool.false_eq_true, if_false, Nat.zero_add, List.getD_cons_succ]
        exact ih (k + 1) n hk'

/-- **row `e` of the input is row `rank e` of the masked array** -/
theorem filterIdx_getD {α : Type} (keep : Nat → Bool) (xs : List α) (d : α) (e : Nat) (he : keep e = true) :
    (filterIdx keep xs).getD (rank keep e) d = xs.getD e d := by
  unfold filterIdx rank
  exact filterIdx_getD_aux keep d xs 0 e (by simpa using he)

theorem rankFrom_succ (keep : Nat → Bool) (k n : Nat) :
    rankFrom keep k (n + 1) = (if keep k then 1 else 0) + rankFrom keep (k + 1) n := by
  unfold rankFrom
  rw [List.range'_succ, List.filter_cons]
  split <;> simp [Nat.add_comm]

theorem filterIdx_length_aux {α : Type} (keep : Nat → Bool) :
    ∀ (xs : List α) (k : Nat), (((xs.zipIdx k).filter fun p => keep p.2).map (·.1)).length = rankFrom keep k xs.length := by
  intro xs
  induction xs with
  | nil => intro k; simp [rankFrom]
  | cons x xs ih =>
    intro k
    rw [List.length_cons, rankFrom_succ]
    simp only [List.zipIdx_cons, List.filter_cons]
    by_cases h : keep k = true
    · simp only [h, if_true, List.map_cons, List.length_cons]
      rw [ih (k + 1)]; omega
    · simp only [h, Bool.false_eq_true, if_false, Nat.zero_add]
      exact ih (k + 1)

theorem filterIdx_length {α : Type} (keep : Nat → Bool) (xs : List α) : (filterIdx keep xs).length = rank keep xs.length := by
  unfold filterIdx rank; exact filterIdx_length_aux keep xs 0

/-- the kept indices, renumbered, are `0, 1, 2, …` -/
theorem kept_map_rank_aux (keep : Nat → Bool) :
    ∀ (n k c : Nat), ((List.range' k n).filter keep).map (fun e => c + rankFrom keep k (e - k)) = List.range' c (rankFrom keep k n) := by
  intro n
  induction n with
  | zero => intro k c; simp [rankFrom]
  | succ n ih =>
    intro k c
    rw [rankFrom_succ, List.range'_succ, List.filter_cons]
    have hmem : ∀ e ∈ (List.range' (k + 1) n).filter keep, k + 1 ≤ e := by
      intro e he
      have := (List.mem_range'_1.mp (List.mem_filter.mp he).1).1
      exact this
    by_cases h : keep k = true
    · simp only [h, if_true, List.map_cons, Nat.sub_self]
      have h0 : rankFrom keep k 0 = 0 := by simp [rankFrom]
      rw [h0, Nat.add_zero, Nat.add_comm 1, List.range'_succ]
      congr 1
      rw [← ih (k + 1) (c + 1)]
      apply List.map_congr_left
      intro e he
      have hk := hmem e he
      have : e - k = (e - (k + 1)) + 1 := by omega
      rw [this, rankFrom_succ]
      simp only [h, if_true]; omega
    · simp only [h, Bool.false_eq_true, if_false, Nat.zero_add]
      rw [← ih (k + 1) c]
      apply List.map_congr_left
      intro e he
      have hk := hmem e he
      have : e - k = (e - (k + 1)) + 1 := by omega
      rw [this, rankFrom_succ]
      simp only [h, Bool.false_eq_true, if_false, Nat.zero_add]

theorem kept_map_rank (keep : Nat → Bool) (n : Nat) :
    ((List.range n).filter keep).map (rank keep) = List.range (rank keep n) := by
  have := kept_map_rank_aux keep n 0 0
  simp only [Nat.zero_add, Nat.sub_zero] at this
  rw [List.range_eq_range', List.range_eq_range']
  exact this

/-- the lattice with the rows failing `keep` deleted from the edge and crossing arrays (`cut_boundaries` is the case `keep = cutKeep`) -/
def thin (L : Lat) (keep : Nat → Bool) : Lat := { L with edges := filterIdx keep L.edges, cross := filterIdx keep L.cross }

theorem cut_eq_thin (L : Lat) (bx bY : Bool) : cut L bx bY = thin L (cutKeep L bx bY) := rfl

theorem thin_E (L : Lat) (keep : Nat → Bool) : (thin L keep).E = rank keep L.E := filterIdx_length keep L.edges

theorem thin_endsOf (L : Lat) (keep : Nat → Bool) (e : Nat) (he : keep e = true) : (thin L keep).endsOf (rank keep e) = L.endsOf e :=
  filterIdx_getD keep L.edges (0, 0) e he

theorem thin_crossOf (L : Lat) (keep : Nat → Bool) (e : Nat) (he : keep e = true) : (thin L keep).crossOf (rank keep e) = L.crossOf e :=
  filterIdx_getD keep L.cross (0, 0) e he

theorem thin_evec (L : Lat) (keep : Nat → Bool) (e : Nat) (he : keep e = true) : (thin L keep).evec (rank keep e) = L.evec e := by
  unfold Lat.evec
  rw [thin_endsOf L keep e he, thin_crossOf L keep e he]
  rfl

theorem thin_outVec (L : Lat) (keep : Nat → Bool) (v e : Nat) (he : keep e = true) :
    outVec (thin L keep) v (rank keep e) = outVec L v e := by
  unfold outVec
  rw [thin_endsOf L keep e he, thin_evec L keep e he]

/-- the edges at `v` in the thinned lattice are the kept edges at `v`, renumbered, in the same order -/
theorem thin_incident (L : Lat) (keep : Nat → Bool) (v : Nat) :
    incident (thin L keep) v = ((incident L v).filter keep).map (rank keep) := by
  unfold incident
  rw [thin_E, ← kept_map_rank keep L.E, List.filter_map, List.filter_filter, List.filter_filter]
  congr 1
  apply List.filter_congr
  intro e _
  by_cases hk : keep e = true
  · simp only [Function.comp, thin_endsOf L keep e hk, hk, Bool.and_true, Bool.true_and]
  · have hk' : keep e = false := by simpa using hk
    simp only [hk', Bool.and_false, Bool.false_and]

theorem insertDesc_map (key key' : Nat → Int × Int) (f : Nat → Nat) (e : Nat) (l : List Nat)
    (h : ∀ x, x = e ∨ x ∈ l → key' (f x) = key x) : insertDesc key' (f e) (l.map f) = (insertDesc key e l).map f := by
  induction l with
  | nil => rfl
  | cons x xs ih =>
    simp only [List.map_cons]
    unfold insertDesc
    rw [h x (Or.inr (by simp)), h e (Or.inl rfl)]
    split
    · simp
    · simp only [List.map_cons]
      rw [ih (fun y hy => h y (by rcases hy with hy | hy; exact Or.inl hy; exact Or.inr (List.mem_cons_of_mem _ hy)))]

theorem foldl_insertDesc_map (key key' : Nat → Int × Int) (f : Nat → Nat) (l acc : List Nat)
    (h : ∀ x, x ∈ l ∨ x ∈ acc → key' (f x) = key x) :
    (l.map f).foldl (fun acc e => insertDesc key' e acc) (acc.map f) = (l.foldl (fun acc e => insertDesc key e acc) acc).map f := by
  induction l generalizing acc with
  | nil => rfl
  | cons e l ih =>
    simp only [List.map_cons, List.foldl_cons]
    rw [insertDesc_map key key' f e acc (fun x hx => h x (by rcases hx with hx | hx; exact Or.inl (by simp [hx]); exact Or.inr hx))]
    apply ih
    intro x hx
    rcases hx with hx | hx
    · exact h x (Or.inl (List.mem_cons_of_mem _ hx))
    · rcases (insertDesc_mem key e acc x).mp hx with h1 | h1
      · exact h x (Or.inl (by simp [h1]))
      · exact h x (Or.inr h1)

/-- **C12 (the rotation system `cut_boundaries` / any edge deletion recomputes)**: at every vertex, the incident-edge row of
    the thinned, *renumbered* lattice is the old row with the deleted edges dropped and the survivors renamed to their new
    indices — the cyclic order of the surviving edges is untouched (no incident edge of zero length). -/
theorem rotAt_thin (L : Lat) (keep : Nat → Bool) (v : Nat) (hnz : ∀ e ∈ incident L v, outVec L v e ≠ (0, 0)) :
    rotAt (thin L keep) v = ((rotAt L v).filter keep).map (rank keep) := by
  rw [← rotAt_thinned L v keep hnz]
  unfold rotAt
  rw [thin_incident]
  have := foldl_insertDesc_map (outVec L v) (outVec (thin L keep) v) (rank keep) ((incident L v).filter keep) []
    (fun x hx => by
      rcases hx with hx | hx
      · exact thin_outVec L keep v x (List.mem_filter.mp hx).2
      · cases hx)
  simpa using this

theorem rotAt_cut (L : Lat) (bx bY : Bool) (v : Nat) (hnz : ∀ e ∈ incident L v, outVec L v e ≠ (0, 0)) :
    rotAt (cut L bx bY) v = ((rotAt L v).filter (cutKeep L bx bY)).map (rank (cutKeep L bx bY)) :=
  rotAt_thin L _ v hnz

/-- non-vacuity: a triangle with a chord-like extra edge; deleting edge 1 renumbers edges 2, 3 to 1, 2 -/
def exT : Lat := { nV := 3, edges := [(0, 1), (1, 2), (2, 0), (0, 2)], cross := [(0, 0), (0, 0), (0, 0), (1, 0)],
                   pos := [(0, 0), (4, 0), (1, 4)], scale := 8 }
example : rotAt (thin exT (fun e => e != 1)) 2 = [1, 2] ∧ rotAt exT 2 = [1, 2, 3] ∧ rank (fun e => e != 1) 3 = 2 := by decide +kernel

end Renumbered

section FaceInOutput
open Lat AngOrder Function
/-! ### a face none of whose edges is removed is a face of the renumbered output lattice -/

theorem rankFrom_append (keep : Nat → Bool) (k a b : Nat) : rankFrom keep k (a + b) = rankFrom keep k a + rankFrom keep (k + a) b := by
  unfold rankFrom
  rw [← List.range'_append_1, List.filter_append, List.length_append]

/-- the renumbering is strictly increasing on kept rows … -/
theorem rank_lt (keep : Nat → Bool) {e1 e2 : Nat} (h : e1 < e2) (hk : keep e1 = true) : rank keep e1 < rank keep e2 := by
  unfold rank
  have : e2 = e1 + ((e2 - e1 - 1) + 1) := by omega
  rw [this, rankFrom_append, Nat.add_comm (e2 - e1 - 1) 1, rankFrom_append]
  have h1 : rankFrom keep (0 + e1) 1 = 1 := by
    unfold rankFrom
    simp [List.range'_one, hk]
  omega

/-- … hence injective on them -/
theorem rank_inj (keep : Nat → Bool) {e1 e2 : Nat} (h1 : keep e1 = true) (h2 : keep e2 = true) (h : rank keep e1 = rank keep e2) : e1 = e2 := by
  rcases Nat.lt_trichotomy e1 e2 with hlt | heq | hgt
  · have := rank_lt keep hlt h1; omega
  · exact heq
  · have := rank_lt keep hgt h2; omega

theorem succIn_map (f : Nat → Nat) (l : List Nat) (x : Nat) (hx : x ∈ l) (hinj : ∀ a ∈ l, ∀ b ∈ l, f a = f b → a = b) :
    succIn (l.map f) (f x) = f (succIn l x) := by
  unfold succIn
  have hidx : (l.map f).idxOf (f x) = l.idxOf x := by
    induction l with
    | nil => cases hx
    | cons a t ih =>
      by_cases hax : a = x
      · subst hax; simp
      · have hxt : x ∈ t := by
          rcases List.mem_cons.mp hx with h | h
          · exact absurd h.symm hax
          · exact h
        have hfa : f a ≠ f x := fun h => hax (hinj a (by simp) x hx h)
        rw [List.map_cons, List.idxOf_cons_ne _ hfa, List.idxOf_cons_ne _ hax,
          ih hxt (fun a' ha' b' hb' => hinj a' (List.mem_cons_of_mem _ ha') b' (List.mem_cons_of_mem _ hb'))]
  rw [hidx, List.length_map]
  have hpos : 0 < l.length := List.length_pos_of_mem hx
  have hlt : (l.idxOf x + 1) % l.length < l.length := Nat.mod_lt _ hpos
  rw [List.getD_eq_getElem?_getD, List.getD_eq_getElem?_getD, List.getElem?_map, List.getElem?_eq_getElem hlt]
  simp

def renameDart (keep : Nat → Bool) (d : Dart) : Dart := (rank keep d.1, d.2)

theorem thin_head (L : Lat) (keep : Nat → Bool) (d : Dart) (hk : keep d.1 = true) : (thin L keep).head (renameDart keep d) = L.head d := by
  unfold Lat.head renameDart
  simp only
  rw [thin_endsOf L keep d.1 hk]

/-- one step of the face walk in the renumbered lattice is the renamed step of the old walk, whenever the edge walked along
    and the next edge are both kept -/
theorem nextD_thin (L : Lat) (keep : Nat → Bool) (hL : L.noSelfLoop = true)
    (hnz : ∀ v, ∀ e ∈ incident L v, outVec L v e ≠ (0, 0)) (d : Dart) (hd : d.1 < L.E) (hk : keep d.1 = true)
    (hk' : keep (nextD L (rotAt L) d).1 = true) :
    nextD (thin L keep) (rotAt (thin L keep)) (renameDart keep d) = renameDart keep (nextD L (rotAt L) d) := by
  have hwf := rotAt_wf L hL
  rw [nextD_eq_succIn, nextD_eq_succIn, thin_head L keep d hk, rotAt_thin L keep _ (hnz _)]
  have hmem : d.1 ∈ rotAt L (L.head d) := head_mem hwf hd
  have hmemf : d.1 ∈ (rotAt L (L.head d)).filter keep := List.mem_filter.mpr ⟨hmem, hk⟩
  have hs : succIn ((rotAt L (L.head d)).filter keep) d.1 = succIn (rotAt L (L.head d)) d.1 :=
    succIn_filter keep _ (hwf.nodup _) d.1 hmem hk (by rw [nextD_eq_succIn] at hk'; exact hk')
  have hm : succIn (((rotAt L (L.head d)).filter keep).map (rank keep)) (rank keep d.1)
      = rank keep (succIn ((rotAt L (L.head d)).filter keep) d.1) :=
    succIn_map (rank keep) _ d.1 hmemf (fun a ha b hb h => rank_inj keep (List.mem_filter.mp ha).2 (List.mem_filter.mp hb).2 h)
  unfold renameDart
  simp only
  rw [hm, hs]
  have hkn : keep (succIn (rotAt L (L.head d)) d.1) = true := by rw [nextD_eq_succIn] at hk'; exact hk'
  rw [thin_endsOf L keep _ hkn]

theorem iterate_thin (L : Lat) (keep : Nat → Bool) (hL : L.noSelfLoop = true)
    (hnz : ∀ v, ∀ e ∈ incident L v, outVec L v e ≠ (0, 0)) (d : Dart) (hd : d.1 < L.E)
    (hk : ∀ k, keep ((nextD L (rotAt L))^[k] d).1 = true) :
    ∀ k, (nextD (thin L keep) (rotAt (thin L keep)))^[k] (renameDart keep d) = renameDart keep ((nextD L (rotAt L))^[k] d) := by
  intro k
  induction k with
  | zero => rfl
  | succ k ih =>
    rw [iterate_succ_apply', iterate_succ_apply', ih]
    have hv : ((nextD L (rotAt L))^[k] d).1 < L.E := _root_.iter_valid L (rotAt L) (rotAt_wf L hL) hd k
    apply nextD_thin L keep hL hnz _ hv (hk k)
    have := hk (k + 1)
    rwa [iterate_succ_apply'] at this

theorem thin_noSelfLoop (L : Lat) (keep : Nat → Bool) (hL : L.noSelfLoop = true) : (thin L keep).noSelfLoop = true := by
  unfold Lat.noSelfLoop at hL ⊢
  rw [List.all_eq_true] at hL ⊢
  intro e he
  exact hL e ((filterIdx_sublist keep L.edges).subset he)

theorem renameDart_inj (keep : Nat → Bool) {a b : Dart} (ha : keep a.1 = true) (hb : keep b.1 = true)
    (h : renameDart keep a = renameDart keep b) : a = b := by
  unfold renameDart at h
  have h1 := congrArg Prod.fst h
  have h2 := congrArg Prod.snd h
  simp only at h1 h2
  exact Prod.ext (rank_inj keep ha hb h1) h2

/-- **C12 (plaquettes survive edge deletion, in the output lattice)**: trace a face of `L` from a dart `d`; if none of its
    edges is deleted, then tracing from the renamed dart in the thinned, renumbered lattice (what `cut_boundaries` — or any
    deletion of edges — returns) gives the same face, edge for edge with the new edge numbers and the same directions. -/
theorem face_in_thinned (L : Lat) (keep : Nat → Bool) (hL : L.noSelfLoop = true)
    (hnz : ∀ v, ∀ e ∈ incident L v, outVec L v e ≠ (0, 0)) (d : Dart) (hd : d.1 < L.E)
    (hk : ∀ y ∈ walkFrom L (rotAt L) d, keep y.1 = true) :
    walkFrom (thin L keep) (rotAt (thin L keep)) (renameDart keep d) = (walkFrom L (rotAt L) d).map (renameDart keep) := by
  have hwf := rotAt_wf L hL
  have hwf' := rotAt_wf (thin L keep) (thin_noSelfLoop L keep hL)
  have hk' : ∀ k, keep ((nextD L (rotAt L))^[k] d).1 = true :=
    fun k => hk _ ((_root_.mem_walkFrom L (rotAt L) hwf hd _).mpr ⟨k, rfl⟩)
  have hit := iterate_thin L keep hL hnz d hd hk'
  have hd' : (renameDart keep d).1 < (thin L keep).E := by
    rw [thin_E]; exact rank_lt keep hd (hk' 0)
  rw [_root_.walkFrom_eq L (rotAt L) hwf hd, _root_.walkFrom_eq (thin L keep) (rotAt (thin L keep)) hwf' hd']
  set W := _root_.walkData L (rotAt L) hwf hd
  set W' := _root_.walkData (thin L keep) (rotAt (thin L keep)) hwf' hd'
  have hp : W'.p = W.p := by
    apply Nat.le_antisymm
    · by_contra hlt
      have hlt : W.p < W'.p := Nat.lt_of_not_le hlt
      have := W'.inj W.p 0 hlt W'.pos (by rw [hit, W.per]; rfl)
      exact absurd this (Nat.pos_iff_ne_zero.mp W.pos)
    · by_contra hlt
      have hlt : W'.p < W.p := Nat.lt_of_not_le hlt
      have h1 : renameDart keep ((nextD L (rotAt L))^[W'.p] d) = renameDart keep d := by rw [← hit, W'.per]
      have h2 := renameDart_inj keep (hk' W'.p) (hk' 0) h1
      have := W.inj W'.p 0 hlt W.pos h2
      exact absurd this (Nat.pos_iff_ne_zero.mp W'.pos)
  rw [hp]
  apply List.ext_getElem
  · simp
  · intro i h1 h2
    simp only [List.getElem_iterate, List.getElem_map]
    exact hit i

end FaceInOutput

section RemoveVertices
open Lat AngOrder Function
/-! ### renumbering the vertices by any injective map that carries the positions along -/

section Renumber
variable (M M' : Lat) (ν : Nat → Nat) (K : Nat → Prop)
  (hE : M'.E = M.E)
  (hends : ∀ e, e < M.E → M'.endsOf e = (ν (M.endsOf e).1, ν (M.endsOf e).2))
  (hcross : ∀ e, e < M.E → M'.crossOf e = M.crossOf e)
  (hpos : ∀ v, K v → M'.posOf (ν v) = M.posOf v)
  (hscale : M'.scale = M.scale)
  (hr : ∀ e, e < M.E → K (M.endsOf e).1 ∧ K (M.endsOf e).2)
  (hinj : ∀ a b, K a → K b → ν a = ν b → a = b)

include hE hends hr hinj in
theorem renumber_incident (v : Nat) (hv : K v) : incident M' (ν v) = incident M v := by
  unfold incident
  rw [hE]
  apply List.filter_congr
  intro e he
  have heE : e < M.E := List.mem_range.mp he
  obtain ⟨h1, h2⟩ := hr e heE
  rw [hends e heE]
  simp only
  have e1 : (ν (M.endsOf e).1 == ν v) = ((M.endsOf e).1 == v) := by
    by_cases h : (M.endsOf e).1 = v
    · simp [h]
    · have : ν (M.endsOf e).1 ≠ ν v := fun hh => h (hinj _ _ h1 hv hh)
      simp [h, this]
  have e2 : (ν (M.endsOf e).2 == ν v) = ((M.endsOf e).2 == v) := by
    by_cases h : (M.endsOf e).2 = v
    · simp [h]
    · have : ν (M.endsOf e).2 ≠ ν v := fun hh => h (hinj _ _ h2 hv hh)
      simp [h, this]
  rw [e1, e2]

include hends hcross hpos hscale hr hinj in
theorem renumber_outVec (v : Nat) (hv : K v) (e : Nat) (he : e < M.E) : outVec M' (ν v) e = outVec M v e := by
  obtain ⟨h1, h2⟩ := hr e he
  have hev : M'.evec e = M.evec e := by
    unfold Lat.evec
    rw [hends e he, hcross e he, hscale]
    simp only
    rw [hpos _ h1, hpos _ h2]
  unfold outVec
  rw [hev, hends e he]
  simp only
  have e1 : (ν (M.endsOf e).1 == ν v) = ((M.endsOf e).1 == v) := by
    by_cases h : (M.endsOf e).1 = v
    · simp [h]
    · have : ν (M.endsOf e).1 ≠ ν v := fun hh => h (hinj _ _ h1 hv hh)
      simp [h, this]
  rw [e1]

include hE hends hcross hpos hscale hr hinj in
theorem renumber_rotAt (v : Nat) (hv : K v) : rotAt M' (ν v) = rotAt M v := by
  unfold rotAt
  rw [renumber_incident M M' ν K hE hends hr hinj v hv]
  apply foldl_insertDesc_congr
  intro x hx
  rcases hx with hx | hx
  · have hxE : x < M.E := ((mem_incident M v x).mp hx).1
    exact renumber_outVec M M' ν K hends hcross hpos hscale hr hinj v hv x hxE
  · simp at hx

include hE hends hcross hpos hscale hr hinj in
/-- the face walk takes the same step (same next edge, same direction) in the renumbered lattice -/
theorem renumber_nextD (hM : M.noSelfLoop = true) (d : Dart) (hd : d.1 < M.E) :
    nextD M' (rotAt M') d = nextD M (rotAt M) d := by
  have hwf := rotAt_wf M hM
  obtain ⟨h1, h2⟩ := hr d.1 hd
  have hhead : M'.head d = ν (M.head d) := by
    unfold Lat.head; rw [hends d.1 hd]; split <;> rfl
  have hKh : K (M.head d) := by unfold Lat.head; split <;> assumption
  rw [nextD_eq_succIn, nextD_eq_succIn, hhead, renumber_rotAt M M' ν K hE hends hcross hpos hscale hr hinj _ hKh]
  have hnext : succIn (rotAt M (M.head d)) d.1 < M.E := by
    have := nextD_edge_mem hwf hd
    rw [nextD_eq_succIn] at this
    exact ((hwf.mem_iff _ _).mp this).1
  apply Prod.ext
  · rfl
  · simp only
    rw [hends _ hnext]
    simp only
    obtain ⟨g1, _⟩ := hr _ hnext
    by_cases h : (M.endsOf (succIn (rotAt M (M.head d)) d.1)).1 = M.head d
    · simp [h]
    · have : ν (M.endsOf (succIn (rotAt M (M.head d)) d.1)).1 ≠ ν (M.head d) := fun hh => h (hinj _ _ g1 hKh hh)
      simp [h, this]

include hE hends hcross hpos hscale hr hinj in
/-- **every face walk is the same list of (edge, direction) pairs after the vertices are renumbered** -/
theorem renumber_walkFrom (hM : M.noSelfLoop = true) (d : Dart) (hd : d.1 < M.E) :
    walkFrom M' (rotAt M') d = walkFrom M (rotAt M) d := by
  have hwf := rotAt_wf M hM
  unfold walkFrom trace
  rw [hE]
  have hiter : ∀ k, (nextD M' (rotAt M'))^[k] d = (nextD M (rotAt M))^[k] d := by
    intro k
    induction k with
    | zero => rfl
    | succ k ih =>
      rw [iterate_succ_apply', iterate_succ_apply', ih]
      exact renumber_nextD M M' ν K hE hends hcross hpos hscale hr hinj hM _ (_root_.iter_valid M (rotAt M) hwf hd k)
  rw [traceLoop_congr (nextD M (rotAt M)) (nextD M' (rotAt M')) d _ d [d] hiter]

end Renumber

/-! ### remove_vertices = delete the edges touching the removed vertices, then renumber the kept vertices -/

theorem newIndex_eq_rank (removed : Nat → Bool) (v : Nat) (hk : removed v = false) :
    newIndex removed v = rank (fun u => !removed u) v := by
  have hcount := kept_add_removed removed v
  have hcum : cumRemoved removed v = ((List.range v).filter removed).length := by
    unfold cumRemoved
    rw [List.range_succ, List.filter_append]
    simp [hk]
  have hrank : rank (fun u => !removed u) v = (keptList removed v).length := by
    unfold rank rankFrom keptList
    rw [List.range_eq_range']
  unfold newIndex
  rw [hcum, hrank]; omega

theorem map_getD_lt {α β : Type} (f : α → β) (l : List α) (i : Nat) (hi : i < l.length) (d : α) (d' : β) :
    (l.map f).getD i d' = f (l.getD i d) := by
  rw [List.getD_eq_getElem?_getD, List.getD_eq_getElem?_getD, List.getElem?_map, List.getElem?_eq_getElem hi]
  simp

/-- **C12 (removing vertices keeps the untouched plaquettes)**: trace a face of `L` from a dart `d`; if none of its edges
    touches a removed vertex, tracing from the renamed dart in `remove_vertices(L, idx)` — edges touching removed vertices
    deleted, surviving edges and vertices renumbered in order — gives the same face, edge for edge under the new edge
    numbers and with the same directions. -/
theorem face_in_removeVertices (L : Lat) (idx : List Nat) (hL : L.noSelfLoop = true)
    (hrL : ∀ e ∈ L.edges, e.1 < L.nV ∧ e.2 < L.nV)
    (hnz : ∀ v, ∀ e ∈ incident L v, outVec L v e ≠ (0, 0)) (d : Dart) (hd : d.1 < L.E)
    (hk : ∀ y ∈ walkFrom L (rotAt L) d, edgeKept L (fun v => idx.contains v) y.1 = true) :
    walkFrom (removeVertices L idx) (rotAt (removeVertices L idx)) (renameDart (edgeKept L (fun v => idx.contains v)) d)
      = (walkFrom L (rotAt L) d).map (renameDart (edgeKept L (fun v => idx.contains v))) := by
  set removed : Nat → Bool := fun v => idx.contains v with hrem
  set keepE := edgeKept L removed with hkeepE
  set M := thin L keepE with hM
  have hMloop : M.noSelfLoop = true := thin_noSelfLoop L keepE hL
  rw [← face_in_thinned L keepE hL hnz d hd hk]
  have hwf := rotAt_wf L hL
  have hk0 : keepE d.1 = true := hk d ((_root_.mem_walkFrom L (rotAt L) hwf hd d).mpr ⟨0, rfl⟩)
  have hd' : (renameDart keepE d).1 < M.E := by rw [hM, thin_E]; exact rank_lt keepE hd hk0
  -- the ends of an edge of the thinned lattice are kept vertices in range
  have hends_mem : ∀ e, e < M.E → M.endsOf e ∈ M.edges := by
    intro e he
    unfold Lat.endsOf
    have he' : e < M.edges.length := he
    rw [List.getD_eq_getElem?_getD, List.getElem?_eq_getElem he']
    exact List.getElem_mem he'
  have hr : ∀ e, e < M.E → ((M.endsOf e).1 < L.nV ∧ removed (M.endsOf e).1 = false) ∧ ((M.endsOf e).2 < L.nV ∧ removed (M.endsOf e).2 = false) := by
    intro e he
    have hm := hends_mem e he
    obtain ⟨i, hi, hki⟩ := (mem_filterIdx keepE L.edges _).mp hm
    have hmemL : M.endsOf e ∈ L.edges := List.mem_of_getElem? hi
    have hLi : L.endsOf i = M.endsOf e := by
      unfold Lat.endsOf; rw [List.getD_eq_getElem?_getD, hi]; rfl
    have hke : edgeKept L removed i = true := hki
    unfold edgeKept at hke
    rw [hLi] at hke
    simp only [Bool.and_eq_true, Bool.not_eq_true'] at hke
    exact ⟨⟨(hrL _ hmemL).1, hke.1⟩, ⟨(hrL _ hmemL).2, hke.2⟩⟩
  apply renumber_walkFrom M (removeVertices L idx) (newIndex removed) (fun v => v < L.nV ∧ removed v = false)
  · -- same number of edges
    show ((filterIdx keepE L.edges).map _).length = (filterIdx keepE L.edges).length
    exact List.length_map _
  · intro e he
    show (((filterIdx keepE L.edges).map fun e => (newIndex removed e.1, newIndex removed e.2))).getD e (0, 0) = _
    have he2 : e < (filterIdx keepE L.edges).length := he
    rw [map_getD_lt (fun e : Nat × Nat => (newIndex removed e.1, newIndex removed e.2)) (filterIdx keepE L.edges) e he2 (0, 0) (0, 0)]
    rfl
  · intro e _; rfl
  · intro v hv
    show (filterIdx (fun v => !removed v) L.pos).getD (newIndex removed v) (0, 0) = L.pos.getD v (0, 0)
    rw [newIndex_eq_rank removed v hv.2]
    exact filterIdx_getD (fun u => !removed u) L.pos (0, 0) v (by simp [hv.2])
  · rfl
  · exact hr
  · intro a b ha hb h
    rw [newIndex_eq_rank removed a ha.2, newIndex_eq_rank removed b hb.2] at h
    exact rank_inj (fun u => !removed u) (by simp [ha.2]) (by simp [hb.2]) h
  · exact hMloop
  · exact hd'

end RemoveVertices

end C12
