import KoalaVerif.Model.Path
import KoalaVerif.Props.C06
import Mathlib.Data.List.Basic
import Mathlib.Tactic.Ring
import Mathlib.Tactic.Linarith
import Mathlib.Tactic.Positivity

/-! # C11 — path finding returns valid chains; flipping a plaquette path changes exactly its two ends; metrics

The backward pass is proved correct for every parent table that satisfies the forward pass's invariant (`ParentOK`:
parents are adjacent through the recorded edge and strictly decrease a rank — the cost, which strictly decreases
towards the start because distances are positive).  The executable model of the whole search is run against koala
with IEEE doubles and must return the same path. -/

namespace C11
open Path

/-! ### valid chains -/

/-- `nodes = [n0, n1, …, nk]`, `edges = [e1, …, ek]`: consecutive nodes are joined by the listed edge, one edge per step -/
inductive ValidChain (adj : Nat → List (Nat × Nat)) : List Nat → List Nat → Prop
  | single (n : Nat) : ValidChain adj [n] []
  | cons {n p : Nat} {e : Nat} {rest : List Nat} {es : List Nat} :
      (n, e) ∈ adj p → ValidChain adj (p :: rest) es → ValidChain adj (n :: p :: rest) (e :: es)

theorem ValidChain.length {adj : Nat → List (Nat × Nat)} {ns es : List Nat} (h : ValidChain adj ns es) :
    es.length + 1 = ns.length := by
  induction h with
  | single => rfl
  | cons _ _ ih => simp [← ih]

/-- the executable validity test of the driver (defined next to the model) -/
abbrev validChainB := C11Exec.validChainB

theorem validChainB_sound (adj : Nat → List (Nat × Nat)) (ns es : List Nat) (h : validChainB adj ns es = true) :
    ValidChain adj ns es := by
  induction ns generalizing es with
  | nil => simp [validChainB, C11Exec.validChainB] at h
  | cons n t ih =>
    cases t with
    | nil =>
      cases es with
      | nil => exact ValidChain.single n
      | cons _ _ => simp [validChainB, C11Exec.validChainB] at h
    | cons p rest =>
      cases es with
      | nil => simp [validChainB, C11Exec.validChainB] at h
      | cons e es =>
        simp only [validChainB, C11Exec.validChainB, Bool.and_eq_true, List.contains_eq_mem, decide_eq_true_eq] at h
        exact ValidChain.cons h.1 (ih es h.2)

/-! ### the backward pass -/

/-- accumulator-free form of the backward pass -/
def chain (came : List (Nat × (Nat × Nat))) (start : Nat) : Nat → Nat → Option (List Nat × List Nat)
  | 0, _ => none
  | fuel + 1, cur =>
    if cur == start then some ([cur], [])
    else match lookup cur came with
      | none => none
      | some (p, e) => (chain came start fuel p).map fun r => (cur :: r.1, e :: r.2)

theorem backward_eq_chain (came : List (Nat × (Nat × Nat))) (start : Nat) (fuel cur : Nat) (nacc eacc : List Nat) :
    backward came start fuel cur nacc eacc =
      (chain came start fuel cur).map fun r => (nacc.reverse ++ r.1, eacc.reverse ++ r.2) := by
  induction fuel generalizing cur nacc eacc with
  | zero => rfl
  | succ fuel ih =>
    unfold backward chain
    split
    · simp
    · cases hl : lookup cur came with
      | none => simp
      | some pe =>
        obtain ⟨p, e⟩ := pe
        simp only [ih]
        cases chain came start fuel p with
        | none => simp
        | some r => simp

/-- the invariant the forward pass maintains about its parent table -/
structure ParentOK (adj : Nat → List (Nat × Nat)) (came : List (Nat × (Nat × Nat))) (start : Nat) (rank : Nat → Nat) : Prop where
  adjacent : ∀ n p e, lookup n came = some (p, e) → (n, e) ∈ adj p
  decreasing : ∀ n p e, lookup n came = some (p, e) → n ≠ start → rank p < rank n
  parent_known : ∀ n p e, lookup n came = some (p, e) → p = start ∨ ∃ q, lookup p came = some q

/-- **C11 backward pass**: from every node that is the start or has a parent, with enough fuel, the walk along the
    parents terminates (the rank strictly decreases: this is the termination proof of the real `while` loop) and
    returns a valid chain from that node to the start, one edge per step -/
theorem chain_valid (adj : Nat → List (Nat × Nat)) (came : List (Nat × (Nat × Nat))) (start : Nat) (rank : Nat → Nat)
    (hok : ParentOK adj came start rank) :
    ∀ fuel cur, rank cur < fuel → (cur = start ∨ ∃ q, lookup cur came = some q) →
      ∃ ns es, chain came start fuel cur = some (ns, es) ∧ ns.head? = some cur ∧ ns.getLast? = some start ∧
        ValidChain adj ns es := by
  intro fuel
  induction fuel with
  | zero => intro cur h; omega
  | succ fuel ih =>
    intro cur hr hk
    unfold chain
    by_cases hcs : cur = start
    · subst hcs
      simp only [beq_self_eq_true, if_true]
      exact ⟨[cur], [], rfl, rfl, rfl, ValidChain.single cur⟩
    · have hne : (cur == start) = false := by simpa using hcs
      rw [hne]
      simp only [Bool.false_eq_true, if_false]
      rcases hk with hk | ⟨q, hq⟩
      · exact absurd hk hcs
      · obtain ⟨p, e⟩ := q
        rw [hq]
        have hdec := hok.decreasing cur p e hq hcs
        obtain ⟨ns, es, h1, h2, h3, h4⟩ := ih p (by omega) (hok.parent_known cur p e hq)
        simp only [h1, Option.map_some]
        cases ns with
        | nil => simp at h2
        | cons n0 rest =>
          simp only [List.head?_cons, Option.some.injEq] at h2
          subst h2
          refine ⟨cur :: n0 :: rest, e :: es, rfl, rfl, ?_, ValidChain.cons (hok.adjacent cur n0 e hq) h4⟩
          simpa [List.getLast?_cons_cons] using h3

/-- the same for the accumulator version koala's loop corresponds to: `nodes[0] = goal`, `nodes[-1] = start`,
    `len(edges) = len(nodes) − 1`, consecutive nodes joined by the listed edge; `start = goal` gives `([goal], [])` -/
theorem backward_valid (adj : Nat → List (Nat × Nat)) (came : List (Nat × (Nat × Nat))) (start goal : Nat) (rank : Nat → Nat)
    (hok : ParentOK adj came start rank) (fuel : Nat) (hf : rank goal < fuel)
    (hk : goal = start ∨ ∃ q, lookup goal came = some q) :
    ∃ ns es, backward came start fuel goal [] [] = some (ns, es) ∧ ns.head? = some goal ∧ ns.getLast? = some start ∧
      es.length + 1 = ns.length ∧ ValidChain adj ns es := by
  obtain ⟨ns, es, h1, h2, h3, h4⟩ := chain_valid adj came start rank hok fuel goal hf hk
  refine ⟨ns, es, ?_, h2, h3, h4.length, h4⟩
  rw [backward_eq_chain, h1]; simp

theorem backward_start_eq_goal (came : List (Nat × (Nat × Nat))) (start : Nat) (fuel : Nat) :
    backward came start (fuel + 1) start [] [] = some ([start], []) := by
  simp [backward]

/-! ### flipping the bonds of a plaquette path changes exactly its two end plaquettes -/

/-- a valid chain for an adjacency provider that reports, for plaquette `p`, the plaquettes `q` across its two-sided
    edges `e` (`graph_utils.adjacent_plaquettes`, C02) is a chain of plaquettes in the sense of C06 -/
theorem validChain_is_plaquette_chain (S : Tree.Sys) (adj : Nat → List (Nat × Nat))
    (hadj : ∀ p q e, (q, e) ∈ adj p → S.sides e = (some p, some q) ∨ S.sides e = (some q, some p))
    {ns es : List Nat} (h : ValidChain adj ns es) :
    ∀ a b, ns.head? = some a → ns.getLast? = some b → C06.Chain S a es b := by
  induction h with
  | single n =>
    intro a b ha hb
    simp only [List.head?_cons, Option.some.injEq, List.getLast?_singleton] at ha hb
    subst ha; subst hb; exact C06.Chain.nil _
  | @cons n p e rest es hmem _ ih =>
    intro a b ha hb
    simp only [List.head?_cons, Option.some.injEq] at ha
    subst ha
    have hb' : (p :: rest).getLast? = some b := by simpa [List.getLast?_cons_cons] using hb
    have := ih p b rfl hb'
    refine C06.Chain.cons ?_ this
    rcases hadj p n e hmem with h | h
    · right; exact h
    · left; exact h

/-- **two-ends law for paths**: flipping every bond on a plaquette path (pairwise different edges) multiplies the flux
    of plaquette `q` by −1 exactly when `q` is one of the two ends and the ends differ — both flux conventions -/
theorem path_flips_two_ends (S : Tree.Sys) (hS : C14.OK S) (Φ : (Nat → Int) → Nat → Int) (hΦ : C06.FlipLaw S Φ)
    (adj : Nat → List (Nat × Nat))
    (hadj : ∀ p q e, (q, e) ∈ adj p → S.sides e = (some p, some q) ∨ S.sides e = (some q, some p))
    {ns es : List Nat} (h : ValidChain adj ns es) (hnd : es.Nodup) (a b : Nat) (ha : ns.head? = some a)
    (hb : ns.getLast? = some b) (u : Nat → Int) (q : Nat) (hq : q < S.F) :
    Φ (Solver.flipEdges es u) q = C06.ind q a * C06.ind q b * Φ u q := by
  rw [C06.flux_flipEdges S Φ hΦ es hnd, C06.chain_toggle S hS q hq (validChain_is_plaquette_chain S adj hadj h a b ha hb)]

/-! ### the metrics (exact, on scaled integer coordinates; `S` = one cell) -/

theorem absI_nonneg (x : Int) : 0 ≤ absI x := by unfold absI; split <;> omega
theorem absI_neg (x : Int) : absI (-x) = absI x := by unfold absI; split <;> split <;> omega
theorem absI_sq (x : Int) : absI x ^ 2 = x ^ 2 := by unfold absI; split <;> ring

theorem wrap1_symm (S a b : Int) : wrap1 S a b = wrap1 S b a := by
  unfold wrap1
  have : absI (a - b) = absI (b - a) := by rw [← absI_neg]; congr 1; ring
  simp only [this]

/-- for coordinates in `[0, S)` the wrapped difference is in `[0, S/2]`, never longer than the plain one, and zero only
    for equal coordinates -/
theorem wrap1_bounds (S a b : Int) (ha : 0 ≤ a ∧ a < S) (hb : 0 ≤ b ∧ b < S) :
    0 ≤ wrap1 S a b ∧ 2 * wrap1 S a b ≤ S ∧ wrap1 S a b ≤ absI (a - b) ∧ (wrap1 S a b = 0 ↔ a = b) := by
  unfold wrap1 absI
  simp only
  split <;> split <;> (refine ⟨by omega, by omega, by omega, by omega⟩)

/-- the wrapped difference is the smallest of the three image differences `|a − b + kS|`, `k ∈ {−1, 0, 1}` -/
theorem wrap1_min_image (S a b : Int) (ha : 0 ≤ a ∧ a < S) (hb : 0 ≤ b ∧ b < S) :
    (wrap1 S a b = absI (a - b) ∨ wrap1 S a b = absI (a - b + S) ∨ wrap1 S a b = absI (a - b - S)) ∧
    wrap1 S a b ≤ absI (a - b) ∧ wrap1 S a b ≤ absI (a - b + S) ∧ wrap1 S a b ≤ absI (a - b - S) := by
  unfold wrap1 absI
  simp only
  split <;> split <;> split <;> split <;> (refine ⟨by omega, by omega, by omega, by omega⟩)

theorem sq_le_sq_of_abs {x y : Int} (hx : 0 ≤ x) (hxy : x ≤ y) : x ^ 2 ≤ y ^ 2 := by nlinarith

/-- **minimum-image distance**: symmetric, non-negative, zero only for coincident points, never longer than the
    Euclidean one (all on squares) -/
theorem periodic2_symm (S : Int) (a b : Int × Int) : periodic2 S a b = periodic2 S b a := by
  unfold periodic2; rw [wrap1_symm S a.1 b.1, wrap1_symm S a.2 b.2]

theorem periodic2_nonneg (S : Int) (a b : Int × Int) : 0 ≤ periodic2 S a b := by unfold periodic2; positivity

theorem periodic2_le_euclid2 (S : Int) (a b : Int × Int) (ha1 : 0 ≤ a.1 ∧ a.1 < S) (ha2 : 0 ≤ a.2 ∧ a.2 < S)
    (hb1 : 0 ≤ b.1 ∧ b.1 < S) (hb2 : 0 ≤ b.2 ∧ b.2 < S) : periodic2 S a b ≤ euclid2 a b := by
  unfold periodic2 euclid2
  obtain ⟨p1, _, q1, _⟩ := wrap1_bounds S a.1 b.1 ha1 hb1
  obtain ⟨p2, _, q2, _⟩ := wrap1_bounds S a.2 b.2 ha2 hb2
  have e1 := sq_le_sq_of_abs p1 q1
  have e2 := sq_le_sq_of_abs p2 q2
  rw [absI_sq] at e1 e2
  linarith

theorem periodic2_eq_zero_iff (S : Int) (a b : Int × Int) (ha1 : 0 ≤ a.1 ∧ a.1 < S) (ha2 : 0 ≤ a.2 ∧ a.2 < S)
    (hb1 : 0 ≤ b.1 ∧ b.1 < S) (hb2 : 0 ≤ b.2 ∧ b.2 < S) : periodic2 S a b = 0 ↔ a = b := by
  unfold periodic2
  obtain ⟨p1, _, _, z1⟩ := wrap1_bounds S a.1 b.1 ha1 hb1
  obtain ⟨p2, _, _, z2⟩ := wrap1_bounds S a.2 b.2 ha2 hb2
  constructor
  · intro h
    have h1 : wrap1 S a.1 b.1 = 0 := by nlinarith [sq_nonneg (wrap1 S a.1 b.1), sq_nonneg (wrap1 S a.2 b.2)]
    have h2 : wrap1 S a.2 b.2 = 0 := by nlinarith [sq_nonneg (wrap1 S a.1 b.1), sq_nonneg (wrap1 S a.2 b.2)]
    exact Prod.ext (z1.mp h1) (z2.mp h2)
  · intro h
    rw [z1.mpr (by rw [h]), z2.mpr (by rw [h])]; ring

theorem euclid2_metric (a b : Int × Int) : euclid2 a b = euclid2 b a ∧ 0 ≤ euclid2 a b ∧ (euclid2 a b = 0 ↔ a = b) := by
  unfold euclid2
  refine ⟨by ring, by positivity, ?_⟩
  constructor
  · intro h
    have h1 : a.1 - b.1 = 0 := by nlinarith [sq_nonneg (a.1 - b.1), sq_nonneg (a.2 - b.2)]
    have h2 : a.2 - b.2 = 0 := by nlinarith [sq_nonneg (a.1 - b.1), sq_nonneg (a.2 - b.2)]
    exact Prod.ext (by omega) (by omega)
  · intro h; rw [h]; ring

/-! ### non-vacuity: a path on a 3-cycle with unit costs -/

def exAdj : Nat → List (Nat × Nat) := fun p => [[(1, 0), (2, 2)], [(0, 0), (2, 1)], [(1, 1), (0, 2)]].getD p []

example : path exAdj (fun _ _ => (1 : Nat)) 0 0 2 false 10 = some ([2, 0], [2]) := by decide
example : path exAdj (fun _ _ => (1 : Nat)) 0 1 1 true 10 = some ([1], []) := by decide
example : validChainB exAdj [2, 0] [2] = true := by decide
example : wrap1 10 1 9 = 2 ∧ periodic2 10 (1, 1) (9, 2) = 5 := by decide

end C11
