import KoalaVerif.Model.Path
import KoalaVerif.Props.C06
import Mathlib.Data.List.Basic
import Mathlib.Tactic.Ring
import Mathlib.Tactic.Linarith
import Mathlib.Tactic.Positivity
import Mathlib.Algebra.Order.Monoid.Defs
import Mathlib.Algebra.Order.Monoid.Unbundled.Basic
import Mathlib.Order.Basic
import Mathlib.Analysis.Complex.Norm
import Mathlib.Analysis.SpecialFunctions.Pow.Real

/-! # C11 — path finding returns valid chains; flipping a plaquette path changes exactly its two ends; metrics

The backward pass is proved correct for every parent table that satisfies `ParentOK` (parents are adjacent through
the recorded edge and strictly decrease a rank), and the forward pass is proved to establish `ParentOK` whenever it
returns (`forward_done`; loop invariant `FInv`, rank = number of recorded costs below the node's own), for every
cost type obeying `CostLaws` — so `path_valid` is unconditional.  `path_shortest` (last section): without early stopping the
returned chain is no longer than any walk from the start to the goal, for every graph, budget and metric obeying `Heur`.  The executable model of the whole search is run
against koala with IEEE doubles and must return the same path. -/

namespace C11
open Path

/-! ### valid chains -/

/-- `nodes = [n0, n1, …, nk]`, `edges = [e1, …, ek]`: consecutive nodes are joined by the listed edge, one edge per step -/
inductive ValidChain (adj : Nat → List (Nat × Nat)) : List Nat → List Nat → Prop
  | single (n : Nat) : ValidChain adj [n] []
  | cons {n p : Nat} {e : Nat} {rest : List Nat} {es : List Nat} :
      (n, e) ∈ adj p → ValidChain adj (p :: rest) es → ValidChain adj (n :: p :: rest) (e :: es)

theorem ValidChain.length {adj : Nat → List (Nat × Nat)} {ns es : List Nat} (h : ValidChain adj ns es) :
    es.length + 1 = ns.length := by
  induction h with
  | single => rfl
  | cons _ _ ih => simp [← ih]

/-- the executable validity test of the driver (defined next to the model) -/
abbrev validChainB := C11Exec.validChainB

theorem validChainB_sound (adj : Nat → List (Nat × Nat)) (ns es : List Nat) (h : validChainB adj ns es = true) :
    ValidChain adj ns es := by
  induction ns generalizing es with
  | nil => simp [validChainB, C11Exec.validChainB] at h
  | cons n t ih =>
    cases t with
    | nil =>
      cases es with
      | nil => exact ValidChain.single n
      | cons _ _ => simp [validChainB, C11Exec.validChainB] at h
    | cons p rest =>
      cases es with
      | nil => simp [validChainB, C11Exec.validChainB] at h
      | cons e es =>
        simp only [validChainB, C11Exec.validChainB, Bool.and_eq_true, List.contains_eq_mem, decide_eq_true_eq] at h
        exact ValidChain.cons h.1 (ih es h.2)

/-! ### the backward pass -/

/-- accumulator-free form of the backward pass -/
def chain (came : List (Nat × (Nat × Nat))) (start : Nat) : Nat → Nat → Option (List Nat × List Nat)
  | 0, _ => none
  | fuel + 1, cur =>
    if cur == start then some ([cur], [])
    else match lookup cur came with
      | none => none
      | some (p, e) => (chain came start fuel p).map fun r => (cur :: r.1, e :: r.2)

theorem backward_eq_chain (came : List (Nat × (Nat × Nat))) (start : Nat) (fuel cur : Nat) (nacc eacc : List Nat) :
    backward came start fuel cur nacc eacc =
      (chain came start fuel cur).map fun r => (nacc.reverse ++ r.1, eacc.reverse ++ r.2) := by
  induction fuel generalizing cur nacc eacc with
  | zero => rfl
  | succ fuel ih =>
    unfold backward chain
    split
    · simp
    · cases hl : lookup cur came with
      | none => simp
      | some pe =>
        obtain ⟨p, e⟩ := pe
        simp only [ih]
        cases chain came start fuel p with
        | none => simp
        | some r => simp

/-- the invariant the forward pass maintains about its parent table -/
structure ParentOK (adj : Nat → List (Nat × Nat)) (came : List (Nat × (Nat × Nat))) (start : Nat) (rank : Nat → Nat) : Prop where
  adjacent : ∀ n p e, lookup n came = some (p, e) → (n, e) ∈ adj p
  decreasing : ∀ n p e, lookup n came = some (p, e) → n ≠ start → rank p < rank n
  parent_known : ∀ n p e, lookup n came = some (p, e) → p = start ∨ ∃ q, lookup p came = some q

/-- **C11 backward pass**: from every node that is the start or has a parent, with enough fuel, the walk along the
    parents terminates (the rank strictly decreases: this is the termination proof of the real `while` loop) and
    returns a valid chain from that node to the start, one edge per step -/
theorem chain_valid (adj : Nat → List (Nat × Nat)) (came : List (Nat × (Nat × Nat))) (start : Nat) (rank : Nat → Nat)
    (hok : ParentOK adj came start rank) :
    ∀ fuel cur, rank cur < fuel → (cur = start ∨ ∃ q, lookup cur came = some q) →
      ∃ ns es, chain came start fuel cur = some (ns, es) ∧ ns.head? = some cur ∧ ns.getLast? = some start ∧
        ValidChain adj ns es := by
  intro fuel
  induction fuel with
  | zero => intro cur h; omega
  | succ fuel ih =>
    intro cur hr hk
    unfold chain
    by_cases hcs : cur = start
    · subst hcs
      simp only [beq_self_eq_true, if_true]
      exact ⟨[cur], [], rfl, rfl, rfl, ValidChain.single cur⟩
    · have hne : (cur == start) = false := by simpa using hcs
      rw [hne]
      simp only [Bool.false_eq_true, if_false]
      rcases hk with hk | ⟨q, hq⟩
      · exact absurd hk hcs
      · obtain ⟨p, e⟩ := q
        rw [hq]
        have hdec := hok.decreasing cur p e hq hcs
        obtain ⟨ns, es, h1, h2, h3, h4⟩ := ih p (by omega) (hok.parent_known cur p e hq)
        simp only [h1, Option.map_some]
        cases ns with
        | nil => simp at h2
        | cons n0 rest =>
          simp only [List.head?_cons, Option.some.injEq] at h2
          subst h2
          refine ⟨cur :: n0 :: rest, e :: es, rfl, rfl, ?_, ValidChain.cons (hok.adjacent cur n0 e hq) h4⟩
          simpa [List.getLast?_cons_cons] using h3

/-- the same for the accumulator version koala's loop corresponds to: `nodes[0] = goal`, `nodes[-1] = start`,
    `len(edges) = len(nodes) − 1`, consecutive nodes joined by the listed edge; `start = goal` gives `([goal], [])` -/
theorem backward_valid (adj : Nat → List (Nat × Nat)) (came : List (Nat × (Nat × Nat))) (start goal : Nat) (rank : Nat → Nat)
    (hok : ParentOK adj came start rank) (fuel : Nat) (hf : rank goal < fuel)
    (hk : goal = start ∨ ∃ q, lookup goal came = some q) :
    ∃ ns es, backward came start fuel goal [] [] = some (ns, es) ∧ ns.head? = some goal ∧ ns.getLast? = some start ∧
      es.length + 1 = ns.length ∧ ValidChain adj ns es := by
  obtain ⟨ns, es, h1, h2, h3, h4⟩ := chain_valid adj came start rank hok fuel goal hf hk
  refine ⟨ns, es, ?_, h2, h3, h4.length, h4⟩
  rw [backward_eq_chain, h1]; simp

theorem backward_start_eq_goal (came : List (Nat × (Nat × Nat))) (start : Nat) (fuel : Nat) :
    backward came start (fuel + 1) start [] [] = some ([start], []) := by
  simp [backward]

/-! ### flipping the bonds of a plaquette path changes exactly its two end plaquettes -/

/-- a valid chain for an adjacency provider that reports, for plaquette `p`, the plaquettes `q` across its two-sided
    edges `e` (`graph_utils.adjacent_plaquettes`, C02) is a chain of plaquettes in the sense of C06 -/
theorem validChain_is_plaquette_chain (S : Tree.Sys) (adj : Nat → List (Nat × Nat))
    (hadj : ∀ p q e, (q, e) ∈ adj p → S.sides e = (some p, some q) ∨ S.sides e = (some q, some p))
    {ns es : List Nat} (h : ValidChain adj ns es) :
    ∀ a b, ns.head? = some a → ns.getLast? = some b → C06.Chain S a es b := by
  induction h with
  | single n =>
    intro a b ha hb
    simp only [List.head?_cons, Option.some.injEq, List.getLast?_singleton] at ha hb
    subst ha; subst hb; exact C06.Chain.nil _
  | @cons n p e rest es hmem _ ih =>
    intro a b ha hb
    simp only [List.head?_cons, Option.some.injEq] at ha
    subst ha
    have hb' : (p :: rest).getLast? = some b := by simpa [List.getLast?_cons_cons] using hb
    have := ih p b rfl hb'
    refine C06.Chain.cons ?_ this
    rcases hadj p n e hmem with h | h
    · right; exact h
    · left; exact h

/-- **two-ends law for paths**: flipping every bond on a plaquette path (pairwise different edges) multiplies the flux
    of plaquette `q` by −1 exactly when `q` is one of the two ends and the ends differ — both flux conventions -/
theorem path_flips_two_ends (S : Tree.Sys) (hS : C14.OK S) (Φ : (Nat → Int) → Nat → Int) (hΦ : C06.FlipLaw S Φ)
    (adj : Nat → List (Nat × Nat))
    (hadj : ∀ p q e, (q, e) ∈ adj p → S.sides e = (some p, some q) ∨ S.sides e = (some q, some p))
    {ns es : List Nat} (h : ValidChain adj ns es) (hnd : es.Nodup) (a b : Nat) (ha : ns.head? = some a)
    (hb : ns.getLast? = some b) (u : Nat → Int) (q : Nat) (hq : q < S.F) :
    Φ (Solver.flipEdges es u) q = C06.ind q a * C06.ind q b * Φ u q := by
  rw [C06.flux_flipEdges S Φ hΦ es hnd, C06.chain_toggle S hS q hq (validChain_is_plaquette_chain S adj hadj h a b ha hb)]

/-! ### the metrics (exact, on scaled integer coordinates; `S` = one cell) -/

theorem absI_nonneg (x : Int) : 0 ≤ absI x := by unfold absI; split <;> omega
theorem absI_neg (x : Int) : absI (-x) = absI x := by unfold absI; split <;> split <;> omega
theorem absI_sq (x : Int) : absI x ^ 2 = x ^ 2 := by unfold absI; split <;> ring

theorem wrap1_symm (S a b : Int) : wrap1 S a b = wrap1 S b a := by
  unfold wrap1
  have : absI (a - b) = absI (b - a) := by rw [← absI_neg]; congr 1; ring
  simp only [this]

/-- for coordinates in `[0, S)` the wrapped difference is in `[0, S/2]`, never longer than the plain one, and zero only
    for equal coordinates -/
theorem wrap1_bounds (S a b : Int) (ha : 0 ≤ a ∧ a < S) (hb : 0 ≤ b ∧ b < S) :
    0 ≤ wrap1 S a b ∧ 2 * wrap1 S a b ≤ S ∧ wrap1 S a b ≤ absI (a - b) ∧ (wrap1 S a b = 0 ↔ a = b) := by
  unfold wrap1 absI
  simp only
  split <;> split <;> (refine ⟨by omega, by omega, by omega, by omega⟩)

/-- the wrapped difference is the smallest of the three image differences `|a − b + kS|`, `k ∈ {−1, 0, 1}` -/
theorem wrap1_min_image (S a b : Int) (ha : 0 ≤ a ∧ a < S) (hb : 0 ≤ b ∧ b < S) :
    (wrap1 S a b = absI (a - b) ∨ wrap1 S a b = absI (a - b + S) ∨ wrap1 S a b = absI (a - b - S)) ∧
    wrap1 S a b ≤ absI (a - b) ∧ wrap1 S a b ≤ absI (a - b + S) ∧ wrap1 S a b ≤ absI (a - b - S) := by
  unfold wrap1 absI
  simp only
  split <;> split <;> split <;> split <;> (refine ⟨by omega, by omega, by omega, by omega⟩)

theorem sq_le_sq_of_abs {x y : Int} (hx : 0 ≤ x) (hxy : x ≤ y) : x ^ 2 ≤ y ^ 2 := by nlinarith

/-- **minimum-image distance**: symmetric, non-negative, zero only for coincident points, never longer than the
    Euclidean one (all on squares) -/
theorem periodic2_symm (S : Int) (a b : Int × Int) : periodic2 S a b = periodic2 S b a := by
  unfold periodic2; rw [wrap1_symm S a.1 b.1, wrap1_symm S a.2 b.2]

theorem periodic2_nonneg (S : Int) (a b : Int × Int) : 0 ≤ periodic2 S a b := by unfold periodic2; positivity

theorem periodic2_le_euclid2 (S : Int) (a b : Int × Int) (ha1 : 0 ≤ a.1 ∧ a.1 < S) (ha2 : 0 ≤ a.2 ∧ a.2 < S)
    (hb1 : 0 ≤ b.1 ∧ b.1 < S) (hb2 : 0 ≤ b.2 ∧ b.2 < S) : periodic2 S a b ≤ euclid2 a b := by
  unfold periodic2 euclid2
  obtain ⟨p1, _, q1, _⟩ := wrap1_bounds S a.1 b.1 ha1 hb1
  obtain ⟨p2, _, q2, _⟩ := wrap1_bounds S a.2 b.2 ha2 hb2
  have e1 := sq_le_sq_of_abs p1 q1
  have e2 := sq_le_sq_of_abs p2 q2
  rw [absI_sq] at e1 e2
  linarith

theorem periodic2_eq_zero_iff (S : Int) (a b : Int × Int) (ha1 : 0 ≤ a.1 ∧ a.1 < S) (ha2 : 0 ≤ a.2 ∧ a.2 < S)
    (hb1 : 0 ≤ b.1 ∧ b.1 < S) (hb2 : 0 ≤ b.2 ∧ b.2 < S) : periodic2 S a b = 0 ↔ a = b := by
  unfold periodic2
  obtain ⟨p1, _, _, z1⟩ := wrap1_bounds S a.1 b.1 ha1 hb1
  obtain ⟨p2, _, _, z2⟩ := wrap1_bounds S a.2 b.2 ha2 hb2
  constructor
  · intro h
    have h1 : wrap1 S a.1 b.1 = 0 := by nlinarith [sq_nonneg (wrap1 S a.1 b.1), sq_nonneg (wrap1 S a.2 b.2)]
    have h2 : wrap1 S a.2 b.2 = 0 := by nlinarith [sq_nonneg (wrap1 S a.1 b.1), sq_nonneg (wrap1 S a.2 b.2)]
    exact Prod.ext (z1.mp h1) (z2.mp h2)
  · intro h
    rw [z1.mpr (by rw [h]), z2.mpr (by rw [h])]; ring

theorem absI_sq_le {x y : Int} (h : absI x ≤ absI y) : x ^ 2 ≤ y ^ 2 := by
  have hx := absI_nonneg x
  have := sq_le_sq_of_abs hx h
  rwa [absI_sq, absI_sq] at this

/-- **the torus metric is the minimum-image distance**: the squared periodic distance is the smallest of the nine squared
    Euclidean distances to the images `b + (i·S, j·S)`, `i, j ∈ {−1, 0, 1}`, and it is attained by one of them -/
theorem periodic2_min_image (S : Int) (a b : Int × Int) (ha1 : 0 ≤ a.1 ∧ a.1 < S) (ha2 : 0 ≤ a.2 ∧ a.2 < S)
    (hb1 : 0 ≤ b.1 ∧ b.1 < S) (hb2 : 0 ≤ b.2 ∧ b.2 < S) :
    (∀ i j : Int, (i = -1 ∨ i = 0 ∨ i = 1) → (j = -1 ∨ j = 0 ∨ j = 1) →
        periodic2 S a b ≤ euclid2 a (b.1 + i * S, b.2 + j * S)) ∧
    (∃ i j : Int, (i = -1 ∨ i = 0 ∨ i = 1) ∧ (j = -1 ∨ j = 0 ∨ j = 1) ∧
        periodic2 S a b = euclid2 a (b.1 + i * S, b.2 + j * S)) := by
  obtain ⟨hx, hx0, hxp, hxm⟩ := wrap1_min_image S a.1 b.1 ha1 hb1
  obtain ⟨hy, hy0, hyp, hym⟩ := wrap1_min_image S a.2 b.2 ha2 hb2
  have wx := (wrap1_bounds S a.1 b.1 ha1 hb1).1
  have wy := (wrap1_bounds S a.2 b.2 ha2 hb2).1
  constructor
  · intro i j hi hj
    unfold periodic2 euclid2
    have ex : wrap1 S a.1 b.1 ^ 2 ≤ (a.1 - (b.1 + i * S)) ^ 2 := by
      rcases hi with rfl | rfl | rfl
      · have := sq_le_sq_of_abs wx hxp; rw [absI_sq] at this
        calc wrap1 S a.1 b.1 ^ 2 ≤ (a.1 - b.1 + S) ^ 2 := this
          _ = (a.1 - (b.1 + -1 * S)) ^ 2 := by ring
      · have := sq_le_sq_of_abs wx hx0; rw [absI_sq] at this
        calc wrap1 S a.1 b.1 ^ 2 ≤ (a.1 - b.1) ^ 2 := this
          _ = (a.1 - (b.1 + 0 * S)) ^ 2 := by ring
      · have := sq_le_sq_of_abs wx hxm; rw [absI_sq] at this
        calc wrap1 S a.1 b.1 ^ 2 ≤ (a.1 - b.1 - S) ^ 2 := this
          _ = (a.1 - (b.1 + 1 * S)) ^ 2 := by ring
    have ey : wrap1 S a.2 b.2 ^ 2 ≤ (a.2 - (b.2 + j * S)) ^ 2 := by
      rcases hj with rfl | rfl | rfl
      · have := sq_le_sq_of_abs wy hyp; rw [absI_sq] at this
        calc wrap1 S a.2 b.2 ^ 2 ≤ (a.2 - b.2 + S) ^ 2 := this
          _ = (a.2 - (b.2 + -1 * S)) ^ 2 := by ring
      · have := sq_le_sq_of_abs wy hy0; rw [absI_sq] at this
        calc wrap1 S a.2 b.2 ^ 2 ≤ (a.2 - b.2) ^ 2 := this
          _ = (a.2 - (b.2 + 0 * S)) ^ 2 := by ring
      · have := sq_le_sq_of_abs wy hym; rw [absI_sq] at this
        calc wrap1 S a.2 b.2 ^ 2 ≤ (a.2 - b.2 - S) ^ 2 := this
          _ = (a.2 - (b.2 + 1 * S)) ^ 2 := by ring
    simp only
    linarith
  · have px : ∃ i : Int, (i = -1 ∨ i = 0 ∨ i = 1) ∧ wrap1 S a.1 b.1 ^ 2 = (a.1 - (b.1 + i * S)) ^ 2 := by
      rcases hx with h | h | h
      · exact ⟨0, by simp, by rw [h, absI_sq]; ring⟩
      · exact ⟨-1, by simp, by rw [h, absI_sq]; ring⟩
      · exact ⟨1, by simp, by rw [h, absI_sq]; ring⟩
    have py : ∃ j : Int, (j = -1 ∨ j = 0 ∨ j = 1) ∧ wrap1 S a.2 b.2 ^ 2 = (a.2 - (b.2 + j * S)) ^ 2 := by
      rcases hy with h | h | h
      · exact ⟨0, by simp, by rw [h, absI_sq]; ring⟩
      · exact ⟨-1, by simp, by rw [h, absI_sq]; ring⟩
      · exact ⟨1, by simp, by rw [h, absI_sq]; ring⟩
    obtain ⟨i, hi, ei⟩ := px
    obtain ⟨j, hj, ej⟩ := py
    refine ⟨i, j, hi, hj, ?_⟩
    unfold periodic2 euclid2
    simp only
    rw [ei, ej]

theorem euclid2_metric (a b : Int × Int) : euclid2 a b = euclid2 b a ∧ 0 ≤ euclid2 a b ∧ (euclid2 a b = 0 ↔ a = b) := by
  unfold euclid2
  refine ⟨by ring, by positivity, ?_⟩
  constructor
  · intro h
    have h1 : a.1 - b.1 = 0 := by nlinarith [sq_nonneg (a.1 - b.1), sq_nonneg (a.2 - b.2)]
    have h2 : a.2 - b.2 = 0 := by nlinarith [sq_nonneg (a.1 - b.1), sq_nonneg (a.2 - b.2)]
    exact Prod.ext (by omega) (by omega)
  · intro h; rw [h]; ring

/-! ### the forward pass maintains the parent invariant -/

section Assoc
variable {α : Type}

theorem lookup_set_self (k : Nat) (v : α) (l : List (Nat × α)) : lookup k (Path.set k v l) = some v := by
  induction l with
  | nil => simp [Path.set, lookup]
  | cons a t ih =>
    obtain ⟨k', v'⟩ := a
    by_cases h : k' = k
    · simp [Path.set, lookup, h]
    · simp [Path.set, lookup, h, ih]

theorem lookup_set_ne (k k' : Nat) (v : α) (l : List (Nat × α)) (hne : k' ≠ k) : lookup k' (Path.set k v l) = lookup k' l := by
  induction l with
  | nil => simp [Path.set, lookup, Ne.symm hne]
  | cons a t ih =>
    obtain ⟨k'', v''⟩ := a
    by_cases h : k'' = k
    · subst h; simp [Path.set, lookup, Ne.symm hne]
    · by_cases h2 : k'' = k'
      · subst h2; simp [Path.set, lookup, h]
      · simp [Path.set, lookup, h, h2, ih]

theorem lookup_set_some (k k' : Nat) (v : α) (l : List (Nat × α)) (h : ∃ c, lookup k' l = some c) :
    ∃ c, lookup k' (Path.set k v l) = some c := by
  by_cases hk : k' = k
  · subst hk; exact ⟨v, lookup_set_self _ _ _⟩
  · rw [lookup_set_ne k k' v l hk]; exact h

theorem length_set_some (k : Nat) (v w : α) (l : List (Nat × α)) (h : lookup k l = some w) : (Path.set k v l).length = l.length := by
  induction l with
  | nil => simp [lookup] at h
  | cons a t ih =>
    obtain ⟨k', v'⟩ := a
    by_cases hk : k' = k
    · simp [Path.set, hk]
    · simp only [lookup, hk, if_false] at h
      simp [Path.set, hk, ih h]

theorem length_set_none (k : Nat) (v : α) (l : List (Nat × α)) (h : lookup k l = none) : (Path.set k v l).length = l.length + 1 := by
  induction l with
  | nil => simp [Path.set]
  | cons a t ih =>
    obtain ⟨k', v'⟩ := a
    by_cases hk : k' = k
    · simp [lookup, hk] at h
    · simp only [lookup, hk, if_false] at h
      simp [Path.set, hk, ih h]

theorem length_set_ge (k : Nat) (v : α) (l : List (Nat × α)) : l.length ≤ (Path.set k v l).length := by
  cases h : lookup k l with
  | none => rw [length_set_none k v l h]; omega
  | some w => rw [length_set_some k v w l h]

theorem lookup_mem (k : Nat) (v : α) (l : List (Nat × α)) (h : lookup k l = some v) : (k, v) ∈ l := by
  induction l with
  | nil => simp [lookup] at h
  | cons a t ih =>
    obtain ⟨k', v'⟩ := a
    by_cases hk : k' = k
    · simp only [lookup, hk, if_true, Option.some.injEq] at h
      simp [hk, h]
    · simp only [lookup, hk, if_false] at h
      exact List.mem_cons_of_mem _ (ih h)

theorem countP_lt {β : Type} (l : List β) (P Q : β → Bool) (hPQ : ∀ x ∈ l, P x = true → Q x = true)
    (x : β) (hx : x ∈ l) (hQ : Q x = true) (hP : P x = false) : l.countP P < l.countP Q := by
  induction l with
  | nil => simp at hx
  | cons a t ih =>
    simp only [List.countP_cons]
    have hmono : t.countP P ≤ t.countP Q := List.countP_mono_left (fun y hy h => hPQ y (List.mem_cons_of_mem _ hy) h)
    rcases List.mem_cons.mp hx with h | h
    · subst h; simp [hQ, hP]; omega
    · have := ih (fun y hy => hPQ y (List.mem_cons_of_mem _ hy)) h
      have ha := hPQ a (by simp)
      by_cases hpa : P a = true
      · simp [hpa, ha hpa]; omega
      · simp [hpa]; omega

end Assoc

set_option linter.unusedSectionVars false
variable {C : Type} [Add C] [LT C] [DecidableRel (fun a b : C => a < b)]

/-- what the proof needs of the cost arithmetic (for IEEE doubles: `<` is a strict order away from NaN, and adding a
    positive distance that is not absorbed by rounding increases a cost) -/
structure CostLaws (h : Nat → Nat → C) : Prop where
  asymm : ∀ a b : C, a < b → ¬ b < a
  trans : ∀ a b c : C, a < b → b < c → a < c
  pos : ∀ (c : C) (a b : Nat), c < c + h a b

/-- the rank that decreases along parents: the number of recorded costs below the node's own (nodes without a cost —
    only the goal reached by early stopping — rank above everything) -/
def rankOf (cost : List (Nat × C)) (n : Nat) : Nat :=
  match lookup n cost with
  | none => cost.length
  | some c => cost.countP fun kv => decide (kv.2 < c)

theorem rankOf_lt_of_lt (hl : ∀ a b c : C, a < b → b < c → a < c) (hasym : ∀ a b : C, a < b → ¬ b < a)
    (cost : List (Nat × C)) (p n : Nat) (cp cn : C)
    (hp : lookup p cost = some cp) (hn : lookup n cost = some cn) (hlt : cp < cn) : rankOf cost p < rankOf cost n := by
  unfold rankOf
  rw [hp, hn]
  apply countP_lt _ _ _ _ (p, cp) (lookup_mem p cp cost hp)
  · simpa using hlt
  · simp only [decide_eq_false_iff_not]; intro h; exact hasym _ _ h h
  · intro x _ hx
    simp only [decide_eq_true_eq] at hx ⊢
    exact hl _ _ _ hx hlt

theorem rankOf_lt_length (hasym : ∀ a b : C, a < b → ¬ b < a) (cost : List (Nat × C)) (p : Nat) (cp : C)
    (hp : lookup p cost = some cp) : rankOf cost p < cost.length := by
  unfold rankOf
  rw [hp]
  have := countP_lt cost (fun kv => decide (kv.2 < cp)) (fun _ => true) (fun _ _ _ => rfl) (p, cp) (lookup_mem p cp cost hp) rfl
    (by simp only [decide_eq_false_iff_not]; intro h; exact hasym _ _ h h)
  simpa using this

theorem rankOf_le_length (hasym : ∀ a b : C, a < b → ¬ b < a) (cost : List (Nat × C)) (n : Nat) : rankOf cost n ≤ cost.length := by
  cases h : lookup n cost with
  | none => unfold rankOf; rw [h]
  | some c => exact Nat.le_of_lt (rankOf_lt_length hasym cost n c h)

/-- the loop invariant of `a_star_search_forward_pass` -/
structure FInv (adj : Nat → List (Nat × Nat)) (start goal : Nat) (early : Bool) (s : St C) : Prop where
  adjacent : ∀ n p e, lookup n s.came = some (p, e) → (n, e) ∈ adj p
  ordered : ∀ n p e, lookup n s.came = some (p, e) → ∃ cp cn, lookup p s.cost = some cp ∧ lookup n s.cost = some cn ∧ cp < cn
  frontier_ok : ∀ x ∈ s.frontier, (∃ c, lookup x.2 s.cost = some c) ∧ (x.2 = start ∨ ∃ q, lookup x.2 s.came = some q)
  parent_known : ∀ n p e, lookup n s.came = some (p, e) → p = start ∨ ∃ q, lookup p s.came = some q
  goal_fresh : early = true → goal ≠ start → lookup goal s.cost = none
  sizes : s.cost.length ≤ s.came.length + 1

theorem finv_init (adj : Nat → List (Nat × Nat)) (start goal : Nat) (early : Bool) (zero : C) :
    FInv adj start goal early (initSt zero start) where
  adjacent := by intro n p e h; simp [initSt, lookup] at h
  ordered := by intro n p e h; simp [initSt, lookup] at h
  frontier_ok := by
    intro x hx
    simp only [initSt, List.mem_singleton] at hx
    subst hx
    exact ⟨⟨zero, by simp [initSt, lookup]⟩, Or.inl rfl⟩
  parent_known := by intro n p e h; simp [initSt, lookup] at h
  goal_fresh := by
    intro _ hne
    simp [initSt, lookup, Ne.symm hne]
  sizes := by simp [initSt]

/-- one successful relaxation keeps the invariant -/
theorem finv_update (adj : Nat → List (Nat × Nat)) (h : Nat → Nat → C) (hL : CostLaws h) (start goal : Nat) (early : Bool)
    (s : St C) (hI : FInv adj start goal early s) (current next e : Nat) (cc : C)
    (hcc : lookup current s.cost = some cc) (hcur : current = start ∨ ∃ q, lookup current s.came = some q)
    (hadj : (next, e) ∈ adj current) (hng : ¬ (early = true ∧ next = goal))
    (hbetter : lookup next s.cost = none ∨ ∃ old, lookup next s.cost = some old ∧ cc + h current next < old) :
    FInv adj start goal early
      { came := Path.set next (current, e) s.came, cost := Path.set next (cc + h current next) s.cost,
        frontier := (cc + h current next + h next goal, next) :: s.frontier } := by
  have hne_cur : next ≠ current := by
    rintro rfl
    rcases hbetter with hb | ⟨old, hb, hlt⟩
    · rw [hcc] at hb; cases hb
    · rw [hcc] at hb; cases hb
      exact hL.asymm _ _ (hL.pos cc next next) hlt
  constructor
  · intro n p e' hl
    by_cases hn : n = next
    · subst hn; rw [lookup_set_self] at hl; cases hl; exact hadj
    · rw [lookup_set_ne _ _ _ _ hn] at hl; exact hI.adjacent n p e' hl
  · intro n p e' hl
    show ∃ cp cn, lookup p (Path.set next _ s.cost) = some cp ∧ lookup n (Path.set next _ s.cost) = some cn ∧ cp < cn
    by_cases hn : n = next
    · subst hn; rw [lookup_set_self] at hl; cases hl
      refine ⟨cc, cc + h current n, ?_, lookup_set_self _ _ _, hL.pos _ _ _⟩
      rw [lookup_set_ne _ _ _ _ (Ne.symm hne_cur)]; exact hcc
    · rw [lookup_set_ne _ _ _ _ hn] at hl
      obtain ⟨cp, cn, h1, h2, h3⟩ := hI.ordered n p e' hl
      by_cases hp : p = next
      · subst hp
        refine ⟨cc + h current p, cn, lookup_set_self _ _ _, by rw [lookup_set_ne _ _ _ _ hn]; exact h2, ?_⟩
        rcases hbetter with hb | ⟨old, hb, hlt⟩
        · rw [h1] at hb; cases hb
        · rw [h1] at hb; cases hb; exact hL.trans _ _ _ hlt h3
      · exact ⟨cp, cn, by rw [lookup_set_ne _ _ _ _ hp]; exact h1, by rw [lookup_set_ne _ _ _ _ hn]; exact h2, h3⟩
  · intro x hx
    rcases List.mem_cons.mp hx with hx | hx
    · subst hx
      exact ⟨⟨_, lookup_set_self _ _ _⟩, Or.inr ⟨_, lookup_set_self _ _ _⟩⟩
    · obtain ⟨h1, h2⟩ := hI.frontier_ok x hx
      refine ⟨lookup_set_some _ _ _ _ h1, ?_⟩
      rcases h2 with h2 | h2
      · exact Or.inl h2
      · exact Or.inr (lookup_set_some _ _ _ _ h2)
  · intro n p e' hl
    show p = start ∨ ∃ q, lookup p (Path.set next _ s.came) = some q
    by_cases hn : n = next
    · subst hn; rw [lookup_set_self] at hl; cases hl
      rcases hcur with h1 | h1
      · exact Or.inl h1
      · exact Or.inr (lookup_set_some _ _ _ _ h1)
    · rw [lookup_set_ne _ _ _ _ hn] at hl
      rcases hI.parent_known n p e' hl with h1 | h1
      · exact Or.inl h1
      · exact Or.inr (lookup_set_some _ _ _ _ h1)
  · intro he hgs
    show lookup goal (Path.set next _ s.cost) = none
    have : goal ≠ next := fun hh => hng ⟨he, hh.symm⟩
    rw [lookup_set_ne _ _ _ _ this]; exact hI.goal_fresh he hgs
  · show (Path.set next _ s.cost).length ≤ (Path.set next _ s.came).length + 1
    cases hc : lookup next s.cost with
    | some w =>
      rw [length_set_some _ _ w _ hc]
      have := length_set_ge next (current, e) s.came
      have := hI.sizes
      omega
    | none =>
      have hcame : lookup next s.came = none := by
        cases hq : lookup next s.came with
        | none => rfl
        | some q =>
          obtain ⟨p, e'⟩ := q
          obtain ⟨_, cn, _, h2, _⟩ := hI.ordered next p e' hq
          rw [hc] at h2; cases h2
      rw [length_set_none _ _ _ hc, length_set_none _ _ _ hcame]
      have := hI.sizes
      omega


/-- the state in which the early-stopping branch returns: the parent of the goal was written on top of a state
    satisfying the invariant -/
def Stopped (adj : Nat → List (Nat × Nat)) (start goal : Nat) (early : Bool) (s' : St C) : Prop :=
  ∃ (s : St C) (cur e : Nat), FInv adj start goal early s ∧ (goal, e) ∈ adj cur ∧ (∃ cc, lookup cur s.cost = some cc) ∧
    (cur = start ∨ ∃ q, lookup cur s.came = some q) ∧ early = true ∧ s'.came = Path.set goal (cur, e) s.came ∧ s'.cost = s.cost

/-- the inner `for next, shared_edge in zip(*adjacency(current))` loop -/
theorem relax_inv (adj : Nat → List (Nat × Nat)) (h : Nat → Nat → C) (hL : CostLaws h) (start goal : Nat) (early : Bool)
    (current : Nat) :
    ∀ (l : List (Nat × Nat)) (s : St C), (∀ x ∈ l, x ∈ adj current) → FInv adj start goal early s →
      (∃ cc, lookup current s.cost = some cc) → (current = start ∨ ∃ q, lookup current s.came = some q) →
      ((relax h goal early current l s).2 = false → FInv adj start goal early (relax h goal early current l s).1) ∧
      ((relax h goal early current l s).2 = true → Stopped adj start goal early (relax h goal early current l s).1) := by
  intro l
  induction l with
  | nil => intro s _ hI _ _; exact ⟨fun _ => hI, fun hh => by simp [relax] at hh⟩
  | cons x rest ih =>
    intro s hsub hI hcc hcur
    obtain ⟨next, e⟩ := x
    have hadj : (next, e) ∈ adj current := hsub _ (by simp)
    have hsub' : ∀ x ∈ rest, x ∈ adj current := fun x hx => hsub x (List.mem_cons_of_mem _ hx)
    by_cases hstop : (early && next == goal) = true
    · -- early return
      have hr : relax h goal early current ((next, e) :: rest) s = ({ s with came := Path.set next (current, e) s.came }, true) := by
        simp only [relax, hstop, if_true]
      rw [hr]
      simp only [Bool.and_eq_true, beq_iff_eq] at hstop
      obtain ⟨he, hng⟩ := hstop
      subst hng
      exact ⟨fun hh => absurd hh (by simp), fun _ => ⟨s, current, e, hI, hadj, hcc, hcur, he, rfl, rfl⟩⟩
    · obtain ⟨cc, hcc'⟩ := hcc
      have hng : ¬ (early = true ∧ next = goal) := by
        intro hh; apply hstop; simp [hh.1, hh.2]
      cases hn : lookup next s.cost with
      | none =>
        have hr : relax h goal early current ((next, e) :: rest) s = relax h goal early current rest
            { came := Path.set next (current, e) s.came, cost := Path.set next (cc + h current next) s.cost,
              frontier := (cc + h current next + h next goal, next) :: s.frontier } := by
          simp only [relax, hstop, hcc', hn, Bool.false_eq_true, if_false, if_true]
        rw [hr]
        have hI' := finv_update adj h hL start goal early s hI current next e cc hcc' hcur hadj hng (Or.inl hn)
        refine ih _ hsub' hI' (lookup_set_some _ _ _ _ ⟨cc, hcc'⟩) ?_
        rcases hcur with h1 | h1
        · exact Or.inl h1
        · exact Or.inr (lookup_set_some _ _ _ _ h1)
      | some old =>
        by_cases hb : cc + h current next < old
        · have hr : relax h goal early current ((next, e) :: rest) s = relax h goal early current rest
              { came := Path.set next (current, e) s.came, cost := Path.set next (cc + h current next) s.cost,
                frontier := (cc + h current next + h next goal, next) :: s.frontier } := by
            simp only [relax, hstop, hcc', hn, hb, decide_true, Bool.false_eq_true, if_false, if_true]
          rw [hr]
          have hI' := finv_update adj h hL start goal early s hI current next e cc hcc' hcur hadj hng (Or.inr ⟨old, hn, hb⟩)
          refine ih _ hsub' hI' (lookup_set_some _ _ _ _ ⟨cc, hcc'⟩) ?_
          rcases hcur with h1 | h1
          · exact Or.inl h1
          · exact Or.inr (lookup_set_some _ _ _ _ h1)
        · have hr : relax h goal early current ((next, e) :: rest) s = relax h goal early current rest s := by
            simp only [relax, hstop, hcc', hn, hb, decide_false, Bool.false_eq_true, if_false]
          rw [hr]
          exact ih s hsub' hI ⟨cc, hcc'⟩ hcur

theorem popMin_mem : ∀ (l : List (C × Nat)) (m : C × Nat) (rest : List (C × Nat)), popMin l = some (m, rest) →
    m ∈ l ∧ ∀ x ∈ rest, x ∈ l := by
  intro l
  induction l with
  | nil => intro m rest hh; simp [popMin] at hh
  | cons x xs ih =>
    intro m rest hh
    simp only [popMin] at hh
    cases hp : popMin xs with
    | none =>
      rw [hp] at hh
      simp only [Option.some.injEq, Prod.mk.injEq] at hh
      obtain ⟨rfl, rfl⟩ := hh
      exact ⟨by simp, by simp⟩
    | some mr =>
      obtain ⟨m', rest'⟩ := mr
      rw [hp] at hh
      obtain ⟨h1, h2⟩ := ih m' rest' hp
      simp only at hh
      split at hh
      · simp only [Option.some.injEq, Prod.mk.injEq] at hh
        obtain ⟨rfl, rfl⟩ := hh
        refine ⟨List.mem_cons_of_mem _ h1, ?_⟩
        intro y hy
        rcases List.mem_cons.mp hy with hy | hy
        · subst hy; simp
        · exact List.mem_cons_of_mem _ (h2 y hy)
      · simp only [Option.some.injEq, Prod.mk.injEq] at hh
        obtain ⟨rfl, rfl⟩ := hh
        exact ⟨by simp, fun y hy => List.mem_cons_of_mem _ hy⟩

/-- what the backward pass needs of the parent table the forward pass returns -/
def Done (adj : Nat → List (Nat × Nat)) (start goal : Nat) (s : St C) : Prop :=
  ∃ rank : Nat → Nat, ParentOK adj s.came start rank ∧ (goal = start ∨ ∃ q, lookup goal s.came = some q) ∧
    rank goal < s.came.length + 2

theorem finv_done (adj : Nat → List (Nat × Nat)) (h : Nat → Nat → C) (hL : CostLaws h) (start goal : Nat) (early : Bool) (s : St C)
    (hI : FInv adj start goal early s) (hg : goal = start ∨ ∃ q, lookup goal s.came = some q)
    (rest : List (C × Nat)) : Done adj start goal { s with frontier := rest } := by
  refine ⟨rankOf s.cost, ⟨hI.adjacent, ?_, hI.parent_known⟩, hg, ?_⟩
  · intro n p e hl _
    obtain ⟨cp, cn, h1, h2, h3⟩ := hI.ordered n p e hl
    exact rankOf_lt_of_lt hL.trans hL.asymm s.cost p n cp cn h1 h2 h3
  · have := rankOf_le_length hL.asymm s.cost goal
    have := hI.sizes
    show rankOf s.cost goal < s.came.length + 2
    omega

theorem stopped_done (adj : Nat → List (Nat × Nat)) (h : Nat → Nat → C) (hL : CostLaws h) (start goal : Nat) (early : Bool) (s' : St C)
    (hS : Stopped adj start goal early s') (hgs : goal ≠ start) : Done adj start goal s' := by
  obtain ⟨s, cur, e, hI, hadj, ⟨cc, hcc⟩, hcur, he, hcame, hcost⟩ := hS
  have hgc : lookup goal s.cost = none := hI.goal_fresh he hgs
  refine ⟨rankOf s.cost, ⟨?_, ?_, ?_⟩, ?_, ?_⟩
  · intro n p e' hl
    rw [hcame] at hl
    by_cases hn : n = goal
    · subst hn; rw [lookup_set_self] at hl; cases hl; exact hadj
    · rw [lookup_set_ne _ _ _ _ hn] at hl; exact hI.adjacent n p e' hl
  · intro n p e' hl _
    rw [hcame] at hl
    by_cases hn : n = goal
    · subst hn; rw [lookup_set_self] at hl; cases hl
      have h1 := rankOf_lt_length hL.asymm s.cost cur cc hcc
      have h2 : rankOf s.cost n = s.cost.length := by unfold rankOf; rw [hgc]
      omega
    · rw [lookup_set_ne _ _ _ _ hn] at hl
      obtain ⟨cp, cn, h1, h2, h3⟩ := hI.ordered n p e' hl
      exact rankOf_lt_of_lt hL.trans hL.asymm s.cost p n cp cn h1 h2 h3
  · intro n p e' hl
    rw [hcame] at hl ⊢
    by_cases hn : n = goal
    · subst hn; rw [lookup_set_self] at hl; cases hl
      rcases hcur with h1 | h1
      · exact Or.inl h1
      · exact Or.inr (lookup_set_some _ _ _ _ h1)
    · rw [lookup_set_ne _ _ _ _ hn] at hl
      rcases hI.parent_known n p e' hl with h1 | h1
      · exact Or.inl h1
      · exact Or.inr (lookup_set_some _ _ _ _ h1)
  · right; rw [hcame]; exact ⟨_, lookup_set_self _ _ _⟩
  · have h1 := rankOf_le_length hL.asymm s.cost goal
    have h2 := hI.sizes
    have h3 := length_set_ge goal (cur, e) s.came
    rw [hcame]; omega

/-- **C11 forward pass**: whenever the loop returns (either way), the parent table it returns satisfies what the
    backward pass needs — for every graph, every heuristic obeying `CostLaws`, every budget -/
theorem forward_done (adj : Nat → List (Nat × Nat)) (h : Nat → Nat → C) (hL : CostLaws h) (start goal : Nat) (early : Bool)
    (hgs : goal ≠ start) :
    ∀ (fuel : Nat) (s s' : St C), FInv adj start goal early s → forward adj h goal early fuel s = .found s' →
      Done adj start goal s' := by
  intro fuel
  induction fuel with
  | zero => intro s s' _ hf; simp [forward] at hf
  | succ fuel ih =>
    intro s s' hI hf
    simp only [forward] at hf
    cases hp : popMin s.frontier with
    | none => rw [hp] at hf; cases hf
    | some mr =>
      obtain ⟨⟨pr, current⟩, rest⟩ := mr
      rw [hp] at hf
      obtain ⟨hm, hrest⟩ := popMin_mem _ _ _ hp
      obtain ⟨hcc, hcur⟩ := hI.frontier_ok _ hm
      simp only at hf hcc hcur
      by_cases hcg : (current == goal) = true
      · simp only [hcg, if_true, Outcome.found.injEq] at hf
        subst hf
        have : current = goal := by simpa using hcg
        subst this
        exact finv_done adj h hL start current early s hI hcur rest
      · simp only [hcg, Bool.false_eq_true, if_false] at hf
        have hI' : FInv adj start goal early { s with frontier := rest } :=
          ⟨hI.adjacent, hI.ordered, fun x hx => hI.frontier_ok x (hrest x hx), hI.parent_known, hI.goal_fresh, hI.sizes⟩
        obtain ⟨r1, r2⟩ := relax_inv adj h hL start goal early current (adj current) _ (fun x hx => hx) hI' hcc hcur
        by_cases hr : (relax h goal early current (adj current) { s with frontier := rest }).2 = true
        · simp only [hr, if_true, Outcome.found.injEq] at hf
          subst hf
          exact stopped_done adj h hL start goal early _ (r2 hr) hgs
        · have hr' : (relax h goal early current (adj current) { s with frontier := rest }).2 = false := by simpa using hr
          simp only [hr', Bool.false_eq_true, if_false] at hf
          exact ih _ s' (r1 hr') hf

/-- **C11 (path finding returns a valid chain, unconditionally)**: whatever the graph, the heuristic (obeying
    `CostLaws`), the budget and the early-stopping flag — if the forward pass does not exhaust its budget, the
    search returns a chain from the goal back to the start: `nodes[0] = goal`, `nodes[-1] = start`, one edge per
    step, consecutive nodes joined by the listed edge (in particular the backward pass never hits a missing key
    and terminates); if it does exhaust it, the result is `none` (`PathFindingError`). -/
theorem path_valid (adj : Nat → List (Nat × Nat)) (h : Nat → Nat → C) (hL : CostLaws h) (zero : C) (start goal : Nat)
    (early : Bool) (maxits : Nat) :
    (forward adj h goal early maxits (initSt zero start) = .exhausted ∧ path adj h zero start goal early maxits = none) ∨
    ∃ ns es, path adj h zero start goal early maxits = some (ns, es) ∧ ns.head? = some goal ∧ ns.getLast? = some start ∧
      es.length + 1 = ns.length ∧ ValidChain adj ns es := by
  cases hf : forward adj h goal early maxits (initSt zero start) with
  | exhausted => left; exact ⟨rfl, by simp [path, hf]⟩
  | found s =>
    right
    have hdone : Done adj start goal s := by
      by_cases hgs : goal = start
      · subst hgs
        cases maxits with
        | zero => simp [forward] at hf
        | succ m =>
          have : s.came = [] := by
            simp only [forward, initSt, popMin, beq_self_eq_true, if_true, Outcome.found.injEq] at hf
            rw [← hf]
          refine ⟨fun _ => 0, ⟨?_, ?_, ?_⟩, Or.inl rfl, by show 0 < _; omega⟩ <;> (intro n p e hl; rw [this] at hl; simp [lookup] at hl)
      · exact forward_done adj h hL start goal early hgs maxits _ s (finv_init adj start goal early zero) hf
    obtain ⟨rank, hok, hk, hr⟩ := hdone
    obtain ⟨ns, es, h1, h2, h3, h4, h5⟩ := backward_valid adj s.came start goal rank hok (s.came.length + 2) hr hk
    exact ⟨ns, es, by simp [path, hf, h1], h2, h3, h4, h5⟩

/-! ### non-vacuity: a path on a 3-cycle with unit costs -/

def exAdj : Nat → List (Nat × Nat) := fun p => [[(1, 0), (2, 2)], [(0, 0), (2, 1)], [(1, 1), (0, 2)]].getD p []

example : path exAdj (fun _ _ => (1 : Nat)) 0 0 2 false 10 = some ([2, 0], [2]) := by decide
example : path exAdj (fun _ _ => (1 : Nat)) 0 1 1 true 10 = some ([1], []) := by decide
example : validChainB exAdj [2, 0] [2] = true := by decide
/-- the cost laws are satisfiable: unit costs in `Nat` -/
example : CostLaws (fun _ _ => (1 : Nat)) := ⟨fun _ _ h => Nat.lt_asymm h, fun _ _ _ => Nat.lt_trans, fun c _ _ => Nat.lt_succ_self c⟩
example : wrap1 10 1 9 = 2 ∧ periodic2 10 (1, 1) (9, 2) = 5 := by decide

end C11

namespace C11
open Path

/-! ### optimality: without early stopping the path returned is a shortest one -/

section Optimal
variable {C : Type} [AddCommMonoid C] [LinearOrder C] [IsOrderedAddMonoid C]

/-- length of a walk `[p0, p1, …, pk]` in the metric `h` (the edge cost of the search is `h current next`) -/
def weight (h : Nat → Nat → C) : List Nat → C
  | a :: b :: rest => h a b + weight h (b :: rest)
  | _ => 0

/-- the same for the list the backward pass returns, which runs from the goal back to the start -/
def wRev (h : Nat → Nat → C) : List Nat → C
  | n :: p :: rest => h p n + wRev h (p :: rest)
  | _ => 0

/-- consecutive nodes are adjacent -/
def IsWalk (adj : Nat → List (Nat × Nat)) : List Nat → Prop
  | a :: b :: rest => (∃ e, (b, e) ∈ adj a) ∧ IsWalk adj (b :: rest)
  | _ => True

/-- what the proof needs of the centre-to-centre metric: non-negative, zero from the goal to itself, triangle inequality
    towards the goal (both offered metrics are metrics in exact arithmetic: `euclid2_metric`, `periodic2_*`) -/
structure Heur (h : Nat → Nat → C) (goal : Nat) : Prop where
  nonneg : ∀ a b, 0 ≤ h a b
  goal_zero : h goal goal = 0
  tri : ∀ a b, h a goal ≤ h a b + h b goal

theorem admissible (adj : Nat → List (Nat × Nat)) (h : Nat → Nat → C) (goal : Nat) (hH : Heur h goal) :
    ∀ (rest : List Nat) (a : Nat), (a :: rest).getLast? = some goal → h a goal ≤ weight h (a :: rest) := by
  intro rest
  induction rest with
  | nil =>
    intro a hl
    simp only [List.getLast?_singleton, Option.some.injEq] at hl
    subst hl
    simp [weight, hH.goal_zero]
  | cons b r ih =>
    intro a hl
    have hl' : (b :: r).getLast? = some goal := by simpa [List.getLast?_cons_cons] using hl
    calc h a goal ≤ h a b + h b goal := hH.tri a b
      _ ≤ h a b + weight h (b :: r) := add_le_add (le_refl _) (ih b hl')
      _ = weight h (a :: b :: r) := rfl

def OpenAt (h : Nat → Nat → C) (goal : Nat) (s : St C) (n : Nat) (c : C) : Prop :=
  ∃ p, (p, n) ∈ s.frontier ∧ p ≤ c + h n goal

def ClosedAt (adj : Nat → List (Nat × Nat)) (h : Nat → Nat → C) (s : St C) (n : Nat) (c : C) : Prop :=
  ∀ m e, (m, e) ∈ adj n → ∃ cm, lookup m s.cost = some cm ∧ cm ≤ c + h n m

/-- the loop invariant behind optimality; `P` lists the neighbours of the node being expanded that have been relaxed
    already (`cur = none` between iterations) -/
structure RInv (adj : Nat → List (Nat × Nat)) (h : Nat → Nat → C) (start goal : Nat) (cur : Option (Nat × C))
    (P : Nat × Nat → Prop) (s : St C) : Prop where
  nonneg : ∀ n c, lookup n s.cost = some c → 0 ≤ c
  goal_entries : ∀ p, (p, goal) ∈ s.frontier → ∃ c, lookup goal s.cost = some c ∧ c ≤ p
  frontier_cost : ∀ x ∈ s.frontier, ∃ c, lookup x.2 s.cost = some c
  start_zero : lookup start s.cost = some 0
  parent_cost : ∀ n p e, lookup n s.came = some (p, e) →
    ∃ cp cn, lookup p s.cost = some cp ∧ lookup n s.cost = some cn ∧ cp + h p n ≤ cn
  settled : ∀ n c, (∀ cc, cur ≠ some (n, cc)) → lookup n s.cost = some c → OpenAt h goal s n c ∨ ClosedAt adj h s n c
  cur_cost : ∀ n cc, cur = some (n, cc) → lookup n s.cost = some cc
  done : ∀ n cc, cur = some (n, cc) → ∀ x, P x → ∃ cm, lookup x.1 s.cost = some cm ∧ cm ≤ cc + h n x.1

theorem rinv_init (adj : Nat → List (Nat × Nat)) (h : Nat → Nat → C) (start goal : Nat) (hH : Heur h goal) :
    RInv adj h start goal none (fun _ => False) (initSt (0 : C) start) where
  nonneg := by
    intro n c hl
    simp only [initSt, lookup] at hl
    split at hl
    · simp only [Option.some.injEq] at hl; rw [← hl]
    · cases hl
  goal_entries := by
    intro p hp
    simp only [initSt, List.mem_singleton, Prod.mk.injEq] at hp
    obtain ⟨rfl, rfl⟩ := hp
    exact ⟨0, by simp [initSt, lookup], le_refl _⟩
  frontier_cost := by
    intro x hx
    simp only [initSt, List.mem_singleton] at hx
    subst hx
    exact ⟨0, by simp [initSt, lookup]⟩
  start_zero := by simp [initSt, lookup]
  parent_cost := by intro n p e hl; simp [initSt, lookup] at hl
  settled := by
    intro n c _ hl
    simp only [initSt, lookup] at hl
    split at hl
    · rename_i hn
      simp only [Option.some.injEq] at hl
      subst hn; subst hl
      left
      exact ⟨0, by simp [initSt], by simpa using hH.nonneg start goal⟩
    · cases hl
  cur_cost := by intro n cc hc; cases hc
  done := by intro n cc hc; cases hc

theorem RInv.mono {adj : Nat → List (Nat × Nat)} {h : Nat → Nat → C} {start goal : Nat} {cur : Option (Nat × C)}
    {P Q : Nat × Nat → Prop} {s : St C} (hI : RInv adj h start goal cur P s) (hQ : ∀ x, Q x → P x) :
    RInv adj h start goal cur Q s :=
  ⟨hI.nonneg, hI.goal_entries, hI.frontier_cost, hI.start_zero, hI.parent_cost, hI.settled, hI.cur_cost,
    fun n cc hc x hx => hI.done n cc hc x (hQ x hx)⟩

/-- one successful relaxation keeps the invariant -/
theorem rinv_update (adj : Nat → List (Nat × Nat)) (h : Nat → Nat → C) (start goal : Nat) (hH : Heur h goal)
    (cur : Nat) (cc : C) (P : Nat × Nat → Prop) (s : St C) (hI : RInv adj h start goal (some (cur, cc)) P s)
    (next e : Nat)
    (hbetter : lookup next s.cost = none ∨ ∃ old, lookup next s.cost = some old ∧ cc + h cur next < old) :
    RInv adj h start goal (some (cur, cc)) (fun x => P x ∨ x = (next, e))
      { came := Path.set next (cur, e) s.came, cost := Path.set next (cc + h cur next) s.cost,
        frontier := (cc + h cur next + h next goal, next) :: s.frontier } := by
  have hcc := hI.cur_cost cur cc rfl
  have hcc0 : 0 ≤ cc := hI.nonneg cur cc hcc
  have hnew0 : 0 ≤ cc + h cur next := add_nonneg hcc0 (hH.nonneg _ _)
  -- an improvement is strictly below the old value
  have hlt : ∀ old, lookup next s.cost = some old → cc + h cur next < old := by
    intro old ho
    rcases hbetter with hb | ⟨old', ho', hlt⟩
    · rw [hb] at ho; cases ho
    · rw [ho] at ho'; simp only [Option.some.injEq] at ho'; subst ho'; exact hlt
  have hnc : next ≠ cur := by
    intro hc
    subst hc
    have := hlt cc hcc
    exact absurd (le_add_of_nonneg_right (hH.nonneg next next)) (not_le.mpr this)
  have hns : next ≠ start := by
    intro hc
    subst hc
    exact absurd hnew0 (not_le.mpr (hlt 0 hI.start_zero))
  have hcost : ∀ n, n ≠ next → lookup n (Path.set next (cc + h cur next) s.cost) = lookup n s.cost :=
    fun n hn => lookup_set_ne next n _ s.cost hn
  have hcostn : lookup next (Path.set next (cc + h cur next) s.cost) = some (cc + h cur next) := lookup_set_self next _ s.cost
  -- costs only go down
  have hdown : ∀ m cm, lookup m s.cost = some cm → ∃ cm', lookup m (Path.set next (cc + h cur next) s.cost) = some cm' ∧ cm' ≤ cm := by
    intro m cm hm
    by_cases hmn : m = next
    · subst hmn; exact ⟨_, hcostn, le_of_lt (hlt cm hm)⟩
    · exact ⟨cm, by rw [hcost m hmn]; exact hm, le_refl _⟩
  refine ⟨?_, ?_, ?_, ?_, ?_, ?_, ?_, ?_⟩
  · intro n c hl
    by_cases hn : n = next
    · subst hn; rw [hcostn] at hl; simp only [Option.some.injEq] at hl; rw [← hl]; exact hnew0
    · rw [hcost n hn] at hl; exact hI.nonneg n c hl
  · intro p hp
    rcases List.mem_cons.mp hp with hp | hp
    · simp only [Prod.mk.injEq] at hp
      obtain ⟨rfl, hg⟩ := hp
      subst hg
      exact ⟨_, hcostn, by rw [hH.goal_zero, add_zero]⟩
    · obtain ⟨c, hc, hcp⟩ := hI.goal_entries p hp
      obtain ⟨c', hc', hle⟩ := hdown goal c hc
      exact ⟨c', hc', le_trans hle hcp⟩
  · intro x hx
    rcases List.mem_cons.mp hx with hx | hx
    · subst hx; exact ⟨_, hcostn⟩
    · obtain ⟨c, hc⟩ := hI.frontier_cost x hx
      obtain ⟨c', hc', _⟩ := hdown x.2 c hc
      exact ⟨c', hc'⟩
  · show lookup start (Path.set next (cc + h cur next) s.cost) = some 0
    rw [hcost start (Ne.symm hns)]; exact hI.start_zero
  · intro n p e' hl
    by_cases hn : n = next
    · subst hn
      rw [lookup_set_self] at hl
      simp only [Option.some.injEq, Prod.mk.injEq] at hl
      obtain ⟨rfl, rfl⟩ := hl
      exact ⟨cc, _, by rw [hcost _ (Ne.symm hnc)]; exact hcc, hcostn, le_refl _⟩
    · rw [lookup_set_ne next n _ s.came hn] at hl
      obtain ⟨cp, cn, hp, hcn, hle⟩ := hI.parent_cost n p e' hl
      obtain ⟨cp', hp', hle'⟩ := hdown p cp hp
      exact ⟨cp', cn, hp', by rw [hcost n hn]; exact hcn, le_trans (add_le_add hle' (le_refl _)) hle⟩
  · intro n c hncur hl
    by_cases hn : n = next
    · subst hn
      rw [hcostn] at hl; simp only [Option.some.injEq] at hl; subst hl
      left
      exact ⟨_, List.mem_cons_self, le_refl _⟩
    · rw [hcost n hn] at hl
      rcases hI.settled n c hncur hl with ⟨p, hp, hle⟩ | hcl
      · left; exact ⟨p, List.mem_cons_of_mem _ hp, hle⟩
      · right
        intro m e' hm
        obtain ⟨cm, hcm, hle⟩ := hcl m e' hm
        obtain ⟨cm', hcm', hle'⟩ := hdown m cm hcm
        exact ⟨cm', hcm', le_trans hle' hle⟩
  · intro n cc' hc
    simp only [Option.some.injEq, Prod.mk.injEq] at hc
    obtain ⟨rfl, rfl⟩ := hc
    show lookup cur (Path.set next (cc + h cur next) s.cost) = some cc
    rw [hcost cur (Ne.symm hnc)]; exact hcc
  · intro n cc' hc x hx
    simp only [Option.some.injEq, Prod.mk.injEq] at hc
    obtain ⟨rfl, rfl⟩ := hc
    rcases hx with hx | hx
    · obtain ⟨cm, hcm, hle⟩ := hI.done cur cc rfl x hx
      obtain ⟨cm', hcm', hle'⟩ := hdown x.1 cm hcm
      exact ⟨cm', hcm', le_trans hle' hle⟩
    · subst hx
      exact ⟨_, hcostn, le_refl _⟩

/-- the relaxation loop over the neighbours of `cur` keeps the invariant and records every neighbour it has handled -/
theorem relax_rinv (adj : Nat → List (Nat × Nat)) (h : Nat → Nat → C) (start goal : Nat) (hH : Heur h goal) (cur : Nat) (cc : C) :
    ∀ (todo : List (Nat × Nat)) (P : Nat × Nat → Prop) (s : St C), RInv adj h start goal (some (cur, cc)) P s →
      RInv adj h start goal (some (cur, cc)) (fun x => P x ∨ x ∈ todo) (relax h goal false cur todo s).1 ∧
      (relax h goal false cur todo s).2 = false := by
  intro todo
  induction todo with
  | nil =>
    intro P s hI
    exact ⟨hI.mono (fun x hx => by rcases hx with hx | hx; exact hx; cases hx), rfl⟩
  | cons ne rest ih =>
    intro P s hI
    obtain ⟨next, e⟩ := ne
    have hcc := hI.cur_cost cur cc rfl
    cases hn : lookup next s.cost with
    | none =>
      have hr : relax h goal false cur ((next, e) :: rest) s =
          relax h goal false cur rest
            { came := Path.set next (cur, e) s.came, cost := Path.set next (cc + h cur next) s.cost,
              frontier := (cc + h cur next + h next goal, next) :: s.frontier } := by
        simp only [relax, hcc, hn, Bool.false_and, Bool.false_eq_true, if_false, if_true]
      rw [hr]
      obtain ⟨h1, h2⟩ := ih _ _ (rinv_update adj h start goal hH cur cc P s hI next e (Or.inl hn))
      refine ⟨h1.mono ?_, h2⟩
      intro x hx
      rcases hx with hx | hx
      · exact Or.inl (Or.inl hx)
      · rcases List.mem_cons.mp hx with hx | hx
        · exact Or.inl (Or.inr hx)
        · exact Or.inr hx
    | some old =>
      by_cases hb : cc + h cur next < old
      · have hr : relax h goal false cur ((next, e) :: rest) s =
            relax h goal false cur rest
              { came := Path.set next (cur, e) s.came, cost := Path.set next (cc + h cur next) s.cost,
                frontier := (cc + h cur next + h next goal, next) :: s.frontier } := by
          simp only [relax, hcc, hn, hb, decide_true, Bool.false_and, Bool.false_eq_true, if_false, if_true]
        rw [hr]
        obtain ⟨h1, h2⟩ := ih _ _ (rinv_update adj h start goal hH cur cc P s hI next e (Or.inr ⟨old, hn, hb⟩))
        refine ⟨h1.mono ?_, h2⟩
        intro x hx
        rcases hx with hx | hx
        · exact Or.inl (Or.inl hx)
        · rcases List.mem_cons.mp hx with hx | hx
          · exact Or.inl (Or.inr hx)
          · exact Or.inr hx
      · have hr : relax h goal false cur ((next, e) :: rest) s = relax h goal false cur rest s := by
          simp only [relax, hcc, hn, hb, decide_false, Bool.false_and, Bool.false_eq_true, if_false]
        rw [hr]
        have hI' : RInv adj h start goal (some (cur, cc)) (fun x => P x ∨ x = (next, e)) s :=
          ⟨hI.nonneg, hI.goal_entries, hI.frontier_cost, hI.start_zero, hI.parent_cost, hI.settled, hI.cur_cost, by
            intro n cc' hc x hx
            rcases hx with hx | hx
            · exact hI.done n cc' hc x hx
            · simp only [Option.some.injEq, Prod.mk.injEq] at hc
              obtain ⟨rfl, rfl⟩ := hc
              subst hx
              exact ⟨old, hn, not_lt.mp hb⟩⟩
        obtain ⟨h1, h2⟩ := ih _ _ hI'
        refine ⟨h1.mono ?_, h2⟩
        intro x hx
        rcases hx with hx | hx
        · exact Or.inl (Or.inl hx)
        · rcases List.mem_cons.mp hx with hx | hx
          · exact Or.inl (Or.inr hx)
          · exact Or.inr hx

theorem popMin_split : ∀ (l : List (C × Nat)) (m : C × Nat) (rest : List (C × Nat)), popMin l = some (m, rest) →
    (∀ x ∈ l, x = m ∨ x ∈ rest) ∧ (∀ x ∈ l, m.1 ≤ x.1) := by
  intro l
  induction l with
  | nil => intro m rest hh; simp [popMin] at hh
  | cons x xs ih =>
    intro m rest hh
    simp only [popMin] at hh
    cases hp : popMin xs with
    | none =>
      rw [hp] at hh
      simp only [Option.some.injEq, Prod.mk.injEq] at hh
      obtain ⟨rfl, rfl⟩ := hh
      have hx : xs = [] := by
        cases xs with
        | nil => rfl
        | cons y ys =>
          simp only [popMin] at hp
          cases hq : popMin ys with
          | none => rw [hq] at hp; cases hp
          | some mr => rw [hq] at hp; simp only at hp; split at hp <;> cases hp
      subst hx
      exact ⟨by simp, by simp⟩
    | some mr =>
      obtain ⟨m', rest'⟩ := mr
      rw [hp] at hh
      obtain ⟨h1, h2⟩ := ih m' rest' hp
      simp only at hh
      by_cases ht : tupleLt m' x = true
      · rw [if_pos ht] at hh
        simp only [Option.some.injEq, Prod.mk.injEq] at hh
        obtain ⟨rfl, rfl⟩ := hh
        have hle : m'.1 ≤ x.1 := by
          unfold tupleLt at ht
          simp only [Bool.or_eq_true, Bool.and_eq_true, decide_eq_true_eq, Bool.not_eq_true', decide_eq_false_iff_not] at ht
          rcases ht with ht | ⟨ht, _⟩
          · exact le_of_lt ht
          · exact not_lt.mp ht
        refine ⟨?_, ?_⟩
        · intro y hy
          rcases List.mem_cons.mp hy with hy | hy
          · subst hy; exact Or.inr (by simp)
          · rcases h1 y hy with h | h
            · exact Or.inl h
            · exact Or.inr (List.mem_cons_of_mem _ h)
        · intro y hy
          rcases List.mem_cons.mp hy with hy | hy
          · subst hy; exact hle
          · exact h2 y hy
      · rw [if_neg ht] at hh
        simp only [Option.some.injEq, Prod.mk.injEq] at hh
        obtain ⟨rfl, rfl⟩ := hh
        have hle : x.1 ≤ m'.1 := by
          unfold tupleLt at ht
          simp only [Bool.or_eq_true, Bool.and_eq_true, decide_eq_true_eq, Bool.not_eq_true', decide_eq_false_iff_not, not_or] at ht
          exact not_lt.mp ht.1
        refine ⟨?_, ?_⟩
        · intro y hy
          rcases List.mem_cons.mp hy with hy | hy
          · exact Or.inl hy
          · exact Or.inr hy
        · intro y hy
          rcases List.mem_cons.mp hy with hy | hy
          · subst hy; exact le_refl _
          · exact le_trans hle (h2 y hy)

/-- from any node with a recorded cost, along any walk to the goal: either some queue entry has a priority below
    `cost + length of the walk`, or the goal's recorded cost is already below it -/
theorem reach_bound (adj : Nat → List (Nat × Nat)) (h : Nat → Nat → C) (start goal : Nat) (hH : Heur h goal) (s : St C)
    (hI : RInv adj h start goal none (fun _ => False) s) :
    ∀ (rest : List Nat) (a : Nat) (c : C), lookup a s.cost = some c → IsWalk adj (a :: rest) →
      (a :: rest).getLast? = some goal →
      (∃ p n, (p, n) ∈ s.frontier ∧ p ≤ c + weight h (a :: rest)) ∨
      (∃ cg, lookup goal s.cost = some cg ∧ cg ≤ c + weight h (a :: rest)) := by
  intro rest
  induction rest with
  | nil =>
    intro a c hc _ hl
    simp only [List.getLast?_singleton, Option.some.injEq] at hl
    subst hl
    right
    exact ⟨c, hc, by simp [weight]⟩
  | cons b r ih =>
    intro a c hc hw hl
    have hl' : (b :: r).getLast? = some goal := by simpa [List.getLast?_cons_cons] using hl
    obtain ⟨⟨e, hadj⟩, hw'⟩ := hw
    rcases hI.settled a c (fun cc hcc => by cases hcc) hc with ⟨p, hp, hle⟩ | hcl
    · left
      exact ⟨p, a, hp, le_trans hle (add_le_add (le_refl _) (admissible adj h goal hH (b :: r) a hl))⟩
    · obtain ⟨cb, hcb, hle⟩ := hcl b e hadj
      have hstep : cb + weight h (b :: r) ≤ c + weight h (a :: b :: r) := by
        calc cb + weight h (b :: r) ≤ (c + h a b) + weight h (b :: r) := add_le_add hle (le_refl _)
          _ = c + weight h (a :: b :: r) := by rw [add_assoc]; rfl
      rcases ih b cb hcb hw' hl' with ⟨p, n, hp, hle'⟩ | ⟨cg, hcg, hle'⟩
      · left; exact ⟨p, n, hp, le_trans hle' hstep⟩
      · right; exact ⟨cg, hcg, le_trans hle' hstep⟩

/-- **C11 (optimal cost)**: when the search without early stopping returns, the cost it has recorded for the goal is at
    most the length of *every* walk from the start to the goal — for every graph, every budget, every metric obeying `Heur` -/
theorem forward_optimal (adj : Nat → List (Nat × Nat)) (h : Nat → Nat → C) (start goal : Nat) (hH : Heur h goal) :
    ∀ (fuel : Nat) (s s' : St C), RInv adj h start goal none (fun _ => False) s → forward adj h goal false fuel s = .found s' →
      (∀ (rest : List Nat), IsWalk adj (start :: rest) → (start :: rest).getLast? = some goal →
        ∃ cg, lookup goal s'.cost = some cg ∧ cg ≤ weight h (start :: rest)) ∧
      (∀ n c, lookup n s'.cost = some c → 0 ≤ c) ∧ lookup start s'.cost = some 0 ∧
      (∀ n p e, lookup n s'.came = some (p, e) → ∃ cp cn, lookup p s'.cost = some cp ∧ lookup n s'.cost = some cn ∧ cp + h p n ≤ cn) := by
  intro fuel
  induction fuel with
  | zero => intro s s' _ hf; simp [forward] at hf
  | succ fuel ih =>
    intro s s' hI hf
    simp only [forward] at hf
    cases hp : popMin s.frontier with
    | none => rw [hp] at hf; cases hf
    | some mr =>
      obtain ⟨⟨pr, current⟩, rest⟩ := mr
      rw [hp] at hf
      obtain ⟨hm, hrest⟩ := popMin_mem _ _ _ hp
      obtain ⟨hsplit, hmin⟩ := popMin_split _ _ _ hp
      simp only at hf
      by_cases hcg : (current == goal) = true
      · simp only [hcg, if_true, Outcome.found.injEq] at hf
        subst hf
        have hcur : current = goal := by simpa using hcg
        subst hcur
        refine ⟨?_, hI.nonneg, hI.start_zero, hI.parent_cost⟩
        intro walk hw hl
        obtain ⟨cgoal, hcgoal, hcp⟩ := hI.goal_entries pr hm
        rcases reach_bound adj h start current hH s hI walk start 0 hI.start_zero hw hl with ⟨p, n, hpn, hle⟩ | ⟨cg, hcg', hle⟩
        · refine ⟨cgoal, hcgoal, ?_⟩
          have := hmin (p, n) hpn
          simp only at this
          calc cgoal ≤ pr := hcp
            _ ≤ p := this
            _ ≤ 0 + weight h (start :: walk) := hle
            _ = weight h (start :: walk) := zero_add _
        · exact ⟨cg, hcg', by rw [zero_add] at hle; exact hle⟩
      · simp only [hcg, Bool.false_eq_true, if_false] at hf
        obtain ⟨cc, hcc⟩ := hI.frontier_cost _ hm
        simp only at hcc
        have hI1 : RInv adj h start goal (some (current, cc)) (fun _ => False) { s with frontier := rest } := by
          refine ⟨hI.nonneg, fun p hp' => hI.goal_entries p (hrest _ hp'), fun x hx => hI.frontier_cost x (hrest x hx),
            hI.start_zero, hI.parent_cost, ?_, ?_, ?_⟩
          · intro n c hn hl
            rcases hI.settled n c (fun cc' hc => by cases hc) hl with ⟨p, hp', hle⟩ | hcl
            · left
              refine ⟨p, ?_, hle⟩
              rcases hsplit (p, n) hp' with heq | hin
              · simp only [Prod.mk.injEq] at heq
                exact absurd (by rw [heq.2]) (hn cc)
              · exact hin
            · right; exact hcl
          · intro n cc' hc
            simp only [Option.some.injEq, Prod.mk.injEq] at hc
            obtain ⟨rfl, rfl⟩ := hc
            exact hcc
          · intro n cc' _ x hx; cases hx
        obtain ⟨hI2, hr2⟩ := relax_rinv adj h start goal hH current cc (adj current) _ _ hI1
        rw [hr2] at hf
        simp only [Bool.false_eq_true, if_false] at hf
        have hI3 : RInv adj h start goal none (fun _ => False)
            (relax h goal false current (adj current) { s with frontier := rest }).1 := by
          refine ⟨hI2.nonneg, hI2.goal_entries, hI2.frontier_cost, hI2.start_zero, hI2.parent_cost, ?_, ?_, ?_⟩
          · intro n c _ hl
            by_cases hn : n = current
            · subst hn
              have := hI2.cur_cost n cc rfl
              rw [this] at hl; simp only [Option.some.injEq] at hl; subst hl
              right
              intro m e hme
              exact hI2.done n cc rfl (m, e) (Or.inr hme)
            · exact hI2.settled n c (fun cc' hc => by
                simp only [Option.some.injEq, Prod.mk.injEq] at hc
                exact hn hc.1.symm) hl
          · intro n cc' hc; cases hc
          · intro n cc' hc; cases hc
        exact ih _ s' hI3 hf

theorem chain_head (came : List (Nat × (Nat × Nat))) (start : Nat) :
    ∀ fuel cur ns es, chain came start fuel cur = some (ns, es) → ns.head? = some cur := by
  intro fuel
  induction fuel with
  | zero => intro cur ns es hc; simp [chain] at hc
  | succ fuel ih =>
    intro cur ns es hc
    unfold chain at hc
    split at hc
    · simp only [Option.some.injEq, Prod.mk.injEq] at hc; rw [← hc.1]; rfl
    · cases hl : lookup cur came with
      | none => rw [hl] at hc; cases hc
      | some pe =>
        obtain ⟨p, e⟩ := pe
        rw [hl] at hc
        simp only at hc
        cases hr : chain came start fuel p with
        | none => rw [hr] at hc; cases hc
        | some r =>
          rw [hr] at hc
          simp only [Option.map_some, Option.some.injEq, Prod.mk.injEq] at hc
          rw [← hc.1]; rfl

/-- the walk the backward pass reads off the parent table is no longer than the recorded cost of the node it starts from -/
theorem chain_weight (h : Nat → Nat → C) (came : List (Nat × (Nat × Nat))) (cost : List (Nat × C)) (start : Nat)
    (hnn : ∀ n c, lookup n cost = some c → 0 ≤ c)
    (hpc : ∀ n p e, lookup n came = some (p, e) → ∃ cp cn, lookup p cost = some cp ∧ lookup n cost = some cn ∧ cp + h p n ≤ cn) :
    ∀ fuel cur ns es c, chain came start fuel cur = some (ns, es) → lookup cur cost = some c → wRev h ns ≤ c := by
  intro fuel
  induction fuel with
  | zero => intro cur ns es c hc; simp [chain] at hc
  | succ fuel ih =>
    intro cur ns es c hc hcost
    unfold chain at hc
    split at hc
    · simp only [Option.some.injEq, Prod.mk.injEq] at hc
      rw [← hc.1]
      exact hnn cur c hcost
    · cases hl : lookup cur came with
      | none => rw [hl] at hc; cases hc
      | some pe =>
        obtain ⟨p, e⟩ := pe
        rw [hl] at hc
        simp only at hc
        cases hr : chain came start fuel p with
        | none => rw [hr] at hc; cases hc
        | some r =>
          obtain ⟨rn, re⟩ := r
          rw [hr] at hc
          simp only [Option.map_some, Option.some.injEq, Prod.mk.injEq] at hc
          obtain ⟨cp, cn, hcp, hcn, hle⟩ := hpc cur p e hl
          rw [hcost] at hcn; simp only [Option.some.injEq] at hcn; subst hcn
          have hw := ih p rn re cp hr hcp
          have hh := chain_head came start fuel p rn re hr
          cases rn with
          | nil => simp at hh
          | cons q rest =>
            simp only [List.head?_cons, Option.some.injEq] at hh
            subst hh
            rw [← hc.1]
            calc wRev h (cur :: q :: rest) = h q cur + wRev h (q :: rest) := rfl
              _ ≤ h q cur + cp := add_le_add (le_refl _) hw
              _ = cp + h q cur := add_comm _ _
              _ ≤ c := hle

/-- **C11 (shortest path)**: without early stopping, whatever the graph, the budget and the metric (obeying `Heur`): if
    the search returns a chain `ns` (from the goal back to the start), its length is at most the length of *every* walk
    from the start to the goal — the returned path is a shortest one. -/
theorem path_shortest (adj : Nat → List (Nat × Nat)) (h : Nat → Nat → C) (start goal : Nat) (hH : Heur h goal) (maxits : Nat)
    (ns es : List Nat) (hp : path adj h 0 start goal false maxits = some (ns, es))
    (rest : List Nat) (hw : IsWalk adj (start :: rest)) (hl : (start :: rest).getLast? = some goal) :
    wRev h ns ≤ weight h (start :: rest) := by
  unfold path at hp
  cases hf : forward adj h goal false maxits (initSt 0 start) with
  | exhausted => rw [hf] at hp; cases hp
  | found s =>
    rw [hf] at hp
    simp only at hp
    obtain ⟨hopt, hnn, _, hpc⟩ := forward_optimal adj h start goal hH maxits _ s (rinv_init adj h start goal hH) hf
    obtain ⟨cg, hcg, hle⟩ := hopt rest hw hl
    rw [backward_eq_chain] at hp
    cases hc : chain s.came start (s.came.length + 2) goal with
    | none => rw [hc] at hp; cases hp
    | some r =>
      obtain ⟨rn, re⟩ := r
      rw [hc] at hp
      simp only [Option.map_some, List.reverse_nil, List.nil_append, Option.some.injEq, Prod.mk.injEq] at hp
      obtain ⟨rfl, rfl⟩ := hp
      exact le_trans (chain_weight h s.came s.cost start hnn hpc _ goal rn re cg hc hcg) hle

/-! non-vacuity: unit costs on the 3-cycle are not a metric towards the goal (`h goal goal ≠ 0`), the 0/1 metric is -/
def exH : Nat → Nat → Nat := fun a b => if a = b then 0 else 1
example : Heur exH 2 := ⟨fun _ _ => Nat.zero_le _, by simp [exH], fun a b => by unfold exH; split <;> split <;> split <;> omega⟩
example : path exAdj exH 0 0 2 false 10 = some ([2, 0], [2]) := by decide
example : IsWalk exAdj [0, 1, 2] ∧ weight exH [0, 1, 2] = 2 ∧ wRev exH [2, 0] = 1 := by
  refine ⟨⟨⟨0, by decide⟩, ⟨1, by decide⟩, trivial⟩, by decide, by decide⟩

end Optimal
end C11

namespace C11
open Path

/-! ### both offered metrics satisfy `Heur` in exact (real) arithmetic -/

/-- `straight_line_length`: the Euclidean distance of the centres -/
noncomputable def hEuclid (z : Nat → ℂ) (a b : Nat) : ℝ := ‖z a - z b‖

theorem heur_euclid (z : Nat → ℂ) (goal : Nat) : Heur (hEuclid z) goal where
  nonneg := fun _ _ => norm_nonneg _
  goal_zero := by simp [hEuclid]
  tri := fun a b => by
    unfold hEuclid
    calc ‖z a - z goal‖ = ‖(z a - z b) + (z b - z goal)‖ := by congr 1; ring
      _ ≤ ‖z a - z b‖ + ‖z b - z goal‖ := norm_add_le _ _

/-- one coordinate of `periodic_straight_line_length`: `δ = |x|`, `1 − δ` where `δ > 1/2` -/
noncomputable def pw (x : ℝ) : ℝ := if |x| > 1 / 2 then 1 - |x| else |x|

theorem pw_nonneg (x : ℝ) (hx : |x| ≤ 1) : 0 ≤ pw x := by
  unfold pw; split
  · linarith
  · exact abs_nonneg x

theorem pw_zero : pw 0 = 0 := by unfold pw; simp

/-- `pw x` is at most the distance from `x` to any integer … -/
theorem pw_le_int (x : ℝ) (hx : |x| ≤ 1) (k : ℤ) : pw x ≤ |x - k| := by
  have h1 : pw x ≤ |x| := by unfold pw; split <;> [linarith; exact le_refl _]
  have h2 : pw x ≤ 1 - |x| := by unfold pw; split <;> [exact le_refl _; (rename_i h; have h := not_lt.mp h; linarith)]
  rcases lt_trichotomy k 0 with hk | hk | hk
  · have : (k : ℝ) ≤ -1 := by exact_mod_cast Int.le_sub_one_of_lt hk
    have hx' := abs_le.mp hx
    calc pw x ≤ 1 - |x| := h2
      _ ≤ x - k := by have := neg_abs_le x; linarith
      _ ≤ |x - k| := le_abs_self _
  · subst hk; simpa using h1
  · have : (1 : ℝ) ≤ k := by exact_mod_cast hk
    calc pw x ≤ 1 - |x| := h2
      _ ≤ -(x - k) := by have := le_abs_self x; linarith
      _ ≤ |x - k| := neg_le_abs _

/-- … and equals the distance to one of them -/
theorem pw_eq_int (x : ℝ) (hx : |x| ≤ 1) : ∃ k : ℤ, pw x = |x - k| := by
  unfold pw
  split
  · rcases le_total 0 x with h0 | h0
    · refine ⟨1, ?_⟩
      rw [abs_of_nonneg h0] at hx ⊢
      rw [Int.cast_one, abs_of_nonpos (by linarith)]; ring
    · refine ⟨-1, ?_⟩
      rw [abs_of_nonpos h0] at hx ⊢
      have : (((-1 : ℤ) : ℝ)) = -1 := by norm_num
      rw [this, abs_of_nonneg (by linarith)]; ring
  · exact ⟨0, by simp⟩

/-- the wrapped coordinate difference is subadditive (all three differences between points of the unit cell) -/
theorem pw_add_le (x y : ℝ) (hx : |x| ≤ 1) (hy : |y| ≤ 1) (hxy : |x + y| ≤ 1) : pw (x + y) ≤ pw x + pw y := by
  obtain ⟨k, hk⟩ := pw_eq_int x hx
  obtain ⟨m, hm⟩ := pw_eq_int y hy
  have := pw_le_int (x + y) hxy (k + m)
  calc pw (x + y) ≤ |x + y - ((k + m : ℤ) : ℝ)| := this
    _ = |(x - k) + (y - m)| := by congr 1; push_cast; ring
    _ ≤ |x - k| + |y - m| := abs_add_le _ _
    _ = pw x + pw y := by rw [hk, hm]

/-- `periodic_straight_line_length`: the minimum-image distance on the unit torus -/
noncomputable def hPeriodic (p : Nat → ℝ × ℝ) (a b : Nat) : ℝ :=
  Real.sqrt (pw ((p a).1 - (p b).1) ^ 2 + pw ((p a).2 - (p b).2) ^ 2)

theorem abs_sub_le_one {u v : ℝ} (hu : 0 ≤ u ∧ u < 1) (hv : 0 ≤ v ∧ v < 1) : |u - v| ≤ 1 := by
  rw [abs_le]; constructor <;> linarith [hu.1, hu.2, hv.1, hv.2]

theorem heur_periodic (p : Nat → ℝ × ℝ) (goal : Nat)
    (hcell : ∀ n, (0 ≤ (p n).1 ∧ (p n).1 < 1) ∧ (0 ≤ (p n).2 ∧ (p n).2 < 1)) : Heur (hPeriodic p) goal where
  nonneg := fun _ _ => Real.sqrt_nonneg _
  goal_zero := by simp [hPeriodic, pw_zero]
  tri := fun a b => by
    unfold hPeriodic
    set x1 := (p a).1 - (p b).1
    set x2 := (p b).1 - (p goal).1
    set y1 := (p a).2 - (p b).2
    set y2 := (p b).2 - (p goal).2
    have ex : (p a).1 - (p goal).1 = x1 + x2 := by simp only [x1, x2]; ring
    have ey : (p a).2 - (p goal).2 = y1 + y2 := by simp only [y1, y2]; ring
    rw [ex, ey]
    have hx1 : |x1| ≤ 1 := abs_sub_le_one (hcell a).1 (hcell b).1
    have hx2 : |x2| ≤ 1 := abs_sub_le_one (hcell b).1 (hcell goal).1
    have hy1 : |y1| ≤ 1 := abs_sub_le_one (hcell a).2 (hcell b).2
    have hy2 : |y2| ≤ 1 := abs_sub_le_one (hcell b).2 (hcell goal).2
    have hx12 : |x1 + x2| ≤ 1 := by rw [← ex]; exact abs_sub_le_one (hcell a).1 (hcell goal).1
    have hy12 : |y1 + y2| ≤ 1 := by rw [← ey]; exact abs_sub_le_one (hcell a).2 (hcell goal).2
    have sx := pw_add_le x1 x2 hx1 hx2 hx12
    have sy := pw_add_le y1 y2 hy1 hy2 hy12
    have nx := pw_nonneg (x1 + x2) hx12
    have ny := pw_nonneg (y1 + y2) hy12
    -- monotonicity, then Minkowski in the plane (the norm of complex numbers)
    have mono : Real.sqrt (pw (x1 + x2) ^ 2 + pw (y1 + y2) ^ 2) ≤ Real.sqrt ((pw x1 + pw x2) ^ 2 + (pw y1 + pw y2) ^ 2) := by
      apply Real.sqrt_le_sqrt
      have := pow_le_pow_left₀ nx sx 2
      have := pow_le_pow_left₀ ny sy 2
      linarith
    have mink : Real.sqrt ((pw x1 + pw x2) ^ 2 + (pw y1 + pw y2) ^ 2) ≤
        Real.sqrt (pw x1 ^ 2 + pw y1 ^ 2) + Real.sqrt (pw x2 ^ 2 + pw y2 ^ 2) := by
      rw [← Complex.norm_add_mul_I, ← Complex.norm_add_mul_I, ← Complex.norm_add_mul_I]
      have : ((pw x1 + pw x2 : ℝ) : ℂ) + ((pw y1 + pw y2 : ℝ) : ℂ) * Complex.I
          = ((pw x1 : ℂ) + (pw y1 : ℂ) * Complex.I) + ((pw x2 : ℂ) + (pw y2 : ℂ) * Complex.I) := by push_cast; ring
      rw [this]
      exact norm_add_le _ _
    exact le_trans mono mink

/-- **C11 (shortest path, both metrics)**: with either of the two offered metrics evaluated in exact real arithmetic, the chain
    returned without early stopping is a shortest path — no hypothesis about the metric is left. -/
theorem path_shortest_euclid (adj : Nat → List (Nat × Nat)) (z : Nat → ℂ) (start goal maxits : Nat) (ns es : List Nat)
    (hp : path adj (hEuclid z) 0 start goal false maxits = some (ns, es))
    (rest : List Nat) (hw : IsWalk adj (start :: rest)) (hl : (start :: rest).getLast? = some goal) :
    wRev (hEuclid z) ns ≤ weight (hEuclid z) (start :: rest) :=
  path_shortest adj (hEuclid z) start goal (heur_euclid z goal) maxits ns es hp rest hw hl

theorem path_shortest_periodic (adj : Nat → List (Nat × Nat)) (p : Nat → ℝ × ℝ)
    (hcell : ∀ n, (0 ≤ (p n).1 ∧ (p n).1 < 1) ∧ (0 ≤ (p n).2 ∧ (p n).2 < 1)) (start goal maxits : Nat) (ns es : List Nat)
    (hp : path adj (hPeriodic p) 0 start goal false maxits = some (ns, es))
    (rest : List Nat) (hw : IsWalk adj (start :: rest)) (hl : (start :: rest).getLast? = some goal) :
    wRev (hPeriodic p) ns ≤ weight (hPeriodic p) (start :: rest) :=
  path_shortest adj (hPeriodic p) start goal (heur_periodic p goal hcell) maxits ns es hp rest hw hl

/-! ### the torus metric on nodes outside the unit square (plaquette centres) -/

theorem int_cases5 (k : ℤ) : (k:ℝ) ≤ -2 ∨ (k:ℝ) = -1 ∨ (k:ℝ) = 0 ∨ (k:ℝ) = 1 ∨ 2 ≤ (k:ℝ) := by
  rcases le_or_gt k (-2) with h | h
  · left; exact_mod_cast h
  rcases le_or_gt 2 k with h2 | h2
  · right; right; right; right; exact_mod_cast h2
  have : k = -1 ∨ k = 0 ∨ k = 1 := by omega
  rcases this with r | r | r <;> subst r <;> simp

/-- beyond the unit cell: for coordinate differences up to a cell and a half, `|pw x|` is still at most the distance from `x` to any integer … -/
theorem apw_le_int (x : ℝ) (hx : |x| ≤ 3 / 2) (k : ℤ) : |pw x| ≤ |x - k| := by
  unfold pw
  have hx' := abs_le.mp hx
  split
  · rename_i h
    rcases int_cases5 k with hk | hk | hk | hk | hk <;>
    rcases abs_cases x with ⟨e, _⟩ | ⟨e, _⟩ <;> rw [e] at h ⊢ <;>
    rcases abs_cases (x - k) with ⟨e2, _⟩ | ⟨e2, _⟩ <;> rw [e2] <;>
    rw [abs_le] <;> constructor <;> linarith
  · rename_i h
    have h := not_lt.mp h
    rw [abs_abs]
    rcases int_cases5 k with hk | hk | hk | hk | hk <;>
    rcases abs_cases x with ⟨e, _⟩ | ⟨e, _⟩ <;> rw [e] at h ⊢ <;>
    rcases abs_cases (x - k) with ⟨e2, _⟩ | ⟨e2, _⟩ <;> rw [e2] <;> linarith

/-- … and is attained at one of them -/
theorem apw_eq_int (x : ℝ) (_hx : |x| ≤ 3 / 2) : ∃ k : ℤ, |pw x| = |x - k| := by
  unfold pw
  split
  · rcases le_total 0 x with h0 | h0
    · refine ⟨1, ?_⟩
      rw [abs_of_nonneg h0, Int.cast_one, ← abs_neg (x - 1)]; congr 1; ring
    · refine ⟨-1, ?_⟩
      rw [abs_of_nonpos h0]; push_cast; congr 1; ring
  · exact ⟨0, by simp⟩

theorem apw_add_le (x y : ℝ) (hx : |x| ≤ 3 / 2) (hy : |y| ≤ 3 / 2) (hxy : |x + y| ≤ 3 / 2) : |pw (x + y)| ≤ |pw x| + |pw y| := by
  obtain ⟨k, hk⟩ := apw_eq_int x hx
  obtain ⟨m, hm⟩ := apw_eq_int y hy
  have := apw_le_int (x + y) hxy (k + m)
  calc |pw (x + y)| ≤ |x + y - ((k + m : ℤ) : ℝ)| := this
    _ = |(x - k) + (y - m)| := by congr 1; push_cast; ring
    _ ≤ |x - k| + |y - m| := abs_add_le _ _
    _ = |pw x| + |pw y| := by rw [hk, hm]

/-- the torus metric is a consistent heuristic **wherever the nodes lie**, as long as no two of them are more than a cell and a half apart
    in a coordinate — the hypothesis the centres of plaquettes meet (a plaquette that straddles a wall has its centre outside the unit
    square; `periodic_straight_line_length` is handed those centres as they are). -/
theorem heur_periodic_span (p : Nat → ℝ × ℝ) (goal : Nat)
    (hspan : ∀ a b, |(p a).1 - (p b).1| ≤ 3 / 2 ∧ |(p a).2 - (p b).2| ≤ 3 / 2) : Heur (hPeriodic p) goal where
  nonneg := fun _ _ => Real.sqrt_nonneg _
  goal_zero := by simp [hPeriodic, pw_zero]
  tri := fun a b => by
    unfold hPeriodic
    set x1 := (p a).1 - (p b).1
    set x2 := (p b).1 - (p goal).1
    set y1 := (p a).2 - (p b).2
    set y2 := (p b).2 - (p goal).2
    have ex : (p a).1 - (p goal).1 = x1 + x2 := by simp only [x1, x2]; ring
    have ey : (p a).2 - (p goal).2 = y1 + y2 := by simp only [y1, y2]; ring
    rw [ex, ey]
    have hx12 : |x1 + x2| ≤ 3 / 2 := by rw [← ex]; exact (hspan a goal).1
    have hy12 : |y1 + y2| ≤ 3 / 2 := by rw [← ey]; exact (hspan a goal).2
    have sx := apw_add_le x1 x2 (hspan a b).1 (hspan b goal).1 hx12
    have sy := apw_add_le y1 y2 (hspan a b).2 (hspan b goal).2 hy12
    have mono : Real.sqrt (pw (x1 + x2) ^ 2 + pw (y1 + y2) ^ 2) ≤ Real.sqrt ((|pw x1| + |pw x2|) ^ 2 + (|pw y1| + |pw y2|) ^ 2) := by
      apply Real.sqrt_le_sqrt
      have h1 := pow_le_pow_left₀ (abs_nonneg _) sx 2
      have h2 := pow_le_pow_left₀ (abs_nonneg _) sy 2
      rw [sq_abs] at h1 h2
      linarith
    have mink : Real.sqrt ((|pw x1| + |pw x2|) ^ 2 + (|pw y1| + |pw y2|) ^ 2) ≤
        Real.sqrt (|pw x1| ^ 2 + |pw y1| ^ 2) + Real.sqrt (|pw x2| ^ 2 + |pw y2| ^ 2) := by
      rw [← Complex.norm_add_mul_I, ← Complex.norm_add_mul_I, ← Complex.norm_add_mul_I]
      have : ((|pw x1| + |pw x2| : ℝ) : ℂ) + ((|pw y1| + |pw y2| : ℝ) : ℂ) * Complex.I
          = (((|pw x1| : ℝ) : ℂ) + ((|pw y1| : ℝ) : ℂ) * Complex.I) + (((|pw x2| : ℝ) : ℂ) + ((|pw y2| : ℝ) : ℂ) * Complex.I) := by push_cast; ring
      rw [this]
      exact norm_add_le _ _
    have := le_trans mono mink
    simpa only [sq_abs] using this

/-- **C11 (shortest path, torus metric, plaquette centres)**: the chain returned without early stopping is a shortest path for the torus
    metric on nodes that may lie outside the unit square (plaquette centres), provided no two are more than 3/2 apart in a coordinate. -/
theorem path_shortest_periodic_span (adj : Nat → List (Nat × Nat)) (p : Nat → ℝ × ℝ)
    (hspan : ∀ a b, |(p a).1 - (p b).1| ≤ 3 / 2 ∧ |(p a).2 - (p b).2| ≤ 3 / 2) (start goal maxits : Nat) (ns es : List Nat)
    (hp : path adj (hPeriodic p) 0 start goal false maxits = some (ns, es))
    (rest : List Nat) (hw : IsWalk adj (start :: rest)) (hl : (start :: rest).getLast? = some goal) :
    wRev (hPeriodic p) ns ≤ weight (hPeriodic p) (start :: rest) :=
  path_shortest adj (hPeriodic p) start goal (heur_periodic_span p goal hspan) maxits ns es hp rest hw hl

/-- the bound is sharp in kind: two cells apart the formula is no longer the distance to the nearest image (`pw 2 = -1`, the nearest image is at 0) -/
example : pw 2 = -1 ∧ |pw 2| ≠ |(2:ℝ) - (2:ℤ)| := by
  unfold pw; norm_num
/-- non-vacuity: a centre at (-0.2, 1.3) next to one at (0.9, 0.1) meets the hypothesis -/
example : |(-0.2 : ℝ) - 0.9| ≤ 3 / 2 ∧ |(1.3 : ℝ) - 0.1| ≤ 3 / 2 := by
  constructor <;> rw [abs_le] <;> constructor <;> norm_num

end C11
